"""Enumeration of the anchored entry points and the symbolic worlds they are interpreted in."""
import itertools

from . import world as W
from .interp import Obj
from .term import Sym

FE = "pfhedge.features.features."
F = "pfhedge.nn.functional."
S = "pfhedge.stochastic."

FEATURE_CONFIGS = [
    ("Moneyness", dict(log=False)), ("Moneyness", dict(log=True)), ("LogMoneyness", None), ("TimeToMaturity", {}), ("ExpiryTime", {}),
    ("UnderlierSpot", dict(log=False)), ("UnderlierSpot", dict(log=True)), ("UnderlierLogSpot", None), ("Spot", dict(log=False)),
    ("Spot", dict(log=True)), ("Volatility", {}), ("Variance", {}), ("Barrier", dict(threshold=W.fl("thr"), up=True)),
    ("Barrier", dict(threshold=W.fl("thr"), up=False)), ("Zeros", {}), ("Ones", {}), ("Empty", {}), ("MaxMoneyness", dict(log=False)),
    ("MaxMoneyness", dict(log=True)), ("MaxLogMoneyness", None),
]


def make_feature(ctx, cls, attrs):
    q = FE + cls
    if q not in ctx.prog.classes:
        from .report import AnalysisError
        raise AnalysisError(f"anchor vanished: feature class {q}")
    if attrs is None:  # run the real constructor (sets e.g. log=True through super().__init__)
        f = Obj(q, cls.lower(), {})
        ctx.interp.reset([])
        init = ctx.prog.lookup_method(q, "__init__")
        if init is not None:
            ctx.interp.call_function(init, [], {}, self_obj=f)
        f.attrs["derivative"] = W.option()
        f.attrs.setdefault("hedger", None)
        return f
    return W.feature(cls, **attrs)


def feature_runs(ctx):
    """yield (label, mode, feature_obj_factory)"""
    i = W.integer("i")
    for cls, attrs in FEATURE_CONFIGS:
        for mode, ts in (("step", i), ("batch", None)):
            label = cls + ("" if not attrs else "[" + ",".join(f"{k}={v}" for k, v in attrs.items() if k in ("log", "up")) + "]")
            yield label, mode, ts, (lambda cls=cls, attrs=attrs: make_feature(ctx, cls, attrs))


GEN_KW = dict(n_paths=W.integer("N"), n_steps=W.integer("T"), dtype=Sym("dtype"), device=Sym("device"))
GENERATORS = {
    S + "brownian.generate_brownian": dict(init_state=(W.fl("x0"),), sigma=W.fl("sigma"), mu=W.fl("mu"), dt=W.fl("dt"), engine=Sym("engine", ("callable",))),
    S + "brownian.generate_geometric_brownian": dict(init_state=(W.fl("S0"),), sigma=W.fl("sigma"), mu=W.fl("mu"), dt=W.fl("dt"), engine=Sym("engine", ("callable",))),
    S + "vasicek.generate_vasicek": dict(init_state=(W.fl("x0"),), kappa=W.fl("kappa"), theta=W.fl("theta"), sigma=W.fl("sigma"), dt=W.fl("dt")),
    S + "cir.generate_cir": dict(init_state=(W.fl("v0"),), kappa=W.fl("kappa"), theta=W.fl("theta"), sigma=W.fl("sigma"), dt=W.fl("dt")),
    S + "heston.generate_heston": dict(init_state=(W.fl("S0"), W.fl("v0")), kappa=W.fl("kappa"), theta=W.fl("theta"), sigma=W.fl("sigma"), rho=W.fl("rho"), dt=W.fl("dt")),
    S + "merton_jump.generate_merton_jump": dict(init_state=(W.fl("S0"),), mu=W.fl("mu"), sigma=W.fl("sigma"), jump_per_year=W.fl("lam"), jump_mean=W.fl("jm"), jump_std=W.fl("js"), dt=W.fl("dt"), engine=Sym("engine", ("callable",))),
    S + "kou_jump.generate_kou_jump": dict(init_state=(W.fl("S0"),), sigma=W.fl("sigma"), mu=W.fl("mu"), jump_per_year=W.fl("lam"), jump_mean_up=W.fl("ju"), jump_mean_down=W.fl("jd"), jump_up_prob=W.fl("pu"), dt=W.fl("dt"), engine=Sym("engine", ("callable",))),
    S + "local_volatility.generate_local_volatility_process": dict(sigma_fn=Sym("sigma_fn", ("callable",)), init_state=(W.fl("S0"),), dt=W.fl("dt")),
    S + "rough_bergomi.generate_rough_bergomi": dict(init_state=(W.fl("S0"), W.fl("v0")), alpha=W.fl("alpha"), rho=W.fl("rho"), eta=W.fl("eta"), xi=W.fl("xi"), dt=W.fl("dt")),
}


def generator_runs(ctx):
    from .report import AnalysisError
    for q, kw in GENERATORS.items():
        fi = ctx.prog.functions.get(q)
        if fi is None:
            raise AnalysisError(f"anchor vanished: {q}")
        params = {a.arg for a in fi.node.args.args}
        kw2 = {k: v for k, v in dict(GEN_KW, **kw).items() if k in params}
        yield q, fi, kw2


PAYOFFS = ["european_payoff", "lookback_payoff", "american_binary_payoff", "european_binary_payoff"]


def functional(ctx, name):
    from .report import AnalysisError
    fi = ctx.prog.functions.get(F + name)
    if fi is None:
        raise AnalysisError(f"anchor vanished: {F + name}")
    return fi
