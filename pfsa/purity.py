"""State left behind by a computation (shared by C02, C03, C12, C13, C16, C17, C20).

A method that is meant to be a function of the current market data must not leave anything on an object that existed before the call:
an attribute store (`self._cache = ...`) or a store into a dict held by such an object (`self._memo[key] = ...`) survives the call, and the
next evaluation - after a re-simulation, a cast, with another derivative - reads what the previous one left.  The interpreter logs
`obj_setattr` and `dict_store` events; objects created during the call (the copies made by `.of`) carry a prime or '#' in their name."""
from .interp import Obj
from .term import Sym


def pre_existing(o):
    return isinstance(o, Obj) and "'" not in o.name and "#" not in o.name


def stores(results, allow_attrs=("training",), allow_owner_prefixes=("params", "kwargs")):
    """list of human-readable state stores over all non-raising paths"""
    out = []
    for r in results:
        if r.get("raises"):
            continue
        held = {}  # id(dict) -> owner text, for dicts reached through an attribute of a pre-existing object
        for e in r["events"]:
            k = e["kind"]
            if k == "obj_setattr" and pre_existing(e.get("obj")) and not e["attr"].startswith("__") and e["attr"] not in allow_attrs \
                    and not (e["obj"].cls.endswith(".Hedger") and not e["attr"].startswith("_")):  # re-binding the hedger's public configuration (inputs) is recomputed on every call
                out.append(f"stores {e['obj'].name}.{e['attr']}")
            elif k == "inplace" and e.get("how") == "setitem" and isinstance(e.get("target"), Sym) and "." in e["target"].name \
                    and not ({"tensor", "buffer", "carried"} & set(e["target"].tags)) and "'" not in e["target"].name and "#" not in e["target"].name:
                # a store into a container that is an attribute of a pre-existing object (self._memo[key] = ...)
                out.append(f"stores into {e['target'].name}[...]")
            elif k == "dict_store":
                owner = str(e.get("owner", ""))
                if owner.startswith("self.") or "._" in owner or owner.startswith("_") or owner.isupper():
                    if not owner.startswith(allow_owner_prefixes) and not owner.endswith(("_buffers", "_clauses", "_underliers", "_modules", "_parameters")):
                        out.append(f"stores into {owner}[...]")
    return sorted(set(out))


def builtin_model_runs(ctx):
    """(short name, forward FuncInfo, input symbol, paths) for every class of pfhedge.nn.modules (criteria and the hedger aside) whose forward
    is pfhedge code taking one tensor: the modules the library offers as (parts of) hedging models, interpreted on a generic instance"""
    from . import world as W
    from .interp import Obj, Unsupported
    from .term import Sym
    prog, interp = ctx.prog, ctx.interp
    MODS = "pfhedge.nn.modules."
    skip = ("pfhedge.nn.modules.loss.", "pfhedge.nn.modules.hedger.")
    inp = W.tensor("input")
    for q in sorted(q for q in prog.classes if q.startswith(MODS) and not q.startswith(skip) and not q.rsplit(".", 1)[-1].startswith("_")):
        fwd = prog.lookup_method(q, "forward")
        if fwd is None or not fwd.qualname.startswith("pfhedge.") or len(fwd.node.args.args) != 2:
            continue
        short = q.rsplit(".", 1)[-1]
        o = Obj(q, short.lower(), {})
        if ".bs." in q:
            o.attrs.update(call=True, strike=W.fl("strike"), derivative=None)
        if short == "WhalleyWilmott":
            d_ = Obj("pfhedge.instruments.derivative.european.EuropeanOption", "deriv", {"strike": W.fl("K"), "call": True})
            d_.attrs["underlier"] = Obj(W.PRIMARY, "ul", {"cost": W.fl("cost")})
            o.attrs.update(a=W.fl("a"), derivative=d_, bs=Sym("ww.bs", ("callable",)))
        if short == "Naked":
            o.attrs.update(out_features=1)
        interp.shapes["input"] = (W.integer("N"), W.integer("T"), 4)
        try:
            res = interp.explore(fwd, [inp], {}, self_obj=o, max_paths=60)
        except Unsupported:
            res = None
        finally:
            interp.shapes.pop("input", None)
        yield short, fwd, inp, res
