"""Constructors store what they are given (shared by C01, C10, C12, C13).

Every analysis of a method reads the configuration of an instrument or derivative from its attributes (`self.cost`, `self.dt`,
`self.strike`, `self.sigma`, ...).  That is the caller's configuration only if `__init__` stores each argument under the name the
methods read: interpreted with one symbolic value per parameter, the attribute of the same name must be that value afterwards."""
from .interp import Obj, Unsupported
from .report import AnalysisError
from .term import Sym


def ctor_mismatches(ctx, cls, skip=("dtype", "device", "self")):
    """list of (parameter, what the attribute holds) for parameters whose same-named attribute is not the argument"""
    prog, interp = ctx.prog, ctx.interp
    init = prog.lookup_method(cls, "__init__")
    if init is None:
        raise AnalysisError(f"anchor vanished: {cls}.__init__")
    params = [a.arg for a in init.node.args.args[1:] + init.node.args.kwonlyargs if a.arg not in skip]
    kw = {p: Sym("arg_" + p, ("float",) if p not in ("call", "underlier", "engine", "sigma_fn", "pricer") else ()) for p in params}
    if "underlier" in kw:
        kw["underlier"] = Obj("pfhedge.instruments.primary.base.BasePrimary", "arg_underlier", {"dtype": Sym("ul.dtype"), "device": Sym("ul.device")})
    o = Obj(cls, "probe")
    o.tags = set(getattr(o, "tags", ())) | {"constructing"}
    try:
        res = [r for r in interp.explore(init, [], dict(kw), self_obj=o, max_paths=40) if not r["raises"]]
    except Unsupported as ex:
        raise AnalysisError(f"{cls}.__init__: {ex}")
    if not res:
        raise AnalysisError(f"{cls}.__init__: no non-raising path for generic arguments")
    bad = []
    for p in params:
        for r in res:
            sets = [e for e in r["events"] if e["kind"] == "obj_setattr" and e.get("obj") is o and e["attr"] == p]
            held = sets[-1]["value"] if sets else None
            und = p == "underlier"
            if und:
                regs = [e for e in r["events"] if e["kind"] == "call" and e["callee"].endswith("register_underlier")]
                if not (regs and any(x is kw["underlier"] for x in list(regs[-1]["args"]) + list(regs[-1]["kwargs"].values()))):
                    bad.append((p, "not registered as the underlier"))
                continue
            if not sets:
                continue  # not stored under its own name (a parameter that is consumed, e.g. passed to super().__init__): nothing to compare
            if held is not kw[p] and held != kw[p]:
                bad.append((p, str(held)[:60]))
    return sorted(set(bad)), params


def ctor_rule(ctx, run, rule, classes, only, why):
    """one obligation per class: the constructor parameters named in `only` (None = all) end up in the attribute of the same name"""
    from .report import Finding
    prog = ctx.prog
    for cls in classes:
        bad, params = ctor_mismatches(ctx, cls)
        sel = [(p, h) for p, h in bad if only is None or p in only]
        covered = [p for p in params if only is None or p in only]
        short = cls.rsplit(".", 1)[-1]
        run.oblige(rule, f"{short}.__init__ stores {', '.join(covered)}", not sel, "; ".join(f"self.{p} holds {h}" for p, h in sel))
        if sel:
            ci = prog.classes[cls]
            run.fail(Finding(rule, cls + ".__init__", "; ".join(f"self.{p} holds {h}" for p, h in sel), why, file=str(prog.modules[ci.module].path), line=ci.node.lineno))


def rebinding_rule(ctx, run, rule, prefixes, minimum):
    """`_set_attr_and_docstring(Cls, "name", Base.method)` / `_set_docstring(...)` (the library's way of giving inherited methods their own
    documentation) re-binds the class attribute: every such statement in the given packages binds a method under ITS OWN name - 78 of 78 on
    the pinned tree; a copy-paste slip (`"max_log_moneyness", OptionMixin.log_moneyness`) silently replaces a method of that class only."""
    import ast
    from .report import Finding
    prog = ctx.prog
    n = 0
    for mod in prog.modules.values():
        if not mod.name.startswith(tuple(prefixes)):
            continue
        for st in mod.tree.body:
            if not (isinstance(st, ast.Expr) and isinstance(st.value, ast.Call) and isinstance(st.value.func, ast.Name) and st.value.func.id in ("_set_attr_and_docstring", "_set_docstring", "setattr")):
                continue
            a = prog.rebinding_args(st.value) if st.value.func.id != "setattr" else (list(st.value.args) if len(st.value.args) == 3 else None)
            if a is None or not isinstance(a[1], ast.Constant) or not isinstance(a[1].value, str):
                raise AnalysisError(f"{mod.name}:{st.lineno}: re-binding statement not of the form (Cls, \"name\", Base.method)")
            n += 1
            name, target = a[1].value, ast.unparse(a[2])
            ok = target.rsplit(".", 1)[-1] == name
            if st.value.func.id == "_set_docstring":
                ok = True  # documentation only: the attribute is untouched
            run.oblige(rule, f"{mod.name.rsplit('.', 1)[-1]}: {ast.unparse(a[0])}.{name} re-bound to the method of the same name", ok, target)
            if not ok:
                run.fail(Finding(rule, f"{mod.name}.{ast.unparse(a[0])}", f"{ast.unparse(a[0])}.{name} is bound to {target}", "the class answers this name with another method of its base class",
                                 file=str(mod.path), line=st.lineno))
    run.require(rule, minimum)
    if n < minimum:
        raise AnalysisError(f"{rule}: only {n} re-binding statements found in {prefixes}")


RENAMING_IMPORTS = {("math", "pi", "kPI"): "numeric constant"}


def exports_rule(ctx, run, rule, prefixes):
    """the names a user imports are the objects of that name: in the given packages no `from x import A as B` renames a class or function
    (confirmed exception table RENAMING_IMPORTS) and no module-level `B = A` aliases one; every `from .x import A` in an __init__ resolves to a
    definition called A (a re-export that resolves to another definition gives the user a different criterion / module / instrument)"""
    import ast
    from .report import Finding
    prog = ctx.prog
    n = 0
    for mod in prog.modules.values():
        if not mod.name.startswith(tuple(prefixes)):
            continue
        bad = []
        for st in mod.tree.body:
            if isinstance(st, ast.ImportFrom):
                for a in st.names:
                    n += 1
                    if a.asname and a.asname != a.name and (st.module or "", a.name, a.asname) not in RENAMING_IMPORTS:
                        bad.append((st.lineno, f"from {st.module} import {a.name} as {a.asname}"))
                    if mod.path.name == "__init__.py" and (st.level or 0) > 0 and a.name != "*":
                        q = prog.resolve_name(mod.name, a.asname or a.name)
                        if q is not None and (q in prog.classes or q in prog.functions) and q.rsplit(".", 1)[-1] != a.name:
                            bad.append((st.lineno, f"{a.name} resolves to {q}"))
            if isinstance(st, ast.Assign) and len(st.targets) == 1 and isinstance(st.targets[0], ast.Name) and isinstance(st.value, (ast.Name, ast.Attribute)):
                q = prog.resolve_name(mod.name, ast.unparse(st.value))
                if q is not None and (q in prog.classes or q in prog.functions):
                    bad.append((st.lineno, f"{st.targets[0].id} = {ast.unparse(st.value)} aliases {q}"))
        run.oblige(rule, f"{mod.name}: imported and exported names are the definitions of that name", not bad, "; ".join(b for _, b in bad))
        for ln, b in bad:
            run.fail(Finding(rule, mod.name, b, "a public name is bound to a definition of another name: users importing it get a different object than documented", file=str(mod.path), line=ln))
    if n < 20:
        raise AnalysisError(f"{rule}: only {n} imports found in {prefixes}")
