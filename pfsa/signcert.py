"""Sign certificates for inequalities between closed-form terms (C09.R4, C19).

An inequality f >= 0 on a region is certified by one of
  * positivity by structure: f is built from positive symbols, Phi(.) and phi(.) (both positive), exp, by +, *, / and powers
    (sympy's assumption system does the bookkeeping once Phi/phi are declared positive);
  * monotone + boundary: d f / d x has a certified sign on the region and f vanishes (or has a certified sign) at the boundary
    point / limit the region is bounded by.
No numeric evaluation; identities used on the way (e.g. M phi(a) = S phi(b)) are themselves decided by simplification of the
erf/exp forms."""
import sympy as sp

from .algebra import N, n, ncdf, npdf


class Ncdf(sp.Function):
    """standard normal distribution function: values in (0, 1), derivative phi"""
    is_real = True
    is_positive = True

    def fdiff(self, argindex=1):
        return Npdf(self.args[0])


class Npdf(sp.Function):
    """standard normal density: positive, derivative -x phi(x)"""
    is_real = True
    is_positive = True

    def fdiff(self, argindex=1):
        return -self.args[0] * Npdf(self.args[0])


def lift(e):
    """uninterpreted ncdf/npdf -> the calculus-aware versions; 1 - Phi(x) -> Phi(-x)"""
    e = e.replace(ncdf, Ncdf).replace(npdf, Npdf)
    w = sp.Wild("w")
    return e.replace(1 - Ncdf(w), Ncdf(-w))


def lower(e):
    """back to closed erf/exp form (for identities)"""
    return e.replace(Ncdf, N).replace(Npdf, n).replace(ncdf, N).replace(npdf, n)


def positive(e):
    """True iff e is certified positive by structure (None/False otherwise)"""
    e = lift(e)
    if e.is_positive:
        return True
    e2 = sp.factor_terms(sp.together(e))
    return bool(e2.is_positive)


def negative(e):
    return positive(-e)


def same(a, b):
    return sp.simplify(sp.expand_log(lower(a) - lower(b), force=True)) == 0
