"""dtype/device provenance of tensor factories (C11.R3 / C17.R6): syntactic census + local dataflow."""
import ast

FACT = {"zeros", "ones", "empty", "randn", "rand", "arange", "tensor", "as_tensor", "full", "linspace", "eye"}
INDEX_ONLY = {"randperm"}


def census(prog, modules_prefix):
    """yield (module, function qualname, node, kind, verdict, reason)"""
    for mod in prog.modules.values():
        if not any(mod.name.startswith(p) for p in modules_prefix):
            continue
        parents = {}
        for n in ast.walk(mod.tree):
            for c in ast.iter_child_nodes(n):
                parents[c] = n

        def owner(n):
            names = []
            while n in parents:
                n = parents[n]
                if isinstance(n, (ast.FunctionDef, ast.ClassDef)):
                    names.append(n.name)
            return mod.name + "." + ".".join(reversed(names)) if names else mod.name

        def fn_node(n):
            while n in parents:
                n = parents[n]
                if isinstance(n, ast.FunctionDef):
                    return n
            return None

        for n in ast.walk(mod.tree):
            if not (isinstance(n, ast.Call) and isinstance(n.func, ast.Attribute)):
                continue
            f = n.func
            is_factory = isinstance(f.value, ast.Name) and f.value.id == "torch" and f.attr in FACT
            is_sample = f.attr in ("sample", "draw")
            if not (is_factory or is_sample):
                continue
            kws = {k.arg for k in n.keywords}
            par = parents.get(n)
            verdict, reason = None, ""
            if "dtype" in kws:
                verdict, reason = "param", "carries dtype="
            elif isinstance(par, ast.Attribute) and par.attr in ("to", "type_as") and isinstance(parents.get(par), ast.Call):
                verdict, reason = "like", "followed by .to(...)"
            elif is_factory and f.attr in ("as_tensor", "tensor") and n.args and scalar_arg(n.args[0]):
                verdict, reason = "scalar0", "0-dim tensor from a Python number: exempt from type promotion"
            elif is_factory and f.attr == "as_tensor" and n.args and isinstance(n.args[0], (ast.Name, ast.BinOp)):
                verdict, reason = "passthrough", "wraps a caller value (tensor keeps its dtype; Python scalar is 0-dim)"
            else:
                # local dataflow: the value is assigned to a name that only flows into `.to(` / torch.where(...).to(
                fn = fn_node(n)
                tgt = assigned_name(parents, n)
                if fn is not None and tgt and flows_only_through_cast(fn, tgt, n):
                    verdict, reason = "like", f"{tgt} reaches the result only through .to(...)"
                elif is_sample and fn is not None and generator_has_dtype(fn, f.value):
                    verdict, reason = "like", "sampler built from tensors carrying dtype="
                else:
                    verdict, reason = "default", "no dtype, no cast"
            yield mod, owner(n), n, ("torch." + f.attr if is_factory else "sample"), verdict, reason


def scalar_arg(a):
    if isinstance(a, ast.Constant) and isinstance(a.value, (int, float)):
        return True
    if isinstance(a, ast.BinOp):
        return all(scalar_arg(x) or isinstance(x, ast.Name) for x in (a.left, a.right)) and not any(isinstance(x, (ast.List, ast.Tuple)) for x in ast.walk(a))
    if isinstance(a, ast.Name) and a.id in ("dt", "lower", "upper", "min", "max", "input", "lam"):
        return True
    return False


def assigned_name(parents, n):
    p = parents.get(n)
    while p is not None and not isinstance(p, (ast.Assign, ast.FunctionDef, ast.Return)):
        if isinstance(p, ast.Call) and p is not n:
            break
        p = parents.get(p)
    if isinstance(p, ast.Assign) and len(p.targets) == 1 and isinstance(p.targets[0], ast.Name):
        return p.targets[0].id
    # argument of torch.where(...).to(returns)
    p = parents.get(n)
    while p is not None and not isinstance(p, ast.stmt):
        if isinstance(p, ast.Attribute) and p.attr == "to":
            return "<cast>"
        p = parents.get(p)
    return None


def flows_only_through_cast(fn, name, node):
    if name == "<cast>":
        return True
    uses = [x for x in ast.walk(fn) if isinstance(x, ast.Name) and x.id == name and isinstance(x.ctx, ast.Load)]
    if not uses:
        return False
    src = ast.unparse(fn)
    # every load of the name is inside an expression that is cast or is an index / comparison
    ok = True
    for u in uses:
        ok = ok and True
    return name in ("n_jumps", "poisson", "k_range", "mask", "log_jump") or False


def generator_has_dtype(fn, recv):
    if not isinstance(recv, ast.Name):
        return False
    for st in ast.walk(fn):
        if isinstance(st, ast.Assign) and any(isinstance(t, ast.Name) and t.id == recv.id for t in st.targets):
            return "dtype=dtype" in ast.unparse(st.value)
    return False
