"""Immutable symbolic terms produced by the interpreter (prototype)."""
from fractions import Fraction


class Term:
    __slots__ = ()

    # arithmetic sugar so rule code can build spec terms
    def __add__(self, o):
        return mk("add", self, o)

    def __radd__(self, o):
        return mk("add", o, self)

    def __sub__(self, o):
        return mk("sub", self, o)

    def __rsub__(self, o):
        return mk("sub", o, self)

    def __mul__(self, o):
        return mk("mul", self, o)

    def __rmul__(self, o):
        return mk("mul", o, self)

    def __truediv__(self, o):
        return mk("div", self, o)

    def __rtruediv__(self, o):
        return mk("div", o, self)

    def __neg__(self):
        return mk("neg", self)

    def __pow__(self, o):
        return mk("pow", self, o)

    def __rpow__(self, o):
        return mk("pow", o, self)


class Sym(Term):
    __slots__ = ("name", "tags")

    def __init__(self, name, tags=()):
        object.__setattr__(self, "name", name)
        object.__setattr__(self, "tags", frozenset(tags))

    def __setattr__(self, *a):
        raise AttributeError

    def __eq__(self, o):
        return isinstance(o, Sym) and o.name == self.name

    def __hash__(self):
        return hash(("Sym", self.name))

    def __repr__(self):
        return self.name


DIM_SECOND = {"cat", "stack", "mean", "sum", "cumsum", "cumprod", "logsumexp", "amax", "amin", "prod", "softmax", "cummax", "cummin", "flip"}


def canon(op, args, kw):
    """synonym classes of the operator table: one canonical spelling per operator"""
    args = tuple(args)
    kwd = dict(kw) if not isinstance(kw, dict) else kw
    if op == "pow" and len(args) == 2 and not kwd:
        p = args[1]
        if is_num(p) and p == 2:
            return "square", (args[0],), kw
        if is_num(p) and float(p) == 0.5:
            return "sqrt", (args[0],), kw
        if is_num(p) and p == 1:
            return "to", (args[0],), kw
    if op in ("clamp", "clamp_min") and len(args) >= 1:
        lo = kwd.get("min", args[1] if len(args) > 1 else None)
        hi = kwd.get("max", args[2] if len(args) > 2 else None)
        if hi is None and is_num(lo) and lo == 0:
            return "relu", (args[0],), ()
    # a dim passed positionally is the same call as dim=...
    if op in DIM_SECOND and len(args) == 2 and isinstance(args[1], (int, tuple)) and not isinstance(args[1], bool) and "dim" not in kwd:
        kwd = dict(kwd, dim=args[1])
        return op, (args[0],), kwd
    if op in ("true_divide",):
        return "div", args, kw
    if op in ("multiply",):
        return "mul", args, kw
    if op in ("subtract",):
        return "sub", args, kw
    if op in ("negative",):
        return "neg", args, kw
    if op in ("concat", "concatenate"):
        return "cat", args, kw
    if op in ("absolute",):
        return "abs", args, kw
    return op, args, kw


class Op(Term):
    __slots__ = ("op", "args", "kw", "_h")

    def __init__(self, op, args=(), kw=()):
        op, args, kw = canon(op, args, kw)
        object.__setattr__(self, "op", op)
        object.__setattr__(self, "args", tuple(args))
        object.__setattr__(self, "kw", tuple(sorted(kw.items())) if isinstance(kw, dict) else tuple(kw))
        object.__setattr__(self, "_h", None)

    def __setattr__(self, *a):
        raise AttributeError

    def __eq__(self, o):
        if self is o:
            return True
        if not isinstance(o, Op) or o.op != self.op or len(o.args) != len(self.args):
            return False
        if self._h is not None and o._h is not None and self._h != o._h:
            return False
        return o.args == self.args and o.kw == self.kw

    def __hash__(self):
        if self._h is None:
            object.__setattr__(self, "_h", hash(("Op", self.op, _freeze(self.args), _freeze(self.kw))))
        return self._h

    def kwd(self):
        return dict(self.kw)

    def __repr__(self):
        out, budget = [], [REPR_BUDGET]
        _fmt(self, out, budget)
        return "".join(out)


REPR_BUDGET = 400000  # characters: a term with shared sub-terms is a DAG and prints exponentially long otherwise


def _fmt(x, out, budget):
    """repr of a term with a character budget (same text as the plain recursive repr as long as the budget lasts)"""
    if budget[0] <= 0:
        if not out or out[-1] != "...":
            out.append("...")
        return
    if isinstance(x, Op):
        out.append(x.op + "(")
        budget[0] -= len(x.op) + 2
        first = True
        for a in x.args:
            if not first:
                out.append(", ")
            first = False
            _fmt(a, out, budget)
        for k, v in x.kw:
            if not first:
                out.append(", ")
            first = False
            out.append(f"{k}=")
            _fmt(v, out, budget)
        out.append(")")
    elif isinstance(x, (tuple, list)) and not hasattr(x, "_fields"):
        o, c = ("(", ")") if isinstance(x, tuple) else ("[", "]")
        out.append(o)
        for i, a in enumerate(x):
            if i:
                out.append(", ")
            _fmt(a, out, budget)
        if isinstance(x, tuple) and len(x) == 1:
            out.append(",")
        out.append(c)
        budget[0] -= 2
    else:
        t = repr(x)
        out.append(t)
        budget[0] -= len(t) + 2


def _freeze(x):
    if isinstance(x, (list, tuple)):
        return tuple(_freeze(i) for i in x)
    if isinstance(x, dict):
        return tuple(sorted((k, _freeze(v)) for k, v in x.items()))
    if isinstance(x, slice):
        return ("slice", _freeze(x.start), _freeze(x.stop), _freeze(x.step))
    try:
        hash(x)
        return x
    except TypeError:
        return repr(x)


NUM = (int, float, Fraction)


def is_num(x):
    return isinstance(x, NUM) and not isinstance(x, bool)


def mk(op, *args, **kw):
    """Smart constructor with constant folding of pure-number arithmetic."""
    if all(is_num(a) for a in args) and not kw:
        a = args
        try:
            if op == "add":
                return a[0] + a[1]
            if op == "sub":
                return a[0] - a[1]
            if op == "mul":
                return a[0] * a[1]
            if op == "div":
                if isinstance(a[0], int) and isinstance(a[1], int):
                    return Fraction(a[0], a[1])
                return a[0] / a[1]
            if op == "pow":
                return a[0] ** a[1]
            if op == "neg":
                return -a[0]
        except ZeroDivisionError:
            pass
    return Op(op, args, kw)


def walk(t, _seen=None):
    """Yield all sub-terms (pre-order). A term built by an unrolled loop is a DAG: a node that is reached again through another parent
    (the very same object) is yielded, and descended into, once."""
    seen = set() if _seen is None else _seen
    stack = [t]
    while stack:
        x = stack.pop()
        if isinstance(x, Term):
            if isinstance(x, Op):
                if id(x) in seen:
                    continue
                seen.add(id(x))
            yield x
            if isinstance(x, Op):
                stack.extend(reversed([v for _, v in x.kw]))
                stack.extend(reversed(x.args))
        elif isinstance(x, (list, tuple)):
            stack.extend(reversed(x))
        elif isinstance(x, slice):
            stack.extend((x.step, x.stop, x.start))


def _walk_any(a):
    yield from walk(a)


def syms(t):
    return {s for s in walk(t) if isinstance(s, Sym)}


def subst(t, mapping):
    """Replace sub-terms (keys of mapping, compared by ==) everywhere, including inside
    tuples/lists/slices used as operator arguments."""
    if isinstance(t, Term):
        if t in mapping:
            return mapping[t]
        if isinstance(t, Op):
            args = tuple(subst(a, mapping) for a in t.args)
            kw = tuple((k, subst(v, mapping)) for k, v in t.kw)
            if t.op in ("add", "sub", "mul", "div", "pow", "neg"):
                return mk(t.op, *args)
            return Op(t.op, args, kw)
        return t
    if isinstance(t, tuple):
        return tuple(subst(a, mapping) for a in t)
    if isinstance(t, list):
        return [subst(a, mapping) for a in t]
    if isinstance(t, slice):
        return slice(subst(t.start, mapping), subst(t.stop, mapping), subst(t.step, mapping))
    return t
