"""Extended-real abstract evaluation of Terms at boundary cases (prototype).

Value = AV(kind, sign, expr):
  kind: 'zero' | 'fin' | 'inf' | 'nan' | 'bool'
  sign: +1 | -1 | None (unknown, may be zero)     (for 'zero': 0)
  expr: exact sympy value for fin/zero values when known (else None)
"""
import sympy as sp

from .term import Op, Sym, Term, is_num


class AV:
    __slots__ = ("kind", "sign", "expr", "why")

    def __init__(self, kind, sign=None, expr=None, why=None):
        self.kind, self.sign, self.expr, self.why = kind, sign, expr, why

    def __repr__(self):
        s = {1: "+", -1: "-", 0: "0", None: "?"}[self.sign]
        if self.kind == "nan":
            return f"NaN<{self.why}>"
        if self.kind == "bool":
            return f"bool({self.expr})"
        return f"{self.kind}{s}" + (f"[{self.expr}]" if self.expr is not None and self.kind != "inf" else "")


def zero():
    return AV("zero", 0, sp.Integer(0))


def fin(sign, expr=None):
    return AV("fin", sign, expr)


def inf(sign):
    return AV("inf", sign)


def nan(why):
    return AV("nan", None, None, why)


def const(x):
    x = sp.nsimplify(x)
    if x == 0:
        return zero()
    return fin(1 if x > 0 else -1, x)


def decide_sign(expr):
    """sign of an exact sympy value built from sign-assumed symbols; exp(x) of a signed symbol is compared with 1
    through the substitution x = +-log(1+q), q>0"""
    e = sp.simplify(expr)
    if e == 0:
        return 0
    if e.is_positive:
        return 1
    if e.is_negative:
        return -1
    rep = {}
    for x in e.free_symbols:
        if e.has(sp.exp) and (x.is_positive or x.is_negative):
            q = sp.Symbol("q_" + x.name, positive=True)
            rep[x] = sp.log(1 + q) if x.is_positive else -sp.log(1 + q)
    if rep:
        e2 = sp.factor(sp.simplify(e.subs(rep)))
        if e2 == 0:
            return 0
        if e2.is_positive:
            return 1
        if e2.is_negative:
            return -1
    return None


def smul(a, b):
    if a is None or b is None:
        return None
    return a * b


class ExtReal:
    def __init__(self, case):
        self.case = case  # sym name -> AV
        self.nan_sources = []

    def ev(self, t):
        if isinstance(t, bool):
            return AV("bool", None, t)
        if is_num(t):
            return const(t)
        if isinstance(t, Sym):
            if t.name in self.case:
                return self.case[t.name]
            raise KeyError(t.name)
        if not isinstance(t, Op):
            raise TypeError(repr(t))
        f = getattr(self, "e_" + t.op, None)
        if f is None:
            raise NotImplementedError(t.op)
        r = f(t, *t.args)
        if r.kind == "nan" and r.why is None:
            r.why = repr(t)[:80]
        return r

    # helpers
    def nanify(self, t, why):
        self.nan_sources.append((why, t))
        return nan(why + ": " + repr(t)[:70])

    def e_to(self, t, x, *r):
        return self.ev(x)

    e_as_tensor = e_unsqueeze = e_squeeze = e_expand = e_to

    def e_neg(self, t, x):
        a = self.ev(x)
        if a.kind == "nan":
            return a
        return AV(a.kind, None if a.sign is None else -a.sign, None if a.expr is None else -a.expr)

    def e_add(self, t, x, y, sub=False):
        a, b = self.ev(x), self.ev(y)
        if sub:
            b = self.e_neg(None, y) if False else AV(b.kind, None if b.sign is None else -b.sign, None if b.expr is None else -b.expr, b.why)
        if a.kind == "nan":
            return a
        if b.kind == "nan":
            return b
        if a.kind == "inf" and b.kind == "inf":
            if a.sign == b.sign and a.sign is not None:
                return inf(a.sign)
            return self.nanify(t, "inf - inf")
        if a.kind == "inf":
            return a
        if b.kind == "inf":
            return b
        expr = None if a.expr is None or b.expr is None else a.expr + b.expr
        if a.kind == "zero":
            return AV(b.kind, b.sign, expr if expr is not None else b.expr)
        if b.kind == "zero":
            return AV(a.kind, a.sign, expr if expr is not None else a.expr)
        sign = a.sign if a.sign == b.sign else None
        if expr is not None and sign is None:
            sg = decide_sign(expr)
            if sg == 0:
                return zero()
            sign = sg
        return fin(sign, expr)

    def e_sub(self, t, x, y):
        rel = self.case.get(("sub", getattr(x, "name", None), getattr(y, "name", None)))
        if rel is not None:
            return rel
        return self.e_add(t, x, y, sub=True)

    def e_mul(self, t, x, y):
        a, b = self.ev(x), self.ev(y)
        if a.kind == "nan":
            return a
        if b.kind == "nan":
            return b
        kinds = {a.kind, b.kind}
        if "inf" in kinds:
            o = b if a.kind == "inf" else a
            i = a if a.kind == "inf" else b
            if o.kind == "zero":
                return self.nanify(t, "0 * inf")
            if o.kind == "inf":
                return inf(None if None in (a.sign, b.sign) else a.sign * b.sign)
            if o.sign is None:
                return self.nanify(t, "inf * (possibly 0)")
            return inf(None if i.sign is None else i.sign * o.sign)
        if "zero" in kinds:
            return zero()
        sign = None if None in (a.sign, b.sign) else a.sign * b.sign
        return fin(sign, smul(a.expr, b.expr))

    def e_div(self, t, x, y):
        a, b = self.ev(x), self.ev(y)
        if a.kind == "nan":
            return a
        if b.kind == "nan":
            return b
        if b.kind == "zero":
            if a.kind == "zero":
                return self.nanify(t, "0 / 0")
            if a.kind == "inf":
                return inf(a.sign)
            if a.sign is None:
                return self.nanify(t, "(possibly 0) / 0")
            return inf(a.sign)  # denominator is +0 (products of non-negative factors)
        if b.kind == "inf":
            if a.kind == "inf":
                return self.nanify(t, "inf / inf")
            return zero()
        if a.kind == "zero":
            return zero()
        if a.kind == "inf":
            return inf(None if None in (a.sign, b.sign) else a.sign * b.sign)
        if b.sign is None:
            return self.nanify(t, "division by a possibly-zero value")
        sign = None if a.sign is None else a.sign * b.sign
        return fin(sign, None if a.expr is None or b.expr is None else a.expr / b.expr)

    def e_sqrt(self, t, x):
        a = self.ev(x)
        if a.kind in ("nan", "zero"):
            return a
        if a.sign == -1:
            return self.nanify(t, "sqrt of negative")
        if a.kind == "inf":
            return a
        return fin(1 if a.sign == 1 else None, None if a.expr is None else sp.sqrt(a.expr))

    def e_square(self, t, x):
        a = self.ev(x)
        if a.kind in ("nan", "zero"):
            return a
        if a.kind == "inf":
            return inf(1)
        return fin(1 if a.sign in (1, -1) else None, None if a.expr is None else a.expr ** 2)

    def e_pow(self, t, x, p):
        if is_num(p) and p == 2:
            return self.e_square(t, x)
        if is_num(p) and float(p).is_integer() and p > 0:
            a = self.ev(x)
            if a.kind in ("nan", "zero"):
                return a
            sign = None if a.sign is None else (a.sign if int(p) % 2 else 1)
            return inf(sign) if a.kind == "inf" else fin(sign, None if a.expr is None else a.expr ** int(p))
        if is_num(p) and p > 0:
            # fractional power: real only for a non-negative base (torch returns NaN for a negative one)
            a = self.ev(x)
            if a.kind in ("nan", "zero"):
                return a
            if a.sign == -1:
                return self.nanify(t, "fractional power of a negative number")
            if a.sign is None:
                return self.nanify(t, "fractional power of a possibly negative number")
            return inf(1) if a.kind == "inf" else fin(1, None if a.expr is None else a.expr ** sp.nsimplify(p))
        raise NotImplementedError("pow")

    def e_exp(self, t, x):
        a = self.ev(x)
        if a.kind == "nan":
            return a
        if a.kind == "zero":
            return const(1)
        if a.kind == "inf":
            return inf(1) if a.sign == 1 else zero() if a.sign == -1 else self.nanify(t, "exp(±inf unknown sign)")
        return fin(1, None if a.expr is None else sp.exp(a.expr))

    def e_ncdf(self, t, x):
        a = self.ev(x)
        if a.kind == "nan":
            return a
        if a.kind == "inf":
            if a.sign == 1:
                return const(1)
            if a.sign == -1:
                return zero()
            return fin(None, None)
        if a.kind == "zero":
            return const(sp.Rational(1, 2))
        return fin(1, None)

    def e_npdf(self, t, x):
        a = self.ev(x)
        if a.kind == "nan":
            return a
        if a.kind == "inf":
            return zero()
        if a.kind == "zero":
            return fin(1, 1 / sp.sqrt(2 * sp.pi))
        return fin(1, None)

    def e_log_prob(self, t, d, x):
        """log density of Normal(0, 1) (the only distribution the helpers use)"""
        if not (isinstance(d, Op) and d.op == "dist" and d.args[0] == "Normal" and [sp.nsimplify(v) for v in d.args[1:3]] == [0, 1]):
            raise NotImplementedError("log_prob of a distribution other than Normal(0, 1)")
        a = self.ev(x)
        if a.kind == "nan":
            return a
        if a.kind == "inf":
            return inf(-1)
        if a.kind == "zero":
            return fin(-1, -sp.log(sp.sqrt(2 * sp.pi)))
        return fin(None, None if a.expr is None else -a.expr ** 2 / 2 - sp.log(sp.sqrt(2 * sp.pi)))

    def e_cdf(self, t, d, x):
        if not (isinstance(d, Op) and d.op == "dist" and d.args[0] == "Normal" and [sp.nsimplify(v) for v in d.args[1:3]] == [0, 1]):
            raise NotImplementedError("cdf of a distribution other than Normal(0, 1)")
        return self.e_ncdf(t, x)

    def e_clamp(self, t, x, *r):
        kw = t.kwd()
        lo = r[0] if len(r) > 0 and r[0] is not None else kw.get("min")
        hi = r[1] if len(r) > 1 and r[1] is not None else kw.get("max")
        a = self.ev(x)
        if a.kind == "nan":
            return a
        for b_ in (lo, hi):  # a NaN bound makes the result NaN
            if isinstance(b_, (Op, Sym)):
                bv = self.ev(b_)
                if bv.kind == "nan":
                    return bv
        if a.kind == "inf":
            bound = hi if a.sign == 1 else lo
            if bound is None:
                return a
            return self.ev(bound)  # an infinite value is cut to the finite bound
        if a.kind == "zero" and (lo is None or (is_num(lo) and lo <= 0)) and (hi is None or (is_num(hi) and hi >= 0)):
            return a
        if lo is not None and is_num(lo) and lo == 0 and hi is None:
            return fin(1 if a.sign == 1 else None, a.expr if a.sign == 1 else None)
        return fin(a.sign if (lo is None or not is_num(lo) or lo <= 0) and (hi is None or not is_num(hi) or hi >= 0) else None, None)

    def _extremum(self, t, x, y, larger):
        """torch.maximum / minimum: a NaN operand gives NaN; otherwise the operand the sign of x - y selects"""
        a, b = self.ev(x), self.ev(y)
        if a.kind == "nan":
            return a
        if b.kind == "nan":
            return b
        d = self.e_add(t, x, y, sub=True)
        if d.kind == "zero":
            return a
        if d.kind != "nan" and d.sign is not None:
            return a if (d.sign > 0) == larger else b
        if a.kind == "inf" and b.kind == "inf" and a.sign == b.sign:
            return a
        if a.kind == b.kind and a.sign == b.sign:
            return AV(a.kind, a.sign, None)
        if "inf" in (a.kind, b.kind):
            i_, o_ = (a, b) if a.kind == "inf" else (b, a)
            if o_.kind != "inf":
                return i_ if (i_.sign > 0) == larger else o_
            return a if (a.sign > 0) == larger else b
        return fin(None, None)

    def e_maximum(self, t, x, y):
        return self._extremum(t, x, y, True)

    def e_minimum(self, t, x, y):
        return self._extremum(t, x, y, False)

    def e_zeros_like(self, t, x):
        return zero()

    def e_ones_like(self, t, x):
        return const(1)

    def e_full_like(self, t, x, v=None, **kw):
        v = kw.get("fill_value", v)
        return self.ev(v)

    # comparisons / logic
    def cmp(self, t, x, y, op):
        a, b = self.ev(x), self.ev(y)
        d = self.e_add(t, x, y, sub=True) if a.kind != "nan" and b.kind != "nan" else nan("cmp")
        if d.kind == "nan":
            # NaN compares False except for !=
            return AV("bool", None, op == "ne")
        if d.kind == "zero":
            s = 0
        elif d.sign is None:
            return AV("bool", None, None)
        else:
            s = d.sign
        res = {"lt": s < 0, "le": s <= 0, "gt": s > 0, "ge": s >= 0, "eq": s == 0, "ne": s != 0}[op]
        return AV("bool", None, res)

    def e_lt(self, t, x, y):
        return self.cmp(t, x, y, "lt")

    def e_le(self, t, x, y):
        return self.cmp(t, x, y, "le")

    def e_gt(self, t, x, y):
        return self.cmp(t, x, y, "gt")

    def e_ge(self, t, x, y):
        return self.cmp(t, x, y, "ge")

    def e_eq(self, t, x, y):
        return self.cmp(t, x, y, "eq")

    def e_ne(self, t, x, y):
        return self.cmp(t, x, y, "ne")

    def e_logical_or(self, t, x, y):
        a, b = self.ev(x).expr, self.ev(y).expr
        if a is True or b is True:
            return AV("bool", None, True)
        if a is False and b is False:
            return AV("bool", None, False)
        return AV("bool", None, None)

    def e_logical_and(self, t, x, y):
        a, b = self.ev(x).expr, self.ev(y).expr
        if a is False or b is False:
            return AV("bool", None, False)
        if a is True and b is True:
            return AV("bool", None, True)
        return AV("bool", None, None)

    def e_where(self, t, c, x, y):
        cv = self.ev(c).expr
        if cv is True:
            return self.ev(x)
        if cv is False:
            return self.ev(y)
        a, b = self.ev(x), self.ev(y)
        if a.kind == "nan":
            return a
        if b.kind == "nan":
            return b
        if a.kind == b.kind and a.sign == b.sign:
            return AV(a.kind, a.sign, a.expr if a.expr == b.expr else None)
        return fin(None, None) if "inf" not in (a.kind, b.kind) else inf(None)
