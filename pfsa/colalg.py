"""Column semantics of (N,T[,F]) feature tensors (prototype) for C03.R1 / C13.R4 / C12.R1.

col(term, j) -> sympy expression of the value in time column j (j may be a sympy expr).
Market series are sympy Functions of the column; prefix reductions are RED(kind, body(k), lo, hi).
"""
import sympy as sp

from .term import Op, Sym, Term, is_num

k_ = sp.Symbol("k", integer=True)
T = sp.Symbol("T", integer=True, positive=True)
class AxisError(ValueError):
    """a time-series operator is applied along an axis that is not the time axis"""


RMAX = sp.Function("RMAX")   # RMAX(body(k), lo, hi) = max_{lo<=k<=hi} body(k)
RMIN = sp.Function("RMIN")
RMEAN = sp.Function("RMEAN")
RSUM = sp.Function("RSUM")
IND = sp.Function("IND")     # indicator of a relational, as a number


class Col:
    def __init__(self, series=("spot", "variance", "volatility"), scalars=None, nsteps_terms=()):
        self.fn = {}
        self.scalars = scalars or {}
        self.nsteps_terms = nsteps_terms

    def series(self, name):
        return self.fn.setdefault(name, sp.Function(name.replace(".", "_")))

    def scalar(self, t):
        """value of a column-independent term"""
        if is_num(t):
            return sp.nsimplify(t)
        if isinstance(t, Sym):
            if "buffer" in t.tags:
                raise ValueError("series used as scalar")
            return self.scalars.setdefault(t.name, sp.Symbol(t.name.replace(".", "_").replace("#", "_"), **({"integer": True, "nonnegative": True} if "int" in t.tags else {"positive": True})))
        if isinstance(t, Op):
            if t.op == "getitem" and isinstance(t.args[0], Op) and t.args[0].op == "size":
                return T if t.args[1] == 1 else sp.Symbol("N", integer=True, positive=True)
            if t.op in ("add", "sub", "mul", "div"):
                a, b = self.scalar(t.args[0]), self.scalar(t.args[1])
                return {"add": a + b, "sub": a - b, "mul": a * b, "div": a / b}[t.op]
            if t.op == "mod":
                if is_num(t.args[0]) and t.args[0] < 0:
                    return self.scalar(t.args[1]) + sp.nsimplify(t.args[0])  # -T <= k < 0: k mod T = T + k
                return self.scalar(t.args[0])  # 0 <= i < T
            if t.op == "neg":
                return -self.scalar(t.args[0])
            if t.op in ("py_max", "py_min") and t.args:
                items = t.args[0] if len(t.args) == 1 and isinstance(t.args[0], (tuple, list)) else t.args
                vals = [self.scalar(x) for x in items]
                return (sp.Max if t.op == "py_max" else sp.Min)(*vals)
            if t.op in ("py_ceil", "py_floor", "py_round", "py_int") and t.args:
                # a Python-level count derived from other scalars (ceil(maturity / dt), ...): an uninterpreted function of its argument -
                # it is NOT the grid length T read from the buffer, so identities that need T leave a residual
                inner = self.scalar(t.args[0])
                return sp.Function(t.op[3:].upper(), integer=True)(inner)
        raise ValueError(f"not a scalar: {t!r}")

    def has_time(self, t):
        """does the term carry a time axis (as opposed to a single selected column)?"""
        if isinstance(t, Sym):
            return "buffer" in t.tags
        if isinstance(t, Op):
            if t.op in ("size", "numel", "attr_dtype", "attr_device", "attr_shape"):
                return False
            if t.op == "index":
                idx = t.args[1]
                last = idx[-1] if isinstance(idx, tuple) else idx
                if last is Ellipsis or isinstance(last, slice):
                    return self.has_time(t.args[0])
                return False
            if t.op in ("max", "min", "amax", "amin", "mean", "sum") and self._reduces_time(t):
                return False
            if t.op == "arange":
                return True
            return any(self.has_time(a) for a in t.args if isinstance(a, Term))
        return False

    def _reduces_time(self, t):
        kw = t.kwd()
        dim = kw.get("dim", t.args[1] if len(t.args) > 1 else None)
        if dim is None and len(t.args) == 1 and self._is_time_vector(t.args[0]):
            return True  # global reduction of a 1-D time grid (arange(n) * dt)
        return dim == -1

    def _is_time_vector(self, t):
        """a 1-D tensor built from arange only: no market series enters by value (sizes and cast templates do not count)"""
        has_arange = [False]

        def data_mentions_buffer(x):
            if isinstance(x, Sym):
                return "buffer" in x.tags
            if not isinstance(x, Op):
                return False
            if x.op in ("size", "numel", "attr_dtype", "attr_device", "attr_shape"):
                return False
            if x.op == "arange":
                has_arange[0] = True
            args = x.args[:1] if x.op == "to" else x.args
            return any(data_mentions_buffer(a) for a in args if isinstance(a, (Op, Sym)))

        return not data_mentions_buffer(t) and has_arange[0]

    def col(self, t, j):
        """value of term t at time column j (for terms without time axis j is ignored)"""
        if is_num(t):
            return sp.nsimplify(t)
        if isinstance(t, Sym):
            if "buffer" in t.tags:
                return self.series(t.name)(j)
            return self.scalar(t)
        op, a = t.op, t.args
        c = self.col
        if op in ("getitem", "mod", "py_int", "floordiv") and not self.has_time(t):
            return self.scalar(t)  # a count / index expression (n_steps - i % n_steps - 1): the same number in every column
        if op in ("unsqueeze", "squeeze", "expand", "expand_as", "to", "attr_values", "as_tensor", "clone", "contiguous", "broadcast_to"):
            return c(a[0], j)
        if op == "tensor":
            v = a[0]
            while isinstance(v, (list, tuple)) and len(v) == 1:
                v = v[0]
            return self.scalar(v) if not isinstance(v, Term) or not self.has_time(v) else c(v, j)
        if op == "arange":
            return j
        if op in ("zeros", "zeros_like", "new_zeros"):
            return sp.Integer(0)
        if op in ("ones", "ones_like", "new_ones"):
            return sp.Integer(1)
        if op == "index":
            idx = a[1]
            last = idx[-1] if isinstance(idx, tuple) else idx
            if last is Ellipsis or (isinstance(last, slice) and last == slice(None, None, None)):
                return c(a[0], j)
            if isinstance(last, list) and len(last) == 1:
                return c(a[0], self.scalar(last[0]))
            if isinstance(last, int):
                return c(a[0], T + last if last < 0 else sp.Integer(last))
            if isinstance(last, Term):
                return c(a[0], self.scalar(last))
            if isinstance(last, slice):
                start = 0 if last.start is None else self.scalar(last.start)
                win = ("window", start, None if last.stop is None else self.scalar(last.stop))
                # a window keeps the time axis: column j of the window is base column j+start
                self._last_window = win
                return c(a[0], j + start)
        if op in ("max", "min", "amax", "amin") and self._reduces_time(t):
            lo, hi = self.window_of(a[0])
            body = c(self.strip_window(a[0]), k_)
            slope = sp.diff(body, k_)
            if not slope.has(k_) and not body.atoms(sp.Function) and (slope.is_positive or slope.is_negative or slope == 0):
                # extreme of an affine sequence is attained at an end of the window
                up = (slope.is_positive or slope == 0) == (op in ("max", "amax"))
                return body.subs(k_, hi if up else lo)
            return (RMAX if op in ("max", "amax") else RMIN)(body, lo, hi)
        if op in ("mean", "sum") and self._reduces_time(t):
            lo, hi = self.window_of(a[0])
            return (RMEAN if op == "mean" else RSUM)(c(self.strip_window(a[0]), k_), lo, hi)
        if op in ("cummax", "cummin"):
            d_ = t.kwd().get("dim", a[1] if len(a) > 1 else None)
            if d_ not in (-1, 1):
                raise AxisError(f"{op} along axis {d_}: a running extreme must run along the time axis")
            body = c(a[0], k_)
            return (RMAX if op == "cummax" else RMIN)(body, sp.Integer(0), j)
        if op == "diff":
            return c(a[0], j + 1) - c(a[0], j)
        if op in ("add", "sub", "mul", "div"):
            x, y = c(a[0], j), c(a[1], j)
            return {"add": x + y, "sub": x - y, "mul": x * y, "div": x / y}[op]
        if op == "neg":
            return -c(a[0], j)
        if op == "log":
            return sp.log(c(a[0], j))
        if op == "exp":
            return sp.exp(c(a[0], j))
        if op == "square":
            return c(a[0], j) ** 2
        if op == "sqrt":
            return sp.sqrt(c(a[0], j))
        if op == "relu":
            return sp.Max(0, c(a[0], j))
        if op in ("ge", "le", "gt", "lt"):
            rel = {"ge": sp.Ge, "le": sp.Le, "gt": sp.Gt, "lt": sp.Lt}[op]
            return IND(rel(c(a[0], j), c(a[1], j), evaluate=False))
        if op in ("zeros_like",):
            return sp.Integer(0)
        if op in ("ones_like",):
            return sp.Integer(1)
        if op == "full_like":
            return self.scalar(a[1])
        if op == "clamp":
            x = c(a[0], j)
            kw = t.kwd()
            if kw.get("min") is not None:
                x = sp.Max(x, c(kw["min"], j))
            if kw.get("max") is not None:
                x = sp.Min(x, c(kw["max"], j))
            return x
        raise NotImplementedError(op)

    def window_of(self, t):
        """(lo, hi) columns of the base series visible through t's time axis"""
        if isinstance(t, Op) and t.op == "index":
            idx = t.args[1]
            last = idx[-1] if isinstance(idx, tuple) else idx
            if isinstance(last, slice) and last != slice(None, None, None):
                lo0, hi0 = self.window_of(t.args[0])
                start = 0 if last.start is None else self.scalar(last.start)
                stop = None if last.stop is None else self.scalar(last.stop)
                lo = lo0 + start
                hi = hi0 if stop is None else (lo0 + stop - 1 if not (stop.is_negative) else hi0 + stop)
                return lo, hi
            return self.window_of(t.args[0])
        if isinstance(t, Op) and t.op in ("log", "exp", "div", "mul", "add", "sub", "unsqueeze", "to", "square", "diff"):
            for a in t.args:
                if isinstance(a, Term) and self.has_time(a):
                    lo, hi = self.window_of(a)
                    if t.op == "diff":
                        hi = hi - 1
                    return lo, hi
        return sp.Integer(0), T - 1

    def strip_window(self, t):
        """remove slicing windows (their effect is in window_of)"""
        if isinstance(t, Op) and t.op == "index":
            idx = t.args[1]
            last = idx[-1] if isinstance(idx, tuple) else idx
            if isinstance(last, slice):
                return self.strip_window(t.args[0])
        if isinstance(t, Op):
            return Op(t.op, tuple(self.strip_window(a) if isinstance(a, Term) else a for a in t.args), t.kw)
        return t
