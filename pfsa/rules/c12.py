"""C12 - payoffs equal their contractual definitions and ordering.
R1 the payoff functionals against the definitions of the statement (column algebra); R2 each derivative class calls its
functional on its underlier's spot with its own call/strike; R3 clauses fold over payoff_fn() in registration order;
R5 index hazard floor(start/dt).
Added after the seeded-defect rounds: R6 a float strike / dt is compared with the prices unrounded; R7 payoff() keeps no memoised state; R3 the clause iterators may not filter or de-duplicate.
Third round: R9 call histories of the clause / underlier registries on every derivative class, R9x every history of at most 2 (thorough: 3) registry operations against a reference model.
Rounds 4-5: R2 also re-binding statements and exports of pfhedge.instruments.
Round 7: R3 the fold over the clauses is accepted as the loop (any number of clauses) or, failing that, as the exact nesting for three registered clauses (composed closures, reduce).
Round 9: R9 history 'amend' (a clause re-registered under the same name after the payoff was evaluated); the call histories are judged even when the rules on a symbolic clause list stop."""
import ast

import sympy as sp

from .. import entrypoints as E
from .. import world as W
from ..colalg import IND, RMAX, RMEAN, RMIN, Col, T, k_
from ..interp import Obj, SymList, Unsupported
from ..report import AnalysisError, Finding, single
from ..term import Op, Sym, walk

D = "pfhedge.instruments.derivative."
CLASSES = {
    D + "european.EuropeanOption": ("european_payoff", True),
    D + "lookback.LookbackOption": ("lookback_payoff", True),
    D + "european_binary.EuropeanBinaryOption": ("european_binary_payoff", True),
    D + "american_binary.AmericanBinaryOption": ("american_binary_payoff", True),
    D + "cliquet.EuropeanForwardStartOption": ("european_forward_start_payoff", False),
    D + "variance_swap.VarianceSwap": ("realized_variance", False),
}


def _shape_rule(run, prog, fi, value, env, case=""):
    """R4: a payoff of an (N, T) price tensor has shape (N)"""
    from ..shape import N as Nn, T as Tn, ShapeError, Unknown, shape_of

    env = {k: tuple({"N": Nn, "T": Tn}[d] for d in v) for k, v in env.items()}
    try:
        sh = shape_of(value, env)
        ok = len(sh) == 1 and sp.simplify(sh[0] - Nn) == 0
        msg = f"result shape {tuple(str(e) for e in sh)}"
    except ShapeError as ex:
        ok, msg = False, str(ex)
    except Unknown as ex:
        raise AnalysisError(f"{fi.qualname}: shape engine cannot model {ex}")
    name = fi.qualname.rsplit(".", 1)[-1] + (f"[{case}]" if case else "")
    run.oblige("C12.R4", name + ":shape", ok, msg)
    if not ok:
        run.fail(Finding("C12.R4", fi.qualname, f"{name}: {msg}", "a payoff of an (N, T) price tensor must have shape (N)", file=str(prog.modules[fi.module].path), line=fi.node.lineno, case=case))


def check(ctx, run):
    prog, interp = ctx.prog, ctx.interp
    run.require("C12.R4", 6)
    run.trusted += ["column semantics of [-1], max/min over the time axis, diff, mean (operator table)"]
    run.require("C12.R1", 10)
    run.require("C12.R2", 6)
    run.require("C12.R3", 3)
    S_ = W.tensor("S", "buffer")
    K = W.fl("K")
    C = Col()
    Sf = C.series("S")
    Ks = C.scalar(K)
    spec = {
        ("european_payoff", True): sp.Max(0, Sf(T - 1) - Ks), ("european_payoff", False): sp.Max(0, Ks - Sf(T - 1)),
        ("lookback_payoff", True): sp.Max(0, RMAX(Sf(k_), 0, T - 1) - Ks), ("lookback_payoff", False): sp.Max(0, Ks - RMIN(Sf(k_), 0, T - 1)),
        ("european_binary_payoff", True): IND(sp.Ge(Sf(T - 1), Ks, evaluate=False)), ("european_binary_payoff", False): IND(sp.Le(Sf(T - 1), Ks, evaluate=False)),
        ("american_binary_payoff", True): IND(sp.Ge(RMAX(Sf(k_), 0, T - 1), Ks, evaluate=False)),
        ("american_binary_payoff", False): IND(sp.Le(RMIN(Sf(k_), 0, T - 1), Ks, evaluate=False)),
    }
    for (fn, call), want in spec.items():
        fi = E.functional(ctx, fn)
        run.functions.add(fi.qualname)
        res = [r for r in interp.explore(fi, [], dict(input=S_, call=call, strike=K)) if not r["raises"]]
        if len(res) != 1:
            raise AnalysisError(f"{fn}: expected one path")
        try:
            got = C.col(res[0]["value"], sp.Symbol("unused"))
        except (NotImplementedError, ValueError) as ex:
            raise AnalysisError(f"{fn}: column algebra cannot model {ex}")
        ok = sp.simplify(got - want) == 0
        case = f"call={call}"
        _shape_rule(run, prog, fi, res[0]["value"], {"S": ("N", "T")}, case)
        run.oblige("C12.R1", f"{fn}[{case}]", ok, f"{got}", sample={"rule": "C12.R1", "function": fn, "case": case, "value": str(got), "definition": str(want)})
        if not ok:
            run.fail(Finding("C12.R1", fi.qualname, f"[{case}] {got} (definition {want})", "the payoff differs from its contractual definition", file=str(prog.modules[fi.module].path), line=fi.node.lineno, case=case))
    from .. import bsterms as _B
    _B.default_call_is_call(prog, interp, run, "C12.R1", list(E.PAYOFFS), extra={"input": S_})
    # forward start and realised variance
    fi = E.functional(ctx, "european_forward_start_payoff")
    i0 = W.integer("start")
    val = single(interp.explore(fi, [], dict(input=S_, strike=K, start_index=i0)))["value"]
    _shape_rule(run, prog, fi, val, {"S": ("N", "T")})
    got = C.col(val, sp.Symbol("unused"))
    want = sp.Max(0, Sf(T - 1) / Sf(C.scalar(i0)) - Ks)
    ok = sp.simplify(got - want) == 0
    run.oblige("C12.R1", "european_forward_start_payoff", ok, str(got))
    if not ok:
        run.fail(Finding("C12.R1", fi.qualname, f"{got} (definition {want})", "the payoff differs from its contractual definition", file=str(prog.modules[fi.module].path), line=fi.node.lineno))
    fi = E.functional(ctx, "realized_variance")
    dt = W.fl("dt")
    val = single(interp.explore(fi, [], dict(input=S_, dt=dt)))["value"]
    _shape_rule(run, prog, fi, val, {"S": ("N", "T")})
    got = C.col(val, sp.Symbol("unused"))
    want = RMEAN((sp.log(Sf(k_ + 1)) - sp.log(Sf(k_))) ** 2, 0, T - 2) / C.scalar(dt)
    ok = sp.simplify(got - want) == 0
    run.oblige("C12.R1", "realized_variance", ok, str(got))
    if not ok:
        run.fail(Finding("C12.R1", fi.qualname, f"{got} (definition {want})", "realised variance is not the annualised mean squared log-return", file=str(prog.modules[fi.module].path), line=fi.node.lineno))
    # ---- R2 wiring of the derivative classes
    for q, (fn, has_call) in CLASSES.items():
        if q not in prog.classes:
            raise AnalysisError(f"anchor vanished: {q}")
        pf = prog.lookup_method(q, "payoff_fn")
        d = Obj(q, "deriv")
        d.attrs["strike"] = K
        if has_call:
            d.attrs["call"] = Sym("deriv.call", ("bool",))
        res = [r for r in interp.explore(pf, [], {}, self_obj=d) if not r["raises"]]
        calls = [e for r in res for e in r["events"] if e["kind"] == "call" and e["callee"] == E.F + fn]
        problems = []
        if not calls:
            problems.append(f"does not call {fn}")
        for e in calls:
            a = dict(e["kwargs"])
            params = [x.arg for x in prog.functions[E.F + fn].node.args.args]
            for pn, v in zip(params, e["args"]):
                a[pn] = v
            if str(a.get("input")) != "deriv.ul.spot":
                problems.append(f"input is {a.get('input')}")
            if fn != "realized_variance" and a.get("strike") != K:
                problems.append(f"strike is {a.get('strike')}")
            if has_call and a.get("call") != Sym("deriv.call", ("bool",)):
                problems.append(f"call is {a.get('call')}, expected self.call")
            if fn == "realized_variance" and str(a.get("dt")) != "deriv.ul.dt":
                problems.append(f"dt is {a.get('dt')}")
        if fn == "realized_variance":
            v = res[0]["value"]
            if not (isinstance(v, Op) and v.op == "sub" and v.args[1] == K):
                problems.append("payoff is not realised variance minus strike")
        if fn == "european_forward_start_payoff":
            st = calls[0]["kwargs"].get("start_index") if calls else None
            from .c13 import strip_guard
            if not (isinstance(st, Op) and st.op == "py_floor" and str(strip_guard(st.args[0])) == "div(deriv.start, deriv.ul.dt)"):
                problems.append(f"start_index is {st}, expected floor(start/dt)")
            if calls and calls[0]["kwargs"].get("end_index", -1) != -1:
                problems.append("end_index overridden")
        ok = not problems
        run.oblige("C12.R2", q.rsplit(".", 1)[-1], ok, "; ".join(problems) or f"{fn}(ul.spot, own strike/call)")
        if not ok:
            run.fail(Finding("C12.R2", pf.qualname, "; ".join(problems), "the derivative does not evaluate its payoff functional on its own underlier, strike and call flag", file=str(prog.modules[pf.module].path), line=pf.node.lineno))
    # ---- R3 clause fold
    pay = prog.method(D + "base.BaseDerivative.payoff")
    if pay is None:
        raise AnalysisError("anchor vanished: BaseDerivative.payoff")
    d = W.option()
    try:
        r = [r for r in interp.explore(pay, [], {}, self_obj=d) if not r["raises"]][0]
        v = r["value"]
    except Unsupported:
        v = None   # a fold written with function composition has no summary for an unknown number of clauses: judged for three below
    ok = isinstance(v, Op) and v.op == "loop" and v.args[1] == ("symlist", "deriv.clauses") and isinstance(v.args[2], Op) and v.args[2].op == "abstract" and "payoff_fn" in str(v.args[2].args[0])
    upd = v.args[4] if ok else None
    ok = ok and isinstance(upd, Op) and upd.op == "call" and upd.args[0] == v.args[0] and len(upd.args) == 3 and upd.args[2] == v.args[3]
    if not ok:
        # not the loop `for clause in clauses(): payoff = clause(self, payoff)` (which settles any number of clauses): the same statement for a
        # derivative with three registered clauses, whatever way the fold is written (reduce, composed closures, recursion)
        d3 = W.option()
        c3 = [Sym(f"deriv.clause{k_}", ("callable",)) for k_ in (1, 2, 3)]
        d3.attrs["__clauses__"] = list(c3)
        try:
            r3 = [r_ for r_ in interp.explore(pay, [], {}, self_obj=d3) if not r_["raises"]]
        except Unsupported as ex:
            raise AnalysisError(f"BaseDerivative.payoff with three clauses: {ex}")
        if not r3:
            raise AnalysisError("BaseDerivative.payoff with three clauses: no non-raising path")
        ok = True
        for r_ in r3:   # every path (a helper may branch on a memo it keeps) must give the same nesting
            v = r_["value"]
            t_ = v
            for c_ in reversed(c3):
                ok = ok and isinstance(t_, Op) and t_.op == "call" and t_.args[0] == c_ and len(t_.args) == 3 and t_.args[1] is d3
                t_ = t_.args[2] if ok else None
            ok = ok and isinstance(t_, Op) and t_.op == "abstract" and "payoff_fn" in str(t_.args[0])
            if not ok:
                break
    run.oblige("C12.R3", "BaseDerivative.payoff folds clause(self, payoff) over clauses() from payoff_fn()", ok, str(v)[:200])
    if not ok:
        run.fail(Finding("C12.R3", pay.qualname, str(v)[:200], "payoff() must apply every clause once, in iteration order, starting from payoff_fn()", file=str(prog.modules[pay.module].path), line=pay.node.lineno))
    # iteration order = insertion order: clauses()/named_clauses() iterate _clauses without reordering; add_clause only stores by key
    for name in ("clauses", "named_clauses", "add_clause"):
        fi = prog.method(D + f"base.BaseDerivative.{name}")
        if fi is None:
            raise AnalysisError(f"anchor vanished: BaseDerivative.{name}")
        bad = [ast.unparse(n)[:60] for n in ast.walk(fi.node) if isinstance(n, ast.Call) and ast.unparse(n.func).split(".")[-1] in ("sorted", "reversed", "sort", "reverse", "move_to_end", "popitem", "insert", "shuffle")]
        bad += [ast.unparse(n)[:60] for n in ast.walk(fi.node) if isinstance(n, ast.Subscript) and isinstance(n.slice, ast.Slice) and n.slice.step is not None]
        if name != "add_clause":
            # the iterators must hand out EVERY registered clause: inside their loops nothing may skip an element (continue / break /
            # return, a yield under a condition) and the iterated collection must not be filtered (comprehension with `if`, filter(), set())
            for loop in [n for n in ast.walk(fi.node) if isinstance(n, (ast.For, ast.While))]:
                for n in ast.walk(loop):
                    if isinstance(n, (ast.Continue, ast.Break, ast.Return)):
                        bad.append(f"{type(n).__name__.lower()} inside the clause loop (line {n.lineno})")
                    if isinstance(n, ast.If) and any(isinstance(y, (ast.Yield, ast.YieldFrom)) for y in ast.walk(n)):
                        bad.append(f"conditional yield: if {ast.unparse(n.test)[:50]}")
            for n in ast.walk(fi.node):
                if isinstance(n, (ast.ListComp, ast.GeneratorExp, ast.SetComp, ast.DictComp)) and any(g.ifs for g in n.generators):
                    bad.append(f"filtered comprehension {ast.unparse(n)[:50]}")
                if isinstance(n, ast.Call) and ast.unparse(n.func).split(".")[-1] in ("filter", "set", "frozenset", "unique", "fromkeys"):
                    bad.append(f"de-duplicating / filtering call {ast.unparse(n)[:50]}")
            if not any(isinstance(y, (ast.Yield, ast.YieldFrom, ast.Return)) for y in ast.walk(fi.node)):
                bad.append("yields nothing")
        ok = not bad
        run.oblige("C12.R3", f"BaseDerivative.{name} keeps insertion order and hands out every clause", ok, "; ".join(bad))
        if not ok:
            run.fail(Finding("C12.R3", fi.qualname, "; ".join(bad), "every registered clause must be applied, once per registration, in registration order", file=str(prog.modules[fi.module].path), line=fi.node.lineno))


_check_main = check


def check(ctx, run):  # noqa: F811
    _check_main(ctx, run)
    from .c13 import forward_start_index_hazard
    forward_start_index_hazard(ctx, run, "C12.R5")
    from ..precision import closed_form_precision_rule
    run.require("C12.R6", 5)
    closed_form_precision_rule(ctx, run, "C12.R6", ["european_payoff", "lookback_payoff", "american_binary_payoff", "european_binary_payoff", "european_forward_start_payoff", "realized_variance"],
                               "a float strike / dt is compared with the prices unrounded (ties with the strike are decided at the precision of the prices)")


_check_before_purity = check


def check(ctx, run):  # noqa: F811
    _check_before_purity(ctx, run)
    from .c02 import no_memoised_state
    no_memoised_state(ctx, run, "C12.R7", "a payoff remembered from an earlier evaluation is returned after the contract or the paths changed")


_check_before_ctors = check


def check(ctx, run):  # noqa: F811
    _check_before_ctors(ctx, run)
    from ..ctors import ctor_rule
    from ..primaries import primary_classes
    ctor_rule(ctx, run, "C12.R8", ["pfhedge.instruments.derivative." + c for c in ("european.EuropeanOption", "lookback.LookbackOption", "european_binary.EuropeanBinaryOption", "american_binary.AmericanBinaryOption", "cliquet.EuropeanForwardStartOption", "variance_swap.VarianceSwap")], {"strike", "call", "start", "maturity", "underlier"}, "the contract terms the payoff reads are not the ones the derivative was created with")


_check_before_histories = check


def check(ctx, run):  # noqa: F811
    deferred = None
    try:
        _check_before_histories(ctx, run)
    except (AnalysisError, Unsupported) as ex:
        # the rules on a derivative with an UNKNOWN number of clauses have stopped (a construct without a model for that): the call histories
        # below work on real registries with concrete clauses and are judged all the same; the incomplete analysis is reported at the end
        deferred = ex
    try:
        _histories(ctx, run)
    finally:
        if deferred is not None:
            raise AnalysisError(str(deferred))


def _histories(ctx, run):
    from ..registry import histories_rule
    histories_rule(ctx, run, "C12.R9")
    from ..registry import resimulation_rule
    resimulation_rule(ctx, run, "C12.R9", only=("resim-payoff",))
    # ... and every history of at most 2 (thorough: 3) operations against the reference semantics of the registries
    from ..registry import exhaustive_histories_rule
    import os as _os
    if ctx.tier == "thorough":
        exhaustive_histories_rule(ctx, run, "C12.R9x", 3, jobs=max(1, min(8, _os.cpu_count() or 1)))
    else:
        exhaustive_histories_rule(ctx, run, "C12.R9x", 2)
    from ..ctors import rebinding_rule
    rebinding_rule(ctx, run, "C12.R2", ['pfhedge.instruments.derivative'], 20)
    from ..ctors import exports_rule
    exports_rule(ctx, run, "C12.R2", ['pfhedge.instruments'])
