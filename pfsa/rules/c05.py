"""C05 - risk-measure values equal their mathematical definitions.
R1 utilities; R2 entropic risk measure (and it is computed through logsumexp); R3 topp/expected shortfall; R4 value at risk;
R5 quadratic CVaR objective and stationarity target; R6 bracket of its bisection; R7 entropic/isoelastic loss, OCE; module wiring.
Added after the seeded-defect rounds: R3/R4 on every path (a shortcut for some quantile levels is a path of its own); the sample count is size(dim), never numel().
Third round: R4 reduction axis on the min/max branches; R9 scalar targets / levels are not packed into default-dtype tensors; R10 the criteria keep the parameters they were created with.
Rounds 4-5: public names of pfhedge.nn are the definitions of that name.
Round 7: R8 a branch condition is one truth value for the whole sample: reductions inside it are not held to the requested axis, the element count it uses is."""
import sympy as sp

from .. import entrypoints as E
from .. import world as W
from ..interp import Closure, Obj, Unsupported
from ..report import AnalysisError, Finding
from ..samplealg import CEIL, KMEAN_L, KMEAN_S, MAXR, MEAN, MINR, QUANT, Nn, SampleAlgebra, linearize, xi
from ..term import Op, Sym, walk

L = "pfhedge.nn.modules.loss."


def one(ctx, fi, args, kwargs, self_obj=None, n=1):
    res = [r for r in ctx.interp.explore(fi, args, kwargs, self_obj=self_obj) if not r["raises"]]
    if n is not None and len(res) != n:
        raise AnalysisError(f"{fi.qualname}: expected {n} non-raising path(s), found {len(res)}")
    return res


def ident(run, prog, rule, fi, label, got, want, what):
    ok = sp.simplify(linearize(got) - linearize(want)) == 0
    run.oblige(rule, label, ok, f"{got}", sample={"rule": rule, "function": label, "value": str(got), "definition": str(want)})
    if not ok:
        run.fail(Finding(rule, fi.qualname, f"{label}: {got} (definition {want})", what, file=str(prog.modules[fi.module].path), line=fi.node.lineno))
    return ok


REDUCERS = {"mean", "sum", "topk", "quantile", "min", "max", "amin", "amax", "logsumexp", "size", "squeeze", "unsqueeze", "cumsum", "sort", "kthvalue", "median", "var", "std", "prod"}
DIM_POS = {"mean": 1, "sum": 1, "topk": 2, "quantile": 2, "min": 1, "max": 1, "amin": 1, "amax": 1, "logsumexp": 1, "size": 1, "squeeze": 1, "unsqueeze": 1, "cumsum": 1,
           "sort": 1, "kthvalue": 2, "median": 1, "var": 1, "std": 1, "prod": 1}


def axes_used(terms, xsym):
    """(operator, axis, operand is the flattened sample) for every reduction that consumes the sample"""
    seen, out = set(), []

    def value_walk(t):
        # like walk(), but tensors that only steer an iteration (precision=, max_iter=) are not part of the value
        yield t
        if isinstance(t, Op):
            for a in list(t.args) + [v for k, v in t.kw if k not in ("precision", "max_iter")]:
                for b in (a if isinstance(a, (list, tuple)) else [a]):
                    if isinstance(b, (Op, Sym)):
                        yield from value_walk(b)

    for root in terms:
        for t in value_walk(root):
            if not (isinstance(t, Op) and (t.op in REDUCERS or t.op == "numel")) or id(t) in seen:
                continue
            seen.add(id(t))
            operand = t.args[0] if t.args else None
            if not any(s_ == xsym for s_ in walk(operand)) if isinstance(operand, (Op, Sym)) else True:
                continue
            kw = t.kwd()
            pos = DIM_POS.get(t.op)
            d = kw.get("dim", t.args[pos] if pos is not None and len(t.args) > pos and isinstance(t.args[pos], (int, tuple)) else None)
            flat = all(_under_flatten(operand, xsym))
            out.append((t.op, d, flat))
    return out


def _under_flatten(t, xsym, inside=False):
    if t == xsym:
        yield inside
    elif isinstance(t, Op):
        for a in t.args:
            if isinstance(a, (Op, Sym)):
                yield from _under_flatten(a, xsym, inside or t.op in ("flatten", "reshape", "view"))


def axis_rule(ctx, run):
    """R8: the functional forms with a `dim` argument reduce along that axis and nothing else (probe dim=1: a literal axis 0 or
    numel() is visible), and with dim=None they reduce over all elements"""
    prog, interp = ctx.prog, ctx.interp
    x = W.tensor("x")
    run.require("C05.R8", 6)
    cases = [("topp", dict(p=W.fl("p")), (1,)), ("expected_shortfall", dict(p=W.fl("p")), (1,)), ("value_at_risk", dict(p=W.fl("p")), (1, None)), ("quadratic_cvar", dict(lam=W.fl("lam")), (1, None))]
    for fn, extra, dims in cases:
        fi = E.functional(ctx, fn)
        run.functions.add(fi.qualname)
        for d in dims:
            try:
                res = [r for r in interp.explore(fi, [], dict(input=x, dim=d, **extra), max_paths=50) if not r["raises"]]
            except Unsupported as ex:
                raise AnalysisError(f"{fn}(dim={d}): {ex}")
            if not res:
                raise AnalysisError(f"{fn}(dim={d}): no path")
            bad = []
            for r in res:
                terms = [r["value"]]
                # a branch condition is one truth value for the whole sample, so a reduction over everything inside it (all, any, the widest
                # bracket of a search) is what it must be; the element COUNT it uses still has to be the one along the requested axis
                cond_counts = [u_ for u_ in axes_used([c for c, _, _ in r["cond"]], x) if u_[0] == "numel"]
                for e in r["events"]:
                    if e["kind"] in ("call", "opaque_call"):
                        # tensors that only steer the iteration (precision, max_iter) are not part of the value
                        terms += [a for a in list(e.get("args", [])) + [v for k, v in e.get("kwargs", {}).items() if k not in ("precision", "max_iter")] if isinstance(a, (Op, Sym))]
                    if e["kind"] == "loop_end":
                        terms += [u[3] for u in e.get("updates", []) if isinstance(u[3], (Op, Sym))]
                for op, ax, flat in list(axes_used(terms, x)) + cond_counts:
                    if d is None:
                        if not (ax is None or (flat and ax in (0, -1))):
                            bad.append(f"{op} along axis {ax} of the unflattened sample")
                    else:
                        if op == "numel":
                            bad.append("element count numel() where size(dim) is required")
                        elif ax != d and not (ax is None and op in ("unsqueeze",)):
                            bad.append(f"{op} along axis {ax}")
            bad = sorted(set(bad))
            run.oblige("C05.R8", f"{fn}(dim={d}) reduces along {'all elements' if d is None else 'the requested axis'} only", not bad, "; ".join(bad))
            if bad:
                run.fail(Finding("C05.R8", fi.qualname, f"dim={d}: " + "; ".join(bad), "the functional does not reduce along the axis it was asked for", file=str(prog.modules[fi.module].path), line=fi.node.lineno, case=f"dim={d}"))


def check(ctx, run):
    prog, interp = ctx.prog, ctx.interp
    axis_rule(ctx, run)
    run.trusted += ["topk(largest=False) returns the k smallest; quantile interpolates linearly at q(n-1)", "logsumexp(y) = log sum exp y (computed stably)", "sympy simplify / diff"]
    x = W.tensor("x")
    a_, p_, lam_ = W.fl("a"), W.fl("p"), W.fl("lam")
    run.require("C05.R1", 3)
    # ---- R1 utilities
    fi = E.functional(ctx, "exp_utility")
    A = SampleAlgebra(assume_positive={"a"})
    got = A.conv(one(ctx, fi, [], dict(input=x, a=a_))[0]["value"])
    ident(run, prog, "C05.R1", fi, "exp_utility", got, -sp.exp(-A.sym("a") * xi), "differs from -exp(-a x)")
    fi = E.functional(ctx, "isoelastic_utility")
    for aval, want in ((1.0, sp.log(xi)), (W.fl("a"), None)):
        A = SampleAlgebra(assume_positive={"a"})
        res = one(ctx, fi, [], dict(input=x, a=aval), n=None)
        for r in res:
            got = A.conv(r["value"])
            conds = dict((str(c), d) for c, d, _ in r["cond"])
            w = sp.log(xi) if (aval == 1.0 or conds.get("eq(a, 1.0)") is True) else xi ** (1 - A.sym("a"))
            ident(run, prog, "C05.R1", fi, f"isoelastic_utility[a{'=1' if w == sp.log(xi) else '!=1'}]", got, w, "differs from x^(1-a) / log x")
    # ---- R2 entropic risk measure
    fi = E.functional(ctx, "entropic_risk_measure")
    r = one(ctx, fi, [], dict(input=x, a=a_))[0]
    A = SampleAlgebra(assume_positive={"a"})
    got = A.conv(r["value"])
    a = A.sym("a")
    ident(run, prog, "C05.R2", fi, "entropic_risk_measure", sp.expand_log(got, force=True), sp.expand_log(sp.log(MEAN(sp.exp(-a * xi))) / a, force=True), "differs from (1/a) log mean exp(-a x)")
    stable = any(isinstance(s, Op) and s.op == "logsumexp" for s in walk(r["value"])) and not any(isinstance(s, Op) and s.op == "exp" for s in walk(r["value"]))
    run.oblige("C05.R2", "entropic_risk_measure uses logsumexp", stable, "no raw exp on the sample")
    if not stable:
        run.fail(Finding("C05.R2", fi.qualname, "exp -> mean -> log", "the entropic risk measure must be computed through logsumexp (overflow for large |a x|)", file=str(prog.modules[fi.module].path), line=fi.node.lineno))
    if any(d not in (0,) for op, d in A.dims_seen):
        run.fail(Finding("C05.R2", fi.qualname, f"reduction dims {A.dims_seen}", "must reduce along the path dimension 0", file=str(prog.modules[fi.module].path), line=fi.node.lineno))
    # ---- R3 expected shortfall
    fi = E.functional(ctx, "expected_shortfall")
    A = SampleAlgebra(assume_positive={"p"})
    es_paths = one(ctx, fi, [], dict(input=x, p=p_, dim=0), n=None)
    if not es_paths:
        raise AnalysisError("expected_shortfall: no analysable path")
    for r_es in es_paths:  # a shortcut taken for some quantile levels only (p > 1/2, ...) is a path of its own and must meet the definition too
        tag = "" if len(es_paths) == 1 else " [" + ",".join(f"{str(c_)[:30]}={d_}" for c_, d_, _ in r_es["cond"]) + "]"
        try:
            got = A.conv(r_es["value"])
        except (NotImplementedError, TypeError) as ex:
            got = sp.Symbol("NOT_ANALYSABLE_" + str(ex)[:20].replace(" ", "_"))
        ident(run, prog, "C05.R3", fi, "expected_shortfall(dim=0)" + tag, got, -KMEAN_S(xi, CEIL(A.sym("p") * Nn)), "differs from minus the mean of the ceil(pN) smallest outcomes")
    bad_dims = [(op, d) for op, d in A.dims_seen if d != 0]
    run.oblige("C05.R3", "expected_shortfall reduces along the requested dim", not bad_dims, str(A.dims_seen))
    if bad_dims:
        run.fail(Finding("C05.R3", fi.qualname, f"dims {A.dims_seen}", "topk and mean must run along the requested dimension", file=str(prog.modules[fi.module].path), line=fi.node.lineno))
    # ---- R4 value at risk
    fi = E.functional(ctx, "value_at_risk")
    res = one(ctx, fi, [], dict(input=x, p=p_, dim=0), n=None)  # the number of branches is part of what is compared below
    if not res:
        raise AnalysisError("value_at_risk: no analysable path")
    A = SampleAlgebra(assume_positive={"p"})
    p = A.sym("p")
    seen = {}
    for r in res:
        try:
            conds = [(A.conv(c), d) for c, d, _ in r["cond"]]
            seen[tuple((str(c), d) for c, d in conds)] = A.conv(r["value"])
        except (NotImplementedError, TypeError) as ex:
            seen[("not analysable: " + str(ex)[:60],)] = sp.Symbol("UNKNOWN")
    want = {
        ((str(sp.Le(p, 1 / Nn)), True),): MINR(xi),
        ((str(sp.Le(p, 1 / Nn)), False), (str(sp.Gt(p, 1 - 1 / Nn)), True)): MAXR(xi),
        ((str(sp.Le(p, 1 / Nn)), False), (str(sp.Gt(p, 1 - 1 / Nn)), False)): QUANT(xi, (p - 1 / Nn) / (1 - 1 / Nn)),
    }
    ok = set(seen) == set(want) and all(sp.simplify(seen[k] - want[k]) == 0 for k in want)
    run.oblige("C05.R4", "value_at_risk: min / max / quantile((p-1/n)/(1-1/n)) with guards p<=1/n, p>1-1/n", ok, str(seen)[:300])
    if not ok:
        run.fail(Finding("C05.R4", fi.qualname, str(seen)[:300], "value at risk differs from the documented order statistic", file=str(prog.modules[fi.module].path), line=fi.node.lineno))
    bad_dims = [(op, d) for op, d in A.dims_seen if d != 0]
    run.oblige("C05.R4", "value_at_risk reduces along the requested dim on every branch", not bad_dims, str(A.dims_seen))
    if bad_dims:
        run.fail(Finding("C05.R4", fi.qualname, f"dims {sorted(set(bad_dims), key=str)}", "asked for dim=0, a branch reduces over another axis or over all elements: "
                         "a sample with trailing dimensions collapses to one number", file=str(prog.modules[fi.module].path), line=fi.node.lineno))
    # ---- R5 / R6 quadratic CVaR
    qcvar(ctx, run)
    # ---- R7 losses and OCE, module wiring (target subtracted first, dim 0)
    t_ = W.tensor("target")
    specs = {
        "EntropicRiskMeasure": (dict(a=a_), lambda A: sp.expand_log(sp.log(MEAN(sp.exp(-A.sym("a") * (xi - A.sym("target"))))) / A.sym("a"), force=True)),
        "EntropicLoss": (dict(a=a_), lambda A: MEAN(sp.exp(-A.sym("a") * (xi - A.sym("target"))))),
        "ExpectedShortfall": (dict(p=p_), lambda A: -KMEAN_S(xi - A.sym("target"), CEIL(A.sym("p") * Nn))),
        "OCE": (dict(utility=Sym("u", ("callable",)), w=W.tensor("w")), None),
    }
    run.require("C05.R7", 4)
    for cls, (attrs, want) in specs.items():
        fwd = prog.lookup_method(L + cls, "forward")
        if fwd is None:
            raise AnalysisError(f"anchor vanished: {cls}.forward")
        r = one(ctx, fwd, [x, t_], {}, self_obj=Obj(L + cls, cls.lower(), attrs))[0]
        A = SampleAlgebra(assume_positive={"a", "p"})
        if cls == "OCE":
            v = r["value"]
            got = linearize(A.conv(v))
            U_ = sp.Function("F_u")
            ok = sp.simplify(got - (A.sym("w") - MEAN(U_(xi - A.sym("target") + A.sym("w"))))) == 0 and not any(d != 0 for _, d in A.dims_seen)
            run.oblige("C05.R7", "OCE.forward == w - mean u(x - target + w)", ok, str(v))
            if not ok:
                run.fail(Finding("C05.R7", fwd.qualname, str(v), "OCE must be w - mean u(x - target + w)", file=str(prog.modules[fwd.module].path), line=fwd.node.lineno))
            continue
        got = A.conv(r["value"])
        if cls == "EntropicRiskMeasure":
            got = sp.expand_log(got, force=True)
        ident(run, prog, "C05.R7", fwd, f"{cls}.forward(input, target)", got, want(A), "the module must subtract the target first and reduce along dim 0")
        if any(d != 0 for op, d in A.dims_seen):
            run.fail(Finding("C05.R7", fwd.qualname, f"dims {A.dims_seen}", "the module must reduce along dim 0", file=str(prog.modules[fwd.module].path), line=fwd.node.lineno))
    fwd = prog.lookup_method(L + "IsoelasticLoss", "forward")
    r = one(ctx, fwd, [x, t_], {}, self_obj=Obj(L + "IsoelasticLoss", "iso", dict(a=1.0)))[0]
    A = SampleAlgebra()
    ident(run, prog, "C05.R7", fwd, "IsoelasticLoss.forward[a=1]", A.conv(r["value"]), -MEAN(sp.log(xi - A.sym("target"))), "must be minus mean log utility of (input - target)")
    fwd = prog.lookup_method(L + "QuadraticCVaR", "forward")
    res = one(ctx, fwd, [x, t_], {}, self_obj=Obj(L + "QuadraticCVaR", "q", dict(lam=lam_)), n=None)
    calls = [e for r in res for e in r["events"] if e["kind"] == "call" and e["callee"] == E.F + "quadratic_cvar"]
    Aq = SampleAlgebra()

    def _wired(e):
        kw = dict(e["kwargs"])
        for k_, v_ in zip(("input", "lam", "dim"), e["args"]):
            kw[k_] = v_
        try:
            return sp.simplify(Aq.conv(kw.get("input")) - (xi - Aq.sym("target"))) == 0 and kw.get("lam") == lam_ and kw.get("dim") == 0
        except (NotImplementedError, TypeError):
            return False

    own = [e for e in calls if e["fn"].endswith("QuadraticCVaR.forward")]
    ok = bool(own) and all(_wired(e) for e in own)
    run.oblige("C05.R7", "QuadraticCVaR.forward == quadratic_cvar(input - target, lam, dim=0)", ok, "")
    if not ok:
        run.fail(Finding("C05.R7", fwd.qualname, "quadratic_cvar(input - target, lam=self.lam, dim=0)", "module wiring", file=str(prog.modules[fwd.module].path), line=fwd.node.lineno))


def qcvar(ctx, run):
    prog, interp = ctx.prog, ctx.interp
    fi = E.functional(ctx, "quadratic_cvar")
    x, lam_ = W.tensor("x"), W.fl("lam")
    res = one(ctx, fi, [], dict(input=x, lam=lam_, dim=0), n=None)
    run.functions.add(fi.qualname)
    r = res[-1]
    bis = [e for e in r["events"] if e["kind"] == "call" and e["callee"].endswith("bisect.bisect") and e["fn"].endswith("quadratic_cvar")]
    if not bis:
        raise AnalysisError("quadratic_cvar: no call to bisect found")
    kw = bis[0]["kwargs"]
    fn, target, lower, upper = kw.get("fn"), kw.get("target"), kw.get("lower"), kw.get("upper")
    # the returned value with the bisection result abstracted as OMEGA
    val = r["value"]
    omega_terms = [s for s in walk(val) if isinstance(s, Op) and s.op in ("loop", "recursive_call", "while")]
    top = None
    for s in walk(val):
        if isinstance(s, Op) and s.op == "add" and isinstance(s.args[0], Op) and s.args[0].op in ("loop", "recursive_call"):
            top = s.args[0]
            break
    # what bisect handed back (whatever point of the final bracket it returns): the value of its outermost exit event
    exits = [e["value"] for e in r["events"] if e["kind"] == "exit" and e["callee"].endswith("bisect.bisect") and isinstance(e.get("value"), (Op, Sym))]
    for cand in reversed(exits):
        if any(s is cand or s == cand for s in walk(val)):
            top = cand
            break
    if top is None:
        raise AnalysisError("quadratic_cvar: cannot locate the bisection result in the returned value")
    from ..term import subst
    W_ = Sym("OMEGA", ("tensor",))
    val2 = subst(val, {top: W_})
    A = SampleAlgebra(assume_positive={"lam"})
    Om = A.sym("OMEGA")
    lam = A.sym("lam")

    def relu_pw(ts, t):
        if isinstance(t, Op) and t.op == "relu":
            u_ = ts.conv(t.args[0])
            return sp.Piecewise((u_, u_ > 0), (0, True))
        return None

    A.hooks.insert(0, relu_pw)
    J = A.conv(val2)
    # J = OMEGA + lam * MEAN(relu(-OMEGA - (xi - MEAN(xi)))^2) - MEAN(xi): objective in centred coordinates
    means = [m for m in J.atoms(sp.Function) if m.func == MEAN]
    centred = sp.Symbol("xc", real=True)
    base = MEAN(xi)
    Jc = J.subs(xi - base, centred)
    inner = [m for m in Jc.atoms(sp.Function) if m.func == MEAN and m.args[0].has(Om)]
    ok_shape = len(inner) == 1 and sp.simplify(Jc - (Om + lam * inner[0] - base)) == 0 if inner else False
    run.oblige("C05.R5", "quadratic_cvar returns omega + lam*mean(relu(-omega - x)^2) (after un-centring)", ok_shape, str(J)[:200])
    if not ok_shape:
        run.fail(Finding("C05.R5", fi.qualname, str(J)[:200], "the returned value is not the objective w + lam*mean(max(-w-x,0)^2) evaluated at the bisection result",
                         file=str(prog.modules[fi.module].path), line=fi.node.lineno))
        return
    G = inner[0].args[0]  # elementwise integrand in (OMEGA, xc)
    # the function handed to bisect, evaluated at OMEGA
    from ..interp import BoundMethod, FuncInfo as _FI, Partial
    if not isinstance(fn, (Closure, BoundMethod, Partial, _FI)):   # a local function, a method of a helper object, a partial: anything callable on the search variable
        raise AnalysisError("quadratic_cvar: bisect's fn is not a function of the repository")
    interp.reset([])
    fval = interp.call_value(fn, [W_], {})
    A2 = SampleAlgebra(assume_positive={"lam"})
    A2.hooks.insert(0, relu_pw)
    Fm = A2.conv(fval).subs(xi - MEAN(xi), centred)
    tgt = A2.conv(target)
    Fin = [m for m in Fm.atoms(sp.Function) if m.func == MEAN]
    if len(Fin) != 1 or sp.simplify(Fm - Fin[0]) != 0:
        raise AnalysisError(f"quadratic_cvar: bisect's function is not a plain mean: {Fm}")
    Fel = Fin[0].args[0]
    Om2 = A2.sym("OMEGA")
    dJ = 1 + lam * sp.diff(G.subs(Om, Om2), Om2)
    resid = sp.simplify(sp.piecewise_fold(dJ - 2 * A2.sym("lam") * (tgt - Fel)))
    ok = resid == 0
    run.oblige("C05.R5", "bisection target is the stationarity condition dJ/domega = 0", ok, f"residual {resid}; target {tgt}",
               sample={"rule": "C05.R5", "dJ/domega": str(sp.piecewise_fold(dJ)), "fn": str(Fel), "target": str(tgt), "residual": str(resid)})
    if not ok:
        run.fail(Finding("C05.R5", fi.qualname, f"target {tgt}, fn {Fel}: residual {resid}", "the bisection does not solve d/dw [w + lam*mean(max(-w-x,0)^2)] = 0",
                         file=str(prog.modules[fi.module].path), line=fi.node.lineno))
    # ---- R6 bracket: fn(upper) <= target <= fn(lower) by interval propagation with y_i in [amin(y), amax(y)]
    ylo, yhi = sp.Symbol("ymin", real=True), sp.Symbol("ymax", real=True)  # bounds of y = -(x - mean x)
    A3 = SampleAlgebra(assume_positive={"lam"})

    def amin_hook(ts, t):
        if isinstance(t, Op) and t.op in ("amin", "amax") and str(t.args[0]).startswith("neg("):
            return ylo if t.op == "amin" else yhi
        return None

    A3.hooks.insert(0, amin_hook)
    lo_e, hi_e = A3.conv(lower), A3.conv(upper)
    # u = -omega - xc = y - omega with y in [ymin, ymax]; relu and mean are monotone
    f_lo_lower = sp.Max(0, ylo - lo_e)     # lower bound of fn(lower)
    f_hi_upper = sp.Max(0, yhi - hi_e)     # upper bound of fn(upper)
    tg = A3.conv(target)
    lam3 = A3.sym("lam")
    okU = sp.simplify(f_hi_upper) == 0 or (sp.simplify(f_hi_upper - tg).is_nonpositive is True)
    diffL = sp.simplify(f_lo_lower - tg)
    okL = diffL.is_nonnegative is True
    run.oblige("C05.R6", "bracket upper end: fn(upper) <= target", okU, f"upper bound of fn(upper) = {sp.simplify(f_hi_upper)}")
    run.oblige("C05.R6", "bracket lower end: fn(lower) >= target", okL, f"lower bound of fn(lower) = {sp.simplify(f_lo_lower)}, target {tg}")
    if not okU:
        run.fail(Finding("C05.R6", fi.qualname, f"upper end {upper}", "fn(upper) <= target is not established", file=str(prog.modules[fi.module].path), line=fi.node.lineno))
    if not okL:
        run.fail(Finding("C05.R6", fi.qualname, "bisect lower end: fn_target(lower) >= " + str(sp.simplify(f_lo_lower)) + " only, target " + str(tg),
                         "the bracket is not shown to contain the stationary point (the bound is attained by a constant sample)",
                         file=str(prog.modules[fi.module].path), line=fi.node.lineno, witness="constant sample c: returns -c, the minimum is -c - 1/(4 lam)"))


def default_target(ctx, run):
    """R7 (defaults): a criterion called without a target measures the P&L itself (target = 0)"""
    from ..equiv import same
    prog, interp = ctx.prog, ctx.interp
    x = W.tensor("x")
    attrs = {"EntropicRiskMeasure": dict(a=W.fl("a")), "EntropicLoss": dict(a=W.fl("a")), "IsoelasticLoss": dict(a=W.fl("a")), "ExpectedShortfall": dict(p=W.fl("p")),
             "QuadraticCVaR": dict(lam=W.fl("lam")), "OCE": dict(utility=Sym("u", ("callable",)), w=W.tensor("w"))}
    for cls, at in attrs.items():
        for meth in ("forward", "cash"):
            fi = prog.lookup_method(L + cls, meth)
            if fi is None or (meth == "cash" and fi.qualname.endswith("HedgeLoss.cash") and cls != "IsoelasticLoss"):
                continue
            try:
                r0 = [r for r in interp.explore(fi, [x], {}, self_obj=Obj(L + cls, cls.lower(), dict(at)), max_paths=100) if not r["raises"]]
                r1 = [r for r in interp.explore(fi, [x, 0.0], {}, self_obj=Obj(L + cls, cls.lower(), dict(at)), max_paths=100) if not r["raises"]]
            except Unsupported as ex:
                raise AnalysisError(f"{cls}.{meth}: {ex}")
            ok = len(r0) == len(r1) and len(r0) >= 1 and all(str(a["value"]) == str(b["value"]) or same(a["value"], b["value"]) for a, b in zip(r0, r1))
            run.oblige("C05.R7", f"{cls}.{meth}(input) == {cls}.{meth}(input, target=0)", ok, "")
            if not ok:
                run.fail(Finding("C05.R7", fi.qualname, f"{cls}.{meth}(input) differs from {cls}.{meth}(input, 0.0)", "without a target the criterion must be evaluated on the P&L itself",
                                 file=str(prog.modules[fi.module].path), line=fi.node.lineno, case="default target"))


_check_c05 = check


def check(ctx, run):  # noqa: F811
    _check_c05(ctx, run)
    default_target(ctx, run)
    precision_rule(ctx, run)


def precision_rule(ctx, run, rule="C05.R9", methods=("forward", "cash")):
    """R9: a target or a level given as a Python number is used at the precision of the sample.  `torch.as_tensor(target)` of a float is a
    float32 tensor: subtracted from a float64 profit-loss it keeps the result float64 but the target was rounded to 24 bits first, so the
    value is the risk measure of input - float32(target)."""
    from ..precision import lossy
    prog, interp = ctx.prog, ctx.interp
    x = W.tensor("x")
    tgt = W.fl("target")
    run.require(rule, 6 * len(methods) + 2)
    mods = {"EntropicRiskMeasure": dict(a=W.fl("a")), "EntropicLoss": dict(a=W.fl("a")), "IsoelasticLoss": dict(a=W.fl("a")),
            "ExpectedShortfall": dict(p=W.fl("p")), "QuadraticCVaR": dict(lam=W.fl("lam")), "OCE": dict(utility=Sym("u", ("callable",)), w=W.tensor("w"))}
    for cls, attrs in mods.items():
        if L + cls not in prog.classes:
            raise AnalysisError(f"anchor vanished: {cls}")
        for meth in methods:
            fi = prog.lookup_method(L + cls, meth)
            if fi is None:
                raise AnalysisError(f"anchor vanished: {cls}.{meth}")
            try:
                res = [r for r in interp.explore(fi, [x, tgt], {}, self_obj=Obj(L + cls, cls.lower(), dict(attrs)), max_paths=60) if not r["raises"]]
            except Unsupported as ex:
                raise AnalysisError(f"{cls}.{meth}: {ex}")
            if not res:
                raise AnalysisError(f"{cls}.{meth}: no analysable path with a scalar target")
            bad = lossy(res, None)
            run.oblige(rule, f"{cls}.{meth}: scalar target and parameters keep the precision of the sample", not bad, "; ".join(bad) or "no Python float is packed into a default-dtype tensor")
            if bad:
                run.fail(Finding(rule, fi.qualname, "; ".join(bad)[:300], "a Python float is rounded to float32 before it meets the (possibly float64) sample: "
                                 "the value is the risk measure of another target / level", file=str(prog.modules[fi.module].path), line=fi.node.lineno))
    for fn, kw in (("exp_utility", dict(a=W.fl("a"))), ("isoelastic_utility", dict(a=W.fl("a"))), ("entropic_risk_measure", dict(a=W.fl("a"))),
                   ("expected_shortfall", dict(p=W.fl("p"), dim=0)), ("value_at_risk", dict(p=W.fl("p"), dim=0)), ("quadratic_cvar", dict(lam=W.fl("lam"), dim=0))):
        fi = E.functional(ctx, fn)
        try:
            res = [r for r in interp.explore(fi, [], dict(input=x, **kw), max_paths=60) if not r["raises"]]
        except Unsupported as ex:
            raise AnalysisError(f"{fn}: {ex}")
        if not res:
            raise AnalysisError(f"{fn}: no analysable path")
        bad = lossy(res, None)
        run.oblige(rule, f"{fn}: scalar parameters keep the precision of the sample", not bad, "; ".join(bad) or "no Python float is packed into a default-dtype tensor")
        if bad:
            run.fail(Finding(rule, fi.qualname, "; ".join(bad)[:300], "a Python float parameter is rounded to float32 before it meets the sample",
                             file=str(prog.modules[fi.module].path), line=fi.node.lineno))


_check_before_ctors = check


def check(ctx, run):  # noqa: F811
    """R10: the criteria keep the risk aversion / level / weight / utility they were created with (the wiring rules read them from the attributes)"""
    _check_before_ctors(ctx, run)
    from ..ctors import ctor_rule
    ctor_rule(ctx, run, "C05.R10", [L + c for c in ("EntropicRiskMeasure", "EntropicLoss", "IsoelasticLoss", "ExpectedShortfall", "QuadraticCVaR", "OCE")], None,
              "the criterion evaluates the risk measure at another parameter than the one it was created with")
    from ..ctors import exports_rule
    exports_rule(ctx, run, "C05.R10", ['pfhedge.nn'])
