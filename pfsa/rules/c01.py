"""C01 - hedging P&L is the self-financing wealth identity.
R1 pl() equals -Z + sum delta_t (S_{t+1}-S_t) - sum c |delta_{t+1}-delta_t| S_{t+1} - [first] c |delta_0| S_0 for all 8 flag
cases (column algebra, linear normal form); R2 axis bookkeeping of the cost vector and the reduction; R3 terminal_value is pl;
R4 Hedger.compute_pl / compute_portfolio pass (spot, unit, cost, payoff) built from one and the same hedge list.
Added after the seeded-defect rounds: R5 cost rates are not rounded to the default dtype; R6 pl() and the hedger's P&L methods leave no state behind; R4 is judged on every path.
Third round: R8h call histories of list()/delist() on every derivative class (re-listing with cost 0.0, clauses survive delisting).
Round 7: R4 compares the payoff handed to pl() with what payoff() returns on the same derivative (two registered clauses), whatever way the fold over the clauses is written."""
import itertools

import sympy as sp

from .. import entrypoints as E
from .. import world as W
from ..interp import Obj, Unsupported
from ..report import AnalysisError, Finding
from ..series import Lin, SeriesAlgebra, T, UnknownOperator, h, j
from ..term import Op, Sym, walk

S_ = sp.Function("spot")
U_ = sp.Function("unit")
c_ = sp.Function("cost")
Z_ = sp.Symbol("payoff")


def spec(has_cost, has_payoff, first):
    key = (("H", "T"), sp.simplify(T - 1))
    sums = {key: sp.expand(U_(h, j) * (S_(h, j + 1) - S_(h, j)))}
    scal = -Z_ if has_payoff else 0
    if has_cost:
        sums[key] = sp.expand(sums[key] - c_(h) * sp.Abs(U_(h, j + 1) - U_(h, j)) * S_(h, j + 1))
        if first:
            sums[(("H", "T"), sp.Integer(1))] = sp.expand(-c_(h) * sp.Abs(U_(h, 0)) * S_(h, 0))
    return Lin(sums, scal)


def pl_term(ctx, fname, has_cost, has_payoff, first):
    fi = E.functional(ctx, fname)
    kw = dict(spot=W.tensor("spot"), unit=W.tensor("unit"), cost=Sym("cost", ("list",)) if has_cost else None,
              payoff=W.tensor("payoff") if has_payoff else None, deduct_first_cost=first)
    res = [r for r in ctx.interp.explore(fi, [], kw) if not r["raises"]]
    if len(res) != 1:
        raise AnalysisError(f"{fname}: expected one non-raising path for cost={has_cost} payoff={has_payoff} first={first}")
    return fi, res[0]


def check(ctx, run):
    prog, interp = ctx.prog, ctx.interp
    run.trusted += ["column semantics of slicing/diff/sum (operator table)", "sympy expand"]
    run.require("C01.R1", 8)
    run.require("C01.R3", 8)
    run.require("C01.R4", 2)
    for has_cost, has_payoff, first in itertools.product((False, True), repeat=3):
        case = f"cost={has_cost},payoff={has_payoff},first={first}"
        fi, r = pl_term(ctx, "pl", has_cost, has_payoff, first)
        run.functions.add(fi.qualname)
        A = SeriesAlgebra(bases=("spot", "unit"), scalars=("payoff",), per_hedge=("cost",))
        try:
            got = A.lin(A.ev(r["value"]))
        except UnknownOperator as ex:
            raise AnalysisError(f"pl [{case}]: the column algebra has no meaning for the operator {ex}")
        except (NotImplementedError, ValueError, KeyError) as ex:
            # R2: a shape/axis inconsistency shows up as a failure to build the normal form
            run.oblige("C01.R1", case, False, f"cannot build the normal form: {ex}")
            run.fail(Finding("C01.R2", fi.qualname, f"[{case}] {ex}", "operands of pl() do not align along (H, T) as documented",
                             file=str(prog.modules[fi.module].path), line=fi.node.lineno, case=case))
            continue
        diff = got.add(spec(has_cost, has_payoff, first), -1)
        ok = diff.is_zero()
        run.oblige("C01.R1", case, ok, f"residual {diff}", sample={"rule": "C01.R1", "case": case, "normal_form": str(got)[:300]})
        if not ok:
            run.fail(Finding("C01.R1", fi.qualname, f"[{case}] residual {diff}", "pl() differs from the self-financing wealth identity",
                             file=str(prog.modules[fi.module].path), line=fi.node.lineno, case=case))
        # R2: shapes with N, H, T distinct
        from ..shape import N as Nn_, T as Tn_, ShapeError, Unknown, shape_of
        Hn_ = sp.Symbol("H", integer=True, positive=True)
        env = {"spot": (Nn_, Hn_, Tn_), "unit": (Nn_, Hn_, Tn_), "payoff": (Nn_,), "cost": (Hn_,)}
        try:
            sh = shape_of(r["value"], env)
            shape_ok = len(sh) == 1 and sp.simplify(sh[0] - Nn_) == 0
            shape_msg = f"result shape {tuple(str(e) for e in sh)}"
        except ShapeError as ex:
            shape_ok, shape_msg = False, str(ex)
        except Unknown as ex:
            raise AnalysisError(f"pl [{case}]: shape engine cannot model {ex}")
        run.oblige("C01.R2", case + ":shape", shape_ok, shape_msg)
        if not shape_ok:
            run.fail(Finding("C01.R2", fi.qualname, f"[{case}] {shape_msg}", "operands of pl() do not align as (N, H, T) x cost[H] -> (N)", file=str(prog.modules[fi.module].path), line=fi.node.lineno, case=case))
        # size guards come first
        guards = [e for e in r["events"] if e["kind"] == "guard"]
        run.oblige("C01.R2", case + ":guards", len(guards) >= (2 if has_payoff else 1), f"{len(guards)} size guards")
        # R3 alias
        fi2, r2 = pl_term(ctx, "terminal_value", has_cost, has_payoff, first)
        same = r2["value"] == r["value"]
        run.oblige("C01.R3", case, same, "terminal_value(args) == pl(args)")
        if not same:
            run.fail(Finding("C01.R3", fi2.qualname, f"[{case}]", "terminal_value does not forward its arguments to pl unchanged",
                             file=str(prog.modules[fi2.module].path), line=fi2.node.lineno, case=case))
    # ---- defaults: the opening trade is charged unless the caller disables it
    for fname in ("pl", "terminal_value"):
        fi_d = E.functional(ctx, fname)
        kw_d = dict(spot=W.tensor("spot"), unit=W.tensor("unit"), cost=Sym("cost", ("list",)), payoff=W.tensor("payoff"))
        res_d = [r_ for r_ in interp.explore(fi_d, [], kw_d) if not r_["raises"]]
        _, r_true = pl_term(ctx, fname, True, True, True)
        okd = len(res_d) == 1 and res_d[0]["value"] == r_true["value"]
        run.oblige("C01.R1", f"{fname}: deduct_first_cost defaults to True", okd, "default call == call with deduct_first_cost=True")
        if not okd:
            run.fail(Finding("C01.R1", fi_d.qualname, f"{fname}(spot, unit, cost, payoff) differs from {fname}(..., deduct_first_cost=True)", "the opening trade must be charged unless the caller disables it",
                             file=str(prog.modules[fi_d.module].path), line=fi_d.node.lineno, case="default"))
    # ---- R4 wiring
    sizes = (2,) if ctx.tier == "quick" else (2, 1, 3)  # thorough: one, two and three hedging instruments
    for meth, want_payoff, nh in [(m_, w_, k_) for k_ in sizes for m_, w_ in (("compute_pl", True), ("compute_portfolio", False))]:
        m = prog.lookup_method(W.HEDGER, meth)
        if m is None:
            raise AnalysisError(f"anchor vanished: Hedger.{meth}")
        hnames = ["hA", "hB", "hC"][:nh]
        hedge = [Obj(W.PRIMARY, n_) for n_ in hnames]
        hh = W.hedger(prog, [W.feature("Moneyness", log=False)])
        d = W.option()
        # two registered clauses (a concrete list: a fold over them has a value however it is written); what payoff() returns for this
        # derivative is the reference the payoff handed to pl() is compared with (that payoff() folds the clauses in order is C12.R3)
        d.attrs["__clauses__"] = [Sym("deriv.clauseA", ("callable",)), Sym("deriv.clauseB", ("callable",))]
        pay_fi = prog.lookup_method(d.cls, "payoff")
        if pay_fi is None:
            raise AnalysisError("anchor vanished: derivative.payoff")
        try:
            pv_ = [r_ for r_ in interp.explore(pay_fi, [], {}, self_obj=d) if not r_["raises"]]
        except Unsupported as ex:
            raise AnalysisError(f"derivative.payoff: {ex}")
        if len(pv_) != 1:
            raise AnalysisError("derivative.payoff: expected one path")
        payoff_value = pv_[0]["value"]
        res = [r for r in interp.explore(m, [d], {"hedge": hedge}, self_obj=hh) if not r["raises"]]
        if not res:
            raise AnalysisError(f"Hedger.{meth}: no analysable path")
        problems = []
        for r0 in res:  # every path (a helper may branch on the costs, the training flag, ...) must wire pl() the same way
            calls = [e for e in r0["events"] if e["kind"] == "call" and e["callee"] == "pfhedge.nn.functional.pl"]
            hcalls = [e for e in r0["events"] if e["kind"] == "call" and e["callee"].endswith("Hedger.compute_hedge")]
            if len(calls) != 1:
                problems.append(f"{len(calls)} calls to pl")
            else:
                kw = dict(calls[0]["kwargs"])
                for k, v in zip(("spot", "unit", "cost", "payoff"), calls[0]["args"]):
                    kw[k] = v
                sp_ = kw.get("spot")
                if not (isinstance(sp_, Op) and sp_.op == "stack" and [str(x) for x in sp_.args[0]] == [n_ + ".spot" for n_ in hnames] and sp_.kwd().get("dim") == 1):
                    problems.append(f"spot is {str(sp_)[:80]}, expected stack([h.spot for h in hedge], dim=1)")
                cost = kw.get("cost")
                all_zero = any(isinstance(c_, Op) and c_.op == "any" and d_ is False and c_.args
                               and [str(x) for x in (c_.args[0] if isinstance(c_.args[0], (list, tuple)) else [c_.args[0]])] == [n_ + ".cost" for n_ in hnames] for c_, d_, _ in r0["cond"])
                if cost is None and all_zero:
                    pass  # costs skipped on the path where none of them is non-zero: the same value
                elif not (isinstance(cost, list) and [str(x) for x in cost] == [n_ + ".cost" for n_ in hnames]):
                    problems.append(f"cost is {str(cost)[:80]}, expected [h.cost for h in hedge]")
                if len(hcalls) != 1 or [getattr(x, "name", None) for x in (hcalls[0]["kwargs"].get("hedge") or (hcalls[0]["args"][1] if len(hcalls[0]["args"]) > 1 else []))] != hnames:
                    problems.append("unit is not compute_hedge(derivative, hedge=<the same list>)")
                unit = kw.get("unit")
                if not (isinstance(unit, Op) and unit.op == "transpose"):
                    problems.append(f"unit is {str(unit)[:60]}")
                pay = kw.get("payoff")
                if want_payoff:
                    if not (pay is not None and any(isinstance(s, Op) and s.op == "abstract" and "payoff_fn" in str(s.args[0]) for s in walk(pay)) and pay == payoff_value):
                        problems.append(f"payoff is {str(pay)[:80]}, expected derivative.payoff() (payoff_fn folded through the clauses)")
                elif pay is not None:
                    problems.append("compute_portfolio passes a payoff")
                if kw.get("deduct_first_cost", True) is not True:
                    problems.append("deduct_first_cost overridden")
        ok = not problems
        run.oblige("C01.R4", f"Hedger.{meth}" + ("" if nh == 2 else f" [{nh} hedging instrument(s)]"), ok, "; ".join(problems) or "spot/unit/cost from one hedge list, payoff as required",
                   sample={"rule": "C01.R4", "site": meth, "problems": problems})
        run.call_sites += 1
        if not ok:
            run.fail(Finding("C01.R4", m.qualname, "; ".join(problems), "the hedger does not evaluate pl() on the hedge's prices, its own hedge, their costs and the derivative's payoff",
                             file=str(prog.modules[m.module].path), line=m.node.lineno))
    # default hedge: every underlier of the derivative when no hedge list is given, the given list as it is otherwise - read off the prices
    # compute_pl hands to pl() (whatever helper resolves the list)
    cpl = prog.lookup_method(W.HEDGER, "compute_pl")
    uA, uB = Obj(W.PRIMARY, "uA"), Obj(W.PRIMARY, "uB")
    given = [Obj(W.PRIMARY, "hA"), Obj(W.PRIMARY, "hB")]
    problems = []
    for arg, want in ((None, ["uA", "uB"]), (given, ["hA", "hB"])):
        d2 = W.option(name="deriv2")
        d2.attrs["__underliers__"] = [uA, uB]
        d2.attrs["underlier"] = uA
        hh = W.hedger(prog, [W.feature("Moneyness", log=False)])
        try:
            res = [r for r in interp.explore(cpl, [d2], {"hedge": arg}, self_obj=hh, max_paths=60) if not r["raises"]]
        except Unsupported as ex:
            raise AnalysisError(f"compute_pl(hedge={'None' if arg is None else 'list'}): {ex}")
        if not res:
            raise AnalysisError(f"compute_pl(hedge={'None' if arg is None else 'list'}): no analysable path")
        for r0 in res:
            calls = [e for e in r0["events"] if e["kind"] == "call" and e["callee"] == "pfhedge.nn.functional.pl"]
            sp_ = (calls[0].get("bound") or {}).get("spot") if len(calls) == 1 else None
            got = [str(x) for x in sp_.args[0]] if isinstance(sp_, Op) and sp_.op == "stack" and isinstance(sp_.args[0], (list, tuple)) else None
            if got != [n_ + ".spot" for n_ in want]:
                problems.append(f"hedge={'None' if arg is None else '[hA, hB]'}: pl() is evaluated on the prices of {got}, expected {want}")
    problems = sorted(set(problems))
    gh = cpl
    run.oblige("C01.R4", "default hedge: all underliers of the derivative, a given hedge list as it is", not problems, "; ".join(problems))
    if problems:
        run.fail(Finding("C01.R4", gh.qualname, "; ".join(problems), "the default hedge is every underlier of the derivative, a given hedge list is used as is",
                         file=str(prog.modules[gh.module].path), line=gh.node.lineno))
    pn = prog.lookup_method(W.HEDGER, "compute_pnl")
    if pn is not None:
        n_, st_ = W.integer("n_paths"), Sym("init_state")
        d = W.option()
        res = [r for r in interp.explore(pn, [], dict(derivative=d, hedge=given, n_paths=n_, init_state=st_), self_obj=hh) if not r["raises"]]
        problems = []
        if not res:
            raise AnalysisError("Hedger.compute_pnl: no analysable path")
        seq = [e for e in res[0]["events"] if e["kind"] == "call" and (e["callee"].endswith("BaseDerivative.simulate") or e["callee"].endswith("Hedger.compute_pl"))]
        own = [e for e in seq if (e.get("fn") or "").endswith("Hedger.compute_pnl")]
        names = [e["callee"].rsplit(".", 1)[-1] for e in own]
        if names != ["simulate", "compute_pl"]:
            problems.append(f"calls {names}, expected simulate then compute_pl")
        else:
            sim, cpl = own
            kw = dict(sim["kwargs"])
            if not (kw.get("n_paths") == n_ and kw.get("init_state") == st_):
                problems.append(f"simulate({', '.join(f'{k}={v}' for k, v in kw.items())})")
            kw = dict(cpl["kwargs"])
            for k, v in zip(("derivative", "hedge"), cpl["args"]):
                kw[k] = v
            if kw.get("derivative") is not d or kw.get("hedge") is not given:
                problems.append("compute_pl is not called on the same derivative and hedge")
        run.oblige("C01.R4", "Hedger.compute_pnl = simulate(n_paths, init_state) then compute_pl(derivative, hedge)", not problems, "; ".join(problems))
        if problems:
            run.fail(Finding("C01.R4", pn.qualname, "; ".join(problems), "compute_pnl must simulate as requested and evaluate compute_pl on the same derivative and hedge",
                             file=str(prog.modules[pn.module].path), line=pn.node.lineno))


def precision_rule(ctx, run):
    """R5: the cost rates (Python floats) enter the cost term at the precision of the price data: they are not first packed into a tensor of
    the global default dtype (torch.tensor(cost) without dtype rounds 1e-3 to float32 before `.to(float64 spot)`) - a necessary condition
    of the identity in float64."""
    from ..precision import lossy
    prog, interp = ctx.prog, ctx.interp
    run.require("C01.R5", 1)
    fi = E.functional(ctx, "pl")
    res = interp.explore(fi, [], dict(spot=W.tensor("spot"), unit=W.tensor("unit"), cost=Sym("cost", ("list",)), payoff=W.tensor("payoff")), max_paths=20)
    bad = lossy(res, {"cost"})
    run.oblige("C01.R5", "pl: cost rates are not rounded to the default dtype before they meet the prices", not bad, "; ".join(bad) or "cost tensor created in the dtype of the prices")
    if bad:
        run.fail(Finding("C01.R5", fi.qualname, "; ".join(bad), "cost rates are rounded to float32 before float64 arithmetic: the float64 P&L deviates from the wealth identity by ~6e-8 of the cost term",
                         file=str(prog.modules[fi.module].path), line=fi.node.lineno, witness="pl(float64 spot/unit, cost=[0.001]) = 0.49749999988 instead of 0.4975"))


_check_before_precision = check


def check(ctx, run):  # noqa: F811
    _check_before_precision(ctx, run)
    precision_rule(ctx, run)


def purity_rule(ctx, run):
    """R6: pl() and the hedger's P&L methods are functions of their arguments and the current buffers: they leave nothing behind (a memoised
    cost tensor is reused with another dtype, another device, or after the cost of an instrument changed)."""
    from ..purity import stores
    prog, interp = ctx.prog, ctx.interp
    run.require("C01.R6", 3)
    fi = E.functional(ctx, "pl")
    runs = [("pl", fi, interp.explore(fi, [], dict(spot=W.tensor("spot"), unit=W.tensor("unit"), cost=Sym("cost", ("list",)), payoff=W.tensor("payoff")), max_paths=20))]
    for meth in ("compute_pl", "compute_portfolio"):
        m = prog.lookup_method(W.HEDGER, meth)
        hh = W.hedger(prog, [W.feature("Moneyness", log=False)])
        runs.append((f"Hedger.{meth}", m, interp.explore(m, [W.option()], {"hedge": [Obj(W.PRIMARY, "hA"), Obj(W.PRIMARY, "hB")]}, self_obj=hh)))
    for label, f_, res in runs:
        st = [x for x in stores(res) if "prev_output" not in x]
        run.oblige("C01.R6", f"{label} keeps no state", not st, "; ".join(st))
        if st:
            run.fail(Finding("C01.R6", f_.qualname, f"{label}: " + "; ".join(st), "what one evaluation leaves behind (a cached cost tensor) is read by the next one: the P&L then depends on the call history, not only on prices, positions and cost rates",
                             file=str(prog.modules[f_.module].path), line=f_.node.lineno))


_check_before_purity = check


def check(ctx, run):  # noqa: F811
    purity_rule(ctx, run)
    _check_before_purity(ctx, run)


_check_before_ctors = check


def check(ctx, run):  # noqa: F811
    _check_before_ctors(ctx, run)
    from ..ctors import ctor_rule
    from ..primaries import primary_classes
    ctor_rule(ctx, run, "C01.R7", primary_classes(ctx.prog), {"cost"}, "the cost rate the hedger charges (h.cost) is not the one the instrument was created with")


def listing_rule(ctx, run):
    """R8 (listed derivatives used as hedges): list(pricer, cost) stores exactly that pricer and that cost rate, spot is pricer(self) evaluated
    on the current state, delist() removes both - so the price series and cost rate the hedger reads off a listed hedge are the listed ones."""
    prog, interp = ctx.prog, ctx.interp
    D = "pfhedge.instruments.derivative.base.BaseDerivative"
    run.require("C01.R8", 3)
    lst, dl, sp_ = prog.lookup_method(D, "list"), prog.lookup_method(D, "delist"), prog.lookup_method(D, "spot")
    if lst is None or dl is None or sp_ is None:
        raise AnalysisError("anchor vanished: BaseDerivative.list / delist / spot")
    pr, c = Sym("pricer_arg", ("callable",)), W.fl("cost_arg")
    d = W.option("listed")
    res = [r for r in interp.explore(lst, [pr, c], {}, self_obj=d) if not r["raises"]]
    sets = [{e["attr"]: e["value"] for e in r["events"] if e["kind"] == "obj_setattr" and e.get("obj") is d} for r in res]
    ok = bool(sets) and all(s_.get("pricer") is pr and s_.get("cost") == c for s_ in sets)
    run.oblige("C01.R8", "BaseDerivative.list stores the given pricer and cost rate", ok, str(sets)[:160])
    if not ok:
        run.fail(Finding("C01.R8", lst.qualname, str(sets)[:200], "a listed derivative does not carry the pricer / cost rate it was listed with", file=str(prog.modules[lst.module].path), line=lst.node.lineno))
    d2 = W.option("listed")
    d2.attrs["pricer"] = pr
    vals = [r["value"] for r in interp.explore(sp_, [], {}, self_obj=d2) if not r["raises"]]
    oks = bool(vals) and all(isinstance(v, Op) and v.op == "call" and v.args[0] == pr and len(v.args) == 2 and v.args[1] is d2 for v in vals)
    run.oblige("C01.R8", "BaseDerivative.spot == pricer(self) for a listed derivative", oks, str(vals)[:160])
    if not oks:
        run.fail(Finding("C01.R8", sp_.qualname, str(vals)[:200], "the price series of a listed derivative is not its pricer evaluated on the derivative itself", file=str(prog.modules[sp_.module].path), line=sp_.node.lineno))
    d3 = W.option("listed")
    d3.attrs.update(pricer=pr, cost=c)
    res = [r for r in interp.explore(dl, [], {}, self_obj=d3) if not r["raises"]]
    sets = [{e["attr"]: e["value"] for e in r["events"] if e["kind"] == "obj_setattr" and e.get("obj") is d3} for r in res]
    okd = bool(sets) and all(s_.get("pricer", 1) is None and s_.get("cost", 1) == 0.0 for s_ in sets)
    run.oblige("C01.R8", "BaseDerivative.delist removes the pricer and resets the cost rate", okd, str(sets)[:160])
    if not okd:
        run.fail(Finding("C01.R8", dl.qualname, str(sets)[:200], "delist() leaves a pricer or a cost rate behind", file=str(prog.modules[dl.module].path), line=dl.node.lineno))


_check_before_listing = check


def check(ctx, run):  # noqa: F811
    _check_before_listing(ctx, run)
    listing_rule(ctx, run)
    from ..registry import histories_rule
    histories_rule(ctx, run, "C01.R8h", only=("relist", "relist-zero", "clauses"))
