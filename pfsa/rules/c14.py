"""C14 - loss gradients through the hedger are the true gradients (necessary structural conditions).
R1 on the data-dependence slice from the model output to the loss every operator is differentiable and nothing breaks the graph;
R2 the recurrent prev_hedge input is the stored model output itself; R3 in-place stores on the slice target fresh tensors;
R4 losses are computed with gradients enabled by default, prices without, and everything from simulate to the criterion runs inside the
caller's grad-mode region; R5 the functionals models are built from (clamps, Whalley-Wilmott width, SVI, Black-Scholes closed forms) do not
break the graph between any tensor argument and their result.
Third round: R1 also: the loss evaluates the caller's module, not a deep copy of it.
Rounds 4-5: R2 analyses the forward hooks the constructor really installs; R5m every built-in model forward passes the gradient from its input."""
from .. import world as W
from ..alias import root
from ..interp import Obj, Unsupported
from ..report import AnalysisError, Finding
from ..term import Op, Sym, Term, walk

L = "pfhedge.nn.modules.loss."
BREAKERS = {"detach", "detach_", "attr_data", "item", "tolist", "numpy", "py_float", "py_int", "round", "floor", "ceil", "sign", "argmax", "argmin",
            "long", "int", "bool", "requires_grad_false", "trunc", "frac_", "heaviside"}
CRITERIA = {
    "EntropicRiskMeasure": dict(a=W.fl("a")), "EntropicLoss": dict(a=W.fl("a")), "IsoelasticLoss": dict(a=W.fl("a")),
    "ExpectedShortfall": dict(p=W.fl("p")), "QuadraticCVaR": dict(lam=W.fl("lam")), "OCE": dict(utility=Sym("u", ("callable",)), w=W.tensor("w")),
}


def tainted(t, memo):
    """does the term depend (by data) on a model output?"""
    if id(t) in memo:
        return memo[id(t)]
    r = False
    if isinstance(t, Op):
        if t.op == "call" and isinstance(t.args[0], Sym) and t.args[0].name == "model":
            r = True
        elif t.op in ("size", "numel", "dim", "len", "attr_shape", "attr_dtype", "attr_device", "attr_ndim"):
            r = False  # metadata of a tensor is not a function of its values: a sample COUNT may be rounded / converted freely
        else:
            r = any(tainted(a, memo) for a in args_of(t))
    memo[id(t)] = r
    return r


CONTROL_KW = {"precision", "max_iter"}  # tensors converted to Python numbers that only steer iteration, never enter the value


def args_of(t):
    out = []
    for a in list(t.args) + [v for k, v in t.kw if k not in CONTROL_KW]:
        out.extend(flatten(a))
    return out


def data_walk(t):
    """sub-terms reachable by data dependence (control-only keyword arguments are not followed)"""
    yield t
    if isinstance(t, Op):
        for a in args_of(t):
            yield from data_walk(a)


def flatten(a):
    if isinstance(a, Term):
        return [a]
    if isinstance(a, (list, tuple)):
        return [y for x in a for y in flatten(x)]
    return []


def keeps_graph(t):
    """strip value-preserving operators that keep the autograd edge (clone, contiguous, same-dtype casts)"""
    while isinstance(t, Op) and t.op in ("clone", "contiguous", "to", "view_as", "as_tensor") and t.args and isinstance(t.args[0], (Op, Sym)):
        t = t.args[0]
    return t


def check(ctx, run):
    prog, interp = ctx.prog, ctx.interp
    run.trusted += ["torch.autograd differentiates every operator of the differentiable class of the operator table correctly"]
    run.assumptions += ["the hedging model is differentiable in its parameters"]
    cl = prog.lookup_method(W.HEDGER, "compute_loss")
    if cl is None:
        raise AnalysisError("anchor vanished: Hedger.compute_loss")
    run.require("C14.R1", 12)
    from .. import entrypoints as E
    combos = [(cname, attrs, branch, feats, None) for cname, attrs in CRITERIA.items()
              for branch, feats in (("vectorised", ["Moneyness"]), ("recurrent", ["Moneyness", "PrevHedge"]))]
    if ctx.tier == "thorough":
        # every built-in feature as the model input, both branches, under the default criterion
        for cls, fattrs in E.FEATURE_CONFIGS:
            if cls in ("Empty", "Moneyness"):
                continue
            for branch in ("vectorised", "recurrent"):
                combos.append(("EntropicRiskMeasure", CRITERIA["EntropicRiskMeasure"], branch, None, (cls, fattrs)))
    combos.append(("EntropicRiskMeasure", CRITERIA["EntropicRiskMeasure"], "recurrent", None, ("__module_output__", None)))
    for cname, attrs, branch, feats, special in combos:
        if True:
            if special is not None and special[0] == "__module_output__":
                # a derived feature: ModuleOutput(user module, [moneyness, prev_hedge]) - the module's inputs carry the graph of the previous hedge
                d0 = W.option()
                inner = Obj("pfhedge.features.container.FeatureList", "mo_inputs", {"features": [W.feature("Moneyness", derivative=d0, log=False), W.feature("PrevHedge", derivative=d0)]})
                mo = Obj("pfhedge.features.container.ModuleOutput", "mo", {"inputs": inner, "module": Sym("feature_module", ("callable",)), "derivative": d0})
                fobjs = [mo]
                shared = d0
            elif special is None:
                fobjs = [W.feature(c, **({"log": False} if c == "Moneyness" else {})) for c in feats]
                shared = None
            else:
                f0 = E.make_feature(ctx, special[0], special[1])
                fobjs = [f0] + ([W.feature("PrevHedge")] if branch == "recurrent" else [])
                shared = f0.attrs.get("derivative")
                for fo in fobjs:
                    fo.attrs["derivative"] = shared
            h = W.hedger(prog, fobjs)
            h.attrs["criterion"] = Obj(L + cname, "criterion", dict(attrs))
            try:
                res = [r for r in interp.explore(cl, [shared or W.option()], dict(n_paths=W.integer("n_paths"), n_times=1), self_obj=h, max_paths=100) if not r["raises"]]
            except Unsupported as ex:
                raise AnalysisError(f"compute_loss with {cname}: {ex}")
            label = f"{cname}/{branch}" + (f"/{special[0]}" + ("" if not special[1] else "[" + ",".join(f"{k}={v}" for k, v in special[1].items() if k in ("log", "up")) + "]") if special else "")
            problems = []
            for r in res:
                val = r["value"]
                memo = {}
                if not tainted(val, memo):
                    problems.append("the loss does not depend on the model output")
                    continue
                for s in data_walk(val):
                    if isinstance(s, Op) and s.op in BREAKERS and any(tainted(a, memo) for a in args_of(s)):
                        problems.append(f"graph-breaking operator {s.op} applied to a value that depends on the model output")
                    if isinstance(s, Op) and s.op == "tensor" and any(isinstance(a, Term) and tainted(a, memo) for a in flatten(s.args)):
                        problems.append("torch.tensor(...) re-wraps a value that depends on the model output")
                # parameters: the module evaluated on the way is the caller's own object, not a deep copy of it (a copy owns separate parameters:
                # the gradient with respect to the original's is missing)
                for s in walk(val):
                    if isinstance(s, Sym) and "deepcopy" in s.tags:
                        problems.append(f"a deep copy of {s.name.split('#')[0]} is evaluated in place of the object itself: its parameters receive no gradient")
                # grad-mode regions
                regions = [e for e in r["events"] if e["kind"] == "with_enter"]
                for e in regions:
                    for c in e["ctx"]:
                        mode, arg = getattr(c, "attrs", {}).get("mode"), getattr(c, "attrs", {}).get("arg")
                        if mode == "no_grad" or (mode == "set_grad_enabled" and arg is not True):
                            problems.append(f"loss computed inside {mode}({arg})")
                if not regions:
                    problems.append("no grad-mode region around the loss computation")
                # in-place effects on tainted values must target fresh storage
                for e in r["events"]:
                    if e["kind"] == "inplace" and isinstance(e["target"], Term) and tainted(e["target"], memo):
                        kind = root(e["target"])
                        if kind[0] == "alias":
                            problems.append(f"in-place {e['how']} on a view of {kind[1]} that carries gradient")
            problems = sorted(set(problems))
            ok = not problems and bool(res)
            run.oblige("C14.R1", label, ok, "; ".join(problems) or f"{len(res)} path(s): differentiable slice, grad enabled",
                       sample={"rule": "C14.R1", "criterion": cname, "branch": branch, "problems": problems})
            if not ok:
                run.fail(Finding("C14.R1", cl.qualname, f"{label}: {'; '.join(problems)}", "back-propagation through the hedging loss does not see the true dependence on the model",
                                 file=str(prog.modules[cl.module].path), line=cl.node.lineno, case=label))
    # ---- R2 recurrent path: the stored buffer is the model output object
    # the hook(s) the constructor really installs (world.registered_hooks), not the one it is expected to install
    from ..interp import Closure, FuncInfo
    hooks = [h_ for h_ in W.registered_hooks(prog)]
    if not hooks:
        raise AnalysisError("Hedger.__init__ registers no forward hook")
    wr = []
    hook = None
    import ast as _ast
    drive = FuncInfo("synthetic.call_hook", "pfhedge.nn.modules.hedger", _ast.parse("def call_hook(hook, module, output):\n    return hook(module, (), output)\n").body[0])
    init_fi = prog.lookup_method(W.HEDGER, "__init__")
    for hk in hooks:
        m = Obj(W.HEDGER, "mod")
        out = Sym("out", ("tensor",))
        hook = hook or (hk if isinstance(hk, FuncInfo) else getattr(hk, "fi", None) or init_fi)
        try:
            res = interp.explore(drive, [hk, m, out], {})  # a plain function, a lambda or a closure alike
        except Unsupported as ex:
            raise AnalysisError(f"Hedger.__init__ registers a forward hook that cannot be followed ({ex})")
        wr += [e for r in res for e in r["events"] if e["kind"] == "register_buffer"]
    out = Sym("out", ("tensor",))
    ok = len(wr) == 1 and keeps_graph(wr[0]["tensor"]) == out
    run.oblige("C14.R2", "the installed forward hook stores the output tensor itself (graph kept)", ok, str([str(e["tensor"]) for e in wr]))
    if not ok:
        run.fail(Finding("C14.R2", hook.qualname, str([str(e['tensor']) for e in wr]), "the recurrent prev_hedge input is cut off from the autograd graph", file=str(prog.modules[hook.module].path), line=hook.node.lineno))
    ph = W.feature("PrevHedge", hedger=Obj(W.HEDGER, "hedger"))
    hb = Sym("buf", ("tensor",))
    ph.attrs["hedger"].attrs["__buf_prev_output"] = hb
    res = [r for r in interp.explore(prog.lookup_method(ph.cls, "get"), [W.integer("i")], {}, self_obj=ph) if not r["raises"]]
    ok = bool(res) and all(keeps_graph(r["value"]) == hb for r in res)
    run.oblige("C14.R2", "PrevHedge.get returns the buffer unchanged", ok, str([str(r["value"]) for r in res]))
    if not ok:
        fi = prog.lookup_method(ph.cls, "get")
        run.fail(Finding("C14.R2", fi.qualname, str([str(r['value']) for r in res]), "prev_hedge is not the stored model output", file=str(prog.modules[fi.module].path), line=fi.node.lineno))
    # ---- R4 defaults
    price = prog.lookup_method(W.HEDGER, "price")
    for fi, want in ((cl, True), (price, False)):
        d = [x for x, a in zip(fi.node.args.defaults[::-1], fi.node.args.args[::-1]) if a.arg == "enable_grad"]
        import ast
        ok = bool(d) and isinstance(d[0], ast.Constant) and d[0].value is want
        run.oblige("C14.R4", f"{fi.node.name}: enable_grad defaults to {want}", ok, "")
        if not ok:
            run.fail(Finding("C14.R4", fi.qualname, "enable_grad default", f"{fi.node.name} must {'keep' if want else 'drop'} the graph by default", file=str(prog.modules[fi.module].path), line=fi.node.lineno))
    grad_region_rule(ctx, run)
    building_blocks_rule(ctx, run)


def grad_region_rule(ctx, run):
    """R4 (regions): in compute_loss and price everything that touches tensors - simulate, the hedge/portfolio, the payoff and the
    criterion (resp. criterion.cash) - happens while torch.set_grad_enabled(<the caller's enable_grad>) is in force, so an
    evaluation-only quantity carries no graph even when the criterion owns parameters, and a training loss keeps all of it.
    Decided on the event order of the interpreted functions (helper extraction is transparent; the region is dynamic, not textual)."""
    prog, interp = ctx.prog, ctx.interp
    run.require("C14.R4", 6)
    hh = W.hedger(prog, [W.feature("Moneyness", log=False)])
    hh.attrs["criterion"] = Obj("user.Criterion", "criterion")
    eg = Sym("enable_grad", ("bool",))
    for name, extra in (("compute_loss", {}), ("price", {})):
        fi = prog.lookup_method(W.HEDGER, name)
        if fi is None:
            raise AnalysisError(f"anchor vanished: Hedger.{name}")
        for nt in (1, 2):
            res = [r for r in interp.explore(fi, [W.option()], dict(n_paths=W.integer("n_paths"), n_times=nt, enable_grad=eg, **extra), self_obj=hh, max_paths=50) if not r["raises"]]
            if not res:
                raise AnalysisError(f"Hedger.{name}: no path")
            problems = []
            for r in res:
                depth, regions = 0, []
                seen = {"simulate": 0, "portfolio": 0, "criterion": 0, "payoff": 0}
                for e in r["events"]:
                    k = e["kind"]
                    if k == "with_enter":
                        for c in e["ctx"]:
                            mode = c.attrs.get("mode") if isinstance(c, Obj) and c.cls == "torch.gradmode" else None
                            if mode == "set_grad_enabled":
                                regions.append(c)
                                if c.attrs.get("arg") != eg:
                                    problems.append(f"grad mode set from {c.attrs.get('arg')}, not from the caller's enable_grad")
                                depth += 1
                            elif mode is not None:
                                problems.append(f"fixed grad mode region {mode} overrides the caller's enable_grad")
                    elif k == "with_exit":
                        for c in e["ctx"]:
                            if isinstance(c, Obj) and c.cls == "torch.gradmode" and c.attrs.get("mode") == "set_grad_enabled":
                                depth -= 1
                    else:
                        what = None
                        if k == "call" and e["callee"].endswith("BaseDerivative.simulate"):
                            what = "simulate"
                        elif k == "call" and e["callee"].endswith("Hedger.compute_portfolio"):
                            what = "portfolio"
                        elif k == "call" and e["callee"].endswith("BaseDerivative.payoff"):
                            what = "payoff"
                        elif k in ("opaque_call", "module_call") and (getattr(e.get("callee"), "name", "") in ("criterion", "criterion.cash") or getattr(e.get("recv"), "name", "") == "criterion"):
                            what = "criterion"
                        if what:
                            seen[what] += 1
                            if depth < 1:
                                problems.append(f"{what} is evaluated outside the set_grad_enabled(enable_grad) region")
                for w_ in ("simulate", "portfolio", "criterion"):
                    if seen[w_] < nt:
                        problems.append(f"{w_} seen {seen[w_]} times for n_times={nt}")
            problems = sorted(set(problems))
            ok = not problems
            run.oblige("C14.R4", f"{name}[n_times={nt}]: simulate, portfolio, payoff and criterion all run under set_grad_enabled(enable_grad)", ok, "; ".join(problems))
            if not ok:
                run.fail(Finding("C14.R4", fi.qualname, "; ".join(problems)[:300], "part of the evaluation escapes the caller's grad mode: an evaluation-only value can carry a graph (or a training loss lose part of it)",
                                 file=str(prog.modules[fi.module].path), line=fi.node.lineno, case=f"n_times={nt}"))


BLOCKS = ["leaky_clamp", "clamp", "ww_width", "svi_variance", "bilerp", "d1", "d2", "ncdf", "npdf", "realized_variance", "realized_volatility",
          "bs_european_price", "bs_european_delta", "bs_european_gamma", "bs_european_binary_price", "bs_european_binary_delta", "bs_european_binary_gamma",
          "bs_american_binary_price", "bs_american_binary_delta", "bs_american_binary_gamma", "bs_lookback_price"]


def building_blocks_rule(ctx, run):
    """R5: the functionals a hedging model is built from (clamps of the no-transaction band, Whalley-Wilmott width, SVI, the closed-form
    Black-Scholes prices and Greeks and their helpers) pass gradients to every tensor argument their value depends on: on the
    data-dependence slice from each tensor argument to the result there is no graph-breaking construct (detach, .data, item,
    torch.tensor(t) / t.new_tensor(t) re-wrapping, integer casts, rounding)."""
    import ast as _ast
    prog, interp = ctx.prog, ctx.interp
    run.require("C14.R5", 18)
    F = "pfhedge.nn.functional."
    for name in BLOCKS:
        fi = prog.functions.get(F + name)
        if fi is None:
            raise AnalysisError(f"anchor vanished: {F + name}")
        run.functions.add(fi.qualname)
        a_ = fi.node.args
        kw = {}
        defaults = dict(zip([x.arg for x in a_.args][::-1], a_.defaults[::-1]))
        tensors = []
        for p_ in a_.args:
            ann = _ast.unparse(p_.annotation) if p_.annotation is not None else ""
            if "Tensor" in ann:
                kw[p_.arg] = W.tensor(p_.arg)
                tensors.append(kw[p_.arg])
            elif p_.arg in ("strike", "a", "cost", "clamped_slope", "dt"):
                kw[p_.arg] = W.fl(p_.arg)
        variants = [dict(kw, inverted_output=m_) for m_ in ("mean", "max")] if "inverted_output" in [x.arg for x in a_.args] else [dict(kw, call=c_) for c_ in (True, False)] if "call" in [x.arg for x in a_.args] else [kw]
        problems = []
        n_paths = 0
        for kwv in variants:
            try:
                res = [r for r in interp.explore(fi, [], kwv, max_paths=60) if not r["raises"]]
            except Unsupported as ex:
                raise AnalysisError(f"{name}: {ex}")
            n_paths += len(res)
            for r in res:
                memo = {}

                def dep(t):
                    if id(t) in memo:
                        return memo[id(t)]
                    v = t in tensors if isinstance(t, Sym) else any(dep(x) for x in args_of(t)) if isinstance(t, Op) else False
                    memo[id(t)] = v
                    return v
                for s in data_walk(r["value"]):
                    if not isinstance(s, Op):
                        continue
                    if s.op in BREAKERS and any(dep(x) for x in args_of(s)):
                        problems.append(f"{s.op} on a value that depends on a tensor argument")
                    if s.op == "tensor" and any(isinstance(x, Term) and dep(x) for x in flatten(s.args)):
                        problems.append("torch.tensor(...) re-wraps (detaches) a value that depends on a tensor argument")
                    if s.op in ("new_tensor",) and len(s.args) > 1 and any(isinstance(x, Term) and dep(x) for x in flatten(s.args[1:])):
                        problems.append("new_tensor(...) copy-constructs (detaches) a value that depends on a tensor argument")
        if n_paths == 0:
            raise AnalysisError(f"{name}: no analysable path")
        problems = sorted(set(problems))
        run.oblige("C14.R5", name, not problems, "; ".join(problems) or f"{n_paths} path(s), no graph-breaking construct on the slice from the tensor arguments")
        if problems:
            run.fail(Finding("C14.R5", fi.qualname, "; ".join(problems)[:300], "a model built from this functional does not receive the gradient through it",
                             file=str(prog.modules[fi.module].path), line=fi.node.lineno))


def module_forward_rule(ctx, run):
    """R5m: the forward of every module class the library offers as (part of) a hedging model - every class of pfhedge.nn.modules with a
    pfhedge-level forward of one tensor, MultiLayerPerceptron and Naked included (purity.builtin_model_runs) - passes gradients from its input
    to its output: no graph-breaking construct on the slice and no fixed no-grad region (a forward that is absent, i.e. torch's own
    Sequential.forward, is trusted)."""
    from ..purity import builtin_model_runs
    prog = ctx.prog
    n = 0
    for short, fwd, inp, allres in builtin_model_runs(ctx):
        res = [r for r in (allres or []) if not r["raises"]]
        if not res:
            run.notes.append(f"C14.R5m: {short}.forward not interpreted on a generic instance")
            continue
        n += 1
        problems = []
        for r in res:
            memo = {}

            def dep(t):
                if id(t) in memo:
                    return memo[id(t)]
                v = t == inp if isinstance(t, Sym) else any(dep(x) for x in args_of(t)) if isinstance(t, Op) else False
                memo[id(t)] = v
                return v
            for s in data_walk(r["value"]):
                if isinstance(s, Op) and s.op in BREAKERS and any(dep(x) for x in args_of(s)):
                    problems.append(f"{s.op} on a value that depends on the input")
                if isinstance(s, Op) and s.op == "tensor" and any(isinstance(x, Term) and dep(x) for x in flatten(s.args)):
                    problems.append("torch.tensor(...) re-wraps (detaches) a value that depends on the input")
            for e in r["events"]:
                if e["kind"] == "with_enter" and any(getattr(c_, "attrs", {}).get("mode") == "no_grad" or (getattr(c_, "attrs", {}).get("mode") == "set_grad_enabled" and getattr(c_, "attrs", {}).get("arg") is not True) for c_ in e["ctx"]):
                    problems.append("forward runs under a fixed no-grad region")
        problems = sorted(set(problems))
        run.oblige("C14.R5m", f"{short}.forward passes the gradient from its input", not problems, "; ".join(problems))
        if problems:
            run.fail(Finding("C14.R5m", fwd.qualname, f"{short}: " + "; ".join(problems)[:260], "a hedger built on this module does not receive the gradient through its (recurrent) input",
                             file=str(prog.modules[fwd.module].path), line=fwd.node.lineno))
    run.require("C14.R5m", 5)
    if n < 5:
        raise AnalysisError(f"only {n} built-in model forwards could be interpreted")


_check_before_r5m = check


def check(ctx, run):  # noqa: F811
    _check_before_r5m(ctx, run)
    module_forward_rule(ctx, run)
