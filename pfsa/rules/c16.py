"""C16 - computations never mutate market data nor depend on call history.
R1 in-place discipline (alias domain) over interpreted entry points + syntactic coverage of every in-place site;
R2 single writer of BasePrimary._buffers; R3 purity of the computing entry points; R4 features are bound through .of().
Added after the seeded-defect rounds: R3 also: state stored on the hedger (private attributes), in attribute-held containers or module-level containers; R1: what the model is handed must be fresh storage (every single built-in feature probed).
Third round: R7 call histories (registries of derivatives and primaries, re-simulation, re-configuration), R7x every history of at most 2 (thorough: 4) registry operations against a reference model.
Rounds 4-5: R8 hedger-level call histories; R7 order independence of the state readers; R3m built-in model forwards keep no state; R3f the Black-Scholes factory leaves nothing on the derivative."""
import ast

from .. import entrypoints as E
from .. import world as W
from ..alias import root
from ..interp import Obj, Unsupported
from ..report import AnalysisError, Finding
from ..term import Op, Sym

EXEMPT_METHODS = {"requires_grad_": "changes autograd metadata only, values untouched"}
OPAQUE_OK = {
    "engine": "engine contract: returns a new tensor of normals",
    "model": "built-in models return fresh tensors (checked in C16.R1m)",
}
WRITERS = {"simulate", "to", "list", "delist", "add_clause", "register_underlier", "register_buffer"}


def inplace_sites(prog):
    """every syntactic in-place site on (possibly) tensors in the package"""
    sites = []
    for mod in prog.modules.values():
        for node in ast.walk(mod.tree):
            if isinstance(node, ast.Call) and isinstance(node.func, ast.Attribute) and node.func.attr.endswith("_") and not node.func.attr.startswith("_"):
                sites.append((mod, node, "method:" + node.func.attr))
            elif isinstance(node, ast.AugAssign):
                sites.append((mod, node, "augassign"))
            elif isinstance(node, ast.Assign) and any(isinstance(t, ast.Subscript) for t in node.targets):
                sites.append((mod, node, "setitem"))
            elif isinstance(node, ast.Call) and any(k.arg == "out" for k in node.keywords):
                sites.append((mod, node, "out="))
    return sites


def carried_map(events):
    cm = {}
    for e in events:
        if e["kind"] == "loop_begin":
            for k, b in e.get("carried", []):
                cm[Sym(f"carried:{k}@{e['var']!r}")] = b
    return cm


def check(ctx, run):
    prog, interp = ctx.prog, ctx.interp
    run.trusted += ["operator table: view/copy semantics of indexing and shape operators"]
    run.assumptions += ["engine callables return new tensors", "user models/pricers/clauses do not mutate their arguments"]
    covered = {}  # ast node id -> list of verdicts

    def examine(label, results, fn_hint=None):
        for r in results:
            cm = carried_map(r["events"])
            for e in r["events"]:
                if e["kind"] != "inplace":
                    continue
                how = e["how"]
                node = e.get("node")
                fn = e.get("fn") or fn_hint
                tgt = e["target"]
                if how.startswith("method:") and how[7:] in EXEMPT_METHODS:
                    verdict = ("exempt", EXEMPT_METHODS[how[7:]])
                else:
                    verdict = root(tgt, cm)
                covered.setdefault(id(node), []).append((label, fn, how, verdict, node))

    # ---- interpreted entry points -------------------------------------------------
    for label, mode, ts, make in E.feature_runs(ctx):
        f = make()
        get = prog.lookup_method(f.cls, "get")
        run.functions.add(get.qualname)
        try:
            res = interp.explore(get, [ts], {}, self_obj=f)
        except Unsupported as ex:
            raise AnalysisError(f"{get.qualname}: {ex}")
        examine(f"{label}.get({mode})", res)
    for flags in ({"cost": W.tensor("cost"), "payoff": W.tensor("payoff")}, {}):
        fi = E.functional(ctx, "pl")
        run.functions.add(fi.qualname)
        examine("pl", interp.explore(fi, [], dict(spot=W.tensor("spot"), unit=W.tensor("unit"), **flags)))
    for q, fi, kw in E.generator_runs(ctx):
        run.functions.add(q)
        try:
            examine(q.rsplit(".", 1)[-1], interp.explore(fi, [], kw, max_paths=200))
        except Unsupported as ex:
            raise AnalysisError(f"{q}: {ex}")
    eng = prog.lookup_method("pfhedge.stochastic.engine.RandnSobolBoxMuller", "__call__")
    if eng is None:
        raise AnalysisError("anchor vanished: RandnSobolBoxMuller.__call__")
    examine("sobol", interp.explore(eng, [W.integer("N"), W.integer("T")], {}, self_obj=Obj("pfhedge.stochastic.engine.RandnSobolBoxMuller", "eng")))
    for feats in (["Moneyness"], ["Moneyness", "PrevHedge"]):
        fobjs = [W.feature(c, **({"log": False} if c == "Moneyness" else {})) for c in feats]
        h = W.hedger(prog, fobjs)
        ch = prog.lookup_method(W.HEDGER, "compute_hedge")
        run.functions.add(ch.qualname)
        examine("compute_hedge", interp.explore(ch, [W.option()], {}, self_obj=h))
    # the vectorised branch with every single built-in feature as the only model input: what the model is handed must be fresh storage
    seen_single = set()
    for label, mode, ts, make in E.feature_runs(ctx):
        if mode != "batch" or label in seen_single or label.startswith(("PrevHedge", "Empty")):
            continue
        seen_single.add(label)
        h = W.hedger(prog, [make()])
        ch = prog.lookup_method(W.HEDGER, "compute_hedge")
        try:
            examine(f"compute_hedge[{label}]", interp.explore(ch, [W.option()], {}, self_obj=h))
        except Unsupported as ex:
            raise AnalysisError(f"compute_hedge with the single input {label}: {ex}")
    ag = "pfhedge.autogreek."
    for g in ("delta", "gamma", "vega", "theta"):
        fi = prog.functions.get(ag + g)
        if fi is None:
            raise AnalysisError(f"anchor vanished: {ag + g}")
        run.functions.add(fi.qualname)
        kw = dict(pricer=Sym("pricer", ("callable",)), spot=W.tensor("spot"), volatility=W.tensor("volatility"), time_to_maturity=W.tensor("ttm"), strike=W.fl("K"))
        try:
            examine("autogreek." + g, interp.explore(fi, [], kw))
        except Unsupported:
            pass  # autogreek's dict surgery is analysed by C08.R4; in-place sites are requires_grad_ only (syntactic coverage below)

    # ---- verdicts -------------------------------------------------------------------
    run.require("C16.R1", 20)
    for nid, lst in covered.items():
        for label, fn, how, verdict, node in lst:
            kind = verdict[0]
            ok = kind in ("fresh", "exempt")
            reason = verdict[1]
            if kind == "opaque":
                callee = reason.name if isinstance(reason, Sym) else str(reason)
                role = callee.split(".")[-1]
                if role in OPAQUE_OK:
                    ok, reason = True, OPAQUE_OK[role]
                    if role == "model" and len(verdict) > 2:
                        # a user model may hand back its input (torch.nn.Identity, a slice of it): what it is given must be fresh storage,
                        # otherwise the store goes through the model into the simulated buffers
                        cm_ = {}
                        for a_ in verdict[2].args[1:]:
                            ra = root(a_, cm_) if isinstance(a_, (Op, Sym)) else ("fresh", "python value")
                            if ra[0] == "alias":
                                ok, reason = False, f"the model is given a view of {ra[1]}; a pass-through model returns it and the store writes into it"
                else:
                    reason = f"result of user callable {callee} may alias simulated buffers"
            elif kind == "alias":
                reason = f"view of {reason}"
            construct = ast.unparse(node) if node is not None else how
            run.oblige("C16.R1", f"{fn}:{construct}", ok, f"{how}: {reason}",
                       sample={"rule": "C16.R1", "site": f"{fn}: {construct}"[:160], "target_root": str(verdict)[:120]})
            if not ok:
                fi = prog.functions.get(fn)
                run.fail(Finding("C16.R1", fn, construct, f"in-place {how} on storage that is not fresh: {reason} (entry {label})",
                                 file=str(prog.modules[fi.module].path) if fi else None, line=getattr(node, "lineno", None)))
    # ---- syntactic coverage: every tensor in-place site must have been reached ---------
    skipped = 0
    from ..registry import python_container_store_nodes
    registry_stores = python_container_store_nodes(ctx)  # stores into the dict registries, reached (and judged) in the call histories
    for mod, node, how in inplace_sites(prog):
        if id(node) in covered:
            continue
        if id(node) in registry_stores:
            skipped += 1
            continue
        text = ast.unparse(node)
        # Python-level containers and scalars: dict/list stores, counters, strings
        if how == "setitem":
            tgt = [t for t in node.targets if isinstance(t, ast.Subscript)][0]
            base = ast.unparse(tgt.value)
            if base in ("params",) or base.startswith("self._") or base.startswith("cls._"):
                skipped += 1
                continue
            if isinstance(tgt.value, ast.Name) and tgt.value.id in getattr(mod, "globals", {}):
                # a store into a module-level container from inside a function: process-wide state that every later call reads
                fnq_ = next((q_ for q_, f_ in prog.functions.items() if f_.module == mod.name and any(n_ is node for n_ in ast.walk(f_.node))), mod.name)
                run.oblige("C16.R4", f"{fnq_}:{text[:80]}", False, f"writes the module-level container {tgt.value.id}")
                run.fail(Finding("C16.R4", fnq_, text[:120], f"a computation stores into the module-level container {tgt.value.id}: results depend on what earlier calls (other dtypes, other devices, other arguments) left there",
                                 file=str(mod.path), line=node.lineno))
                continue
        if how == "augassign" and isinstance(node.target, ast.Name) and python_scalar_local(prog, mod, node):
            skipped += 1
            continue
        if how.startswith("method:") and how[7:] in EXEMPT_METHODS:
            run.oblige("C16.R1", f"{mod.name}:{text}", True, EXEMPT_METHODS[how[7:]])
            continue
        # not reached from the anchored entry points (new or rarely used code): interpret the enclosing function on its own
        verdicts = standalone_site(ctx, mod, node)
        if verdicts is None:
            raise AnalysisError(f"in-place {how} at {mod.name}:{node.lineno} ({text[:60]}) is reached by no analysed entry point and its function cannot be interpreted on generic arguments")
        fnq, lst, has_callers, private = verdicts
        bad = [(k_, r_) for k_, r_ in lst if k_ not in ("fresh", "exempt")]
        if not bad:
            run.oblige("C16.R1", f"{fnq}:{text}", True, f"{how}: fresh storage (function interpreted on generic arguments)")
        elif private and not has_callers:
            run.oblige("C16.R1", f"{fnq}:{text}", True, f"{how}: writes into {bad[0][1]}, but the function is private and nothing in the package calls it")
            run.notes.append(f"{fnq}: in-place {how} on {bad[0][1]} in a private function without callers (not part of any public computation)")
        else:
            run.oblige("C16.R1", f"{fnq}:{text}", False, f"{how}: {bad[0][1]}")
            run.fail(Finding("C16.R1", fnq, text, f"in-place {how} on storage that is not fresh: {bad[0][1]}", file=str(mod.path), line=node.lineno))
    run.notes.append(f"python-level container/counter stores skipped: {skipped}")

    # ---- R2: single writer of _buffers -------------------------------------------------
    writers = []
    for q, fi in prog.functions.items():
        for n in ast.walk(fi.node):
            tgt = None
            if isinstance(n, ast.Assign):
                for t in n.targets:
                    if isinstance(t, ast.Subscript) and isinstance(t.value, ast.Attribute) and t.value.attr == "_buffers":
                        tgt = t
            if isinstance(n, ast.Call) and isinstance(n.func, ast.Attribute) and isinstance(n.func.value, ast.Attribute) and n.func.value.attr == "_buffers" and n.func.attr in ("pop", "clear", "update", "setdefault", "popitem", "__setitem__"):
                tgt = n
            if isinstance(n, ast.Delete):
                for t in n.targets:
                    if isinstance(t, ast.Subscript) and isinstance(t.value, ast.Attribute) and t.value.attr == "_buffers":
                        tgt = t
            if tgt is not None:
                writers.append((q, n))
    run.require("C16.R2", 1)
    for q, n in writers:
        ok = q == "pfhedge.instruments.primary.base.BasePrimary.register_buffer"
        run.oblige("C16.R2", f"{q}:{ast.unparse(n)[:80]}", ok, "store into _buffers")
        if not ok:
            fi = prog.functions[q]
            run.fail(Finding("C16.R2", q, ast.unparse(n), "second writer of instrument buffers (only BasePrimary.register_buffer may store into _buffers)",
                             file=str(prog.modules[fi.module].path), line=n.lineno))

    # ---- R3: purity of computing entry points (interpreted event logs) ------------------
    def purity(label, results):
        for r in results:
            for e in r["events"]:
                bad = None
                if e["kind"] == "register_buffer" and isinstance(e.get("obj"), Obj) and "instruments" in e["obj"].cls:
                    bad = f"registers buffer {e['name']} on {e['obj']!r}"
                if e["kind"] == "call" and e["callee"].rsplit(".", 1)[-1] in WRITERS and "instruments" in e["callee"]:
                    bad = f"calls {e['callee']}"
                if e["kind"] == "obj_setattr" and isinstance(e.get("obj"), Obj) and "'" not in e["obj"].name and "#" not in e["obj"].name and not e["attr"].startswith("__") \
                        and (".instruments." in e["obj"].cls or ".features." in e["obj"].cls or (e["obj"].cls.endswith(".Hedger") and e["attr"].startswith("_"))) and e["attr"] not in ("training",):
                    # an attribute stored on an instrument, derivative, feature or the hedger itself, that existed before the call, outlives it (memoised
                    # market data, a cached binding, a kept optimiser): the next result depends on the call history
                    bad = f"stores attribute {e['attr']!r} on {e['obj']!r} (state that outlives the call)"
                if bad is None and e["kind"] in ("inplace", "dict_store"):
                    from ..purity import stores as _stores
                    st_ = _stores([{"events": [e], "raises": None}])
                    if st_:
                        bad = st_[0] + " (state that outlives the call)"
                if bad:
                    run.oblige("C16.R3", label, False, bad)
                    run.fail(Finding("C16.R3", label, bad, "a computing entry point reaches a writer of instrument state"))
                    return
        run.oblige("C16.R3", label, True, "no writer of instrument state reached")

    run.require("C16.R3", 30)
    for label, mode, ts, make in E.feature_runs(ctx):
        f = make()
        purity(f"{label}.get({mode})", interp.explore(prog.lookup_method(f.cls, "get"), [ts], {}, self_obj=f))
    d = W.option()
    for meth in ("payoff", "moneyness", "log_moneyness", "time_to_maturity", "max_moneyness", "max_log_moneyness"):
        fi = prog.lookup_method(d.cls, meth)
        if fi is None:
            raise AnalysisError(f"anchor vanished: {meth}")
        purity(f"OptionType.{meth}", interp.explore(fi, [], {}, self_obj=W.option()))
    listed = W.option("listed")
    listed.attrs["pricer"] = Sym("pricer", ("callable",))
    sp_fi = prog.lookup_method(listed.cls, "spot")
    if sp_fi is None:
        raise AnalysisError("anchor vanished: BaseDerivative.spot")
    purity("OptionType.spot (listed)", interp.explore(sp_fi, [], {}, self_obj=listed))
    for name in ("compute_hedge", "compute_pl", "compute_portfolio"):
        h = W.hedger(prog, [W.feature("Moneyness", log=False), W.feature("PrevHedge")])
        purity(f"Hedger.{name}", interp.explore(prog.lookup_method(W.HEDGER, name), [W.option()], {}, self_obj=h))
    for pn in E.PAYOFFS:
        for call in (True, False):
            purity(f"{pn}[call={call}]", interp.explore(E.functional(ctx, pn), [], dict(input=W.tensor("S", "buffer"), call=call, strike=W.fl("K"))))


_check_main = check


def check(ctx, run):  # noqa: F811
    _check_main(ctx, run)
    prog, interp = ctx.prog, ctx.interp
    run.require("C16.R4", 4)
    # Feature.of / FeatureList.of bind a copy, never the receiver
    for cq, mk in (("pfhedge.features._base.Feature", lambda: W.feature("Moneyness", log=False)),
                   ("pfhedge.features.container.FeatureList", None)):
        of = prog.lookup_method(cq, "of")  # the class's own or the one it inherits (a template method with a per-class hook)
        if of is None:
            raise AnalysisError(f"anchor vanished: {cq}.of")
        if mk is None:
            recv = Obj(cq, "flist", {"features": [W.feature("Moneyness", log=False)]})
        else:
            recv = mk()
        d2 = W.option("deriv2")
        res = [r for r in interp.explore(of, [d2, Obj(W.HEDGER, "hedger")], {}, self_obj=recv) if not r["raises"]]
        ok = bool(res)
        for r in res:
            sets = [e for e in r["events"] if e["kind"] == "obj_setattr" and e["obj"] is recv]
            ok = ok and r["value"] is not recv and not sets and any(e["kind"] == "copy" for e in r["events"])
            # ... and the copy is bound to the derivative it was asked for (a stale binding would silently use old market data)
            out_ = r["value"]
            if mk is not None:
                ok = ok and isinstance(out_, Obj) and out_.attrs.get("derivative") is d2
            else:
                feats_ = out_.attrs.get("features") if isinstance(out_, Obj) else None
                ok = ok and isinstance(feats_, list) and len(feats_) == 1 and isinstance(feats_[0], Obj) and feats_[0].attrs.get("derivative") is d2
        run.oblige("C16.R4", f"{cq.rsplit('.', 1)[-1]}.of binds a copy", ok, "")
        if not ok:
            run.fail(Finding("C16.R4", of.qualname, "output = copy.copy(self) before register_derivative/register_hedger", "binding a feature to a derivative mutates the shared feature object: results depend on what it was used with before",
                             file=str(prog.modules[of.module].path), line=of.node.lineno))
    # recurrent state is re-initialised at the start of every state-dependent hedge computation
    ch = prog.lookup_method(W.HEDGER, "compute_hedge")
    hh = W.hedger(prog, [W.feature("Moneyness", log=False), W.feature("PrevHedge")])
    hh.attrs["__buf_prev_output"] = Sym("stale_prev_output", ("tensor",))
    res = [r for r in interp.explore(ch, [W.option()], {}, self_obj=hh) if not r["raises"]]
    ok = bool(res)
    for r in res:
        from ..term import walk as _walk, Term as _Term
        stale = any(isinstance(s_, Sym) and s_.name == "stale_prev_output" for s_ in _walk(r["value"]))
        for e in r["events"]:
            if e["kind"] == "loop_begin":
                for k_, init in e.get("carried", []):
                    if isinstance(init, _Term) and any(isinstance(s_, Sym) and s_.name == "stale_prev_output" for s_ in _walk(init)):
                        stale = True
        ok = ok and not stale
    run.oblige("C16.R4", "compute_hedge does not read the prev_output left by an earlier call", ok, "")
    if not ok:
        run.fail(Finding("C16.R4", ch.qualname, "prev_output from a previous call reaches the model input", "the hedge depends on what the hedger computed before (stale recurrent state)", file=str(prog.modules[ch.module].path), line=ch.node.lineno))
    # consumers bind before they read
    for meth in ("compute_hedge", "get_input"):
        fi = prog.lookup_method(W.HEDGER, meth)
        h = W.hedger(prog, [W.feature("Moneyness", log=False)])
        args = [W.option()] if meth == "compute_hedge" else [W.option(), W.integer("i")]
        res = [r for r in interp.explore(fi, args, {}, self_obj=h) if not r["raises"]]
        ok = bool(res)
        for r in res:
            names = [e["callee"].rsplit(".", 2)[-2] + "." + e["callee"].rsplit(".", 1)[-1] for e in r["events"] if e["kind"] == "call" and e["callee"].rsplit(".", 1)[-1] in ("of", "get") and ".features." in e["callee"]]
            first_get = next((k for k, n in enumerate(names) if n.endswith(".get")), None)
            first_of = next((k for k, n in enumerate(names) if n.endswith(".of")), None)
            ok = ok and first_of is not None and (first_get is None or first_of < first_get)
        run.oblige("C16.R4", f"Hedger.{meth} binds its features with .of(derivative, ...) before reading them", ok, "")
        if not ok:
            run.fail(Finding("C16.R4", fi.qualname, "self.inputs.of(derivative, ...) before .get(...)", "features are read without being bound to the current derivative: stale state from an earlier call", file=str(prog.modules[fi.module].path), line=fi.node.lineno))


def _has_callers(prog, name):
    for m2 in prog.modules.values():
        for n in ast.walk(m2.tree):
            if isinstance(n, ast.Call) and ((isinstance(n.func, ast.Name) and n.func.id == name) or (isinstance(n.func, ast.Attribute) and n.func.attr == name)):
                return True
    return False


def standalone_site(ctx, mod, node):
    """classify the in-place effect at `node` by interpreting its enclosing function on symbolic arguments.
    -> (function qualname, [(kind, description)], has callers in the package, is private) or None"""
    prog, interp = ctx.prog, ctx.interp
    owner = None
    for q, fi in prog.functions.items():
        if fi.module == mod.name and any(n is node for n in ast.walk(fi.node)):
            if owner is None or len(q) > len(owner.qualname):
                owner = fi
    if owner is None:
        return None
    params = owner.node.args.args
    self_obj = None
    if owner.cls and not owner.is_staticmethod:
        self_obj = Obj(owner.cls, "self_")
        params = params[1:]
    kw = {p.arg: _sym_for(prog, owner.module, p.arg, p.annotation) for p in params + owner.node.args.kwonlyargs}
    try:
        res = interp.explore(owner, [], kw, self_obj=self_obj, max_paths=40)
    except Exception:
        return None
    out = []
    for r in res:
        cm = carried_map(r["events"])
        for e in r["events"]:
            if e["kind"] == "inplace" and e.get("node") is node:
                how = e["how"]
                if how.startswith("method:") and how[7:] in EXEMPT_METHODS:
                    out.append(("exempt", EXEMPT_METHODS[how[7:]]))
                    continue
                v = root(e["target"], cm)
                desc = f"view of {v[1]}" if v[0] == "alias" else str(v[1])
                out.append((v[0], desc))
    if not out:
        return None
    name = owner.node.name
    has_callers = False
    for m2 in prog.modules.values():
        for n in ast.walk(m2.tree):
            if isinstance(n, ast.Call) and ((isinstance(n.func, ast.Name) and n.func.id == name) or (isinstance(n.func, ast.Attribute) and n.func.attr == name)):
                has_callers = True
    return owner.qualname, out, has_callers, name.startswith("_")


# ------------------------------------------------------------------------------------------------ thorough: whole-package scan
CONTAINER_ATTRS = {"_features", "_clauses", "_modules", "_underliers", "_buffers"}


def _sym_for(prog, module, name, ann):
    a = ast.unparse(ann) if ann is not None else ""
    if "Tensor" in a and "Callable" not in a:
        return W.tensor(name)
    if a == "float":
        return W.fl(name)
    if a == "int":
        return W.integer(name)
    if a == "bool":
        return Sym(name, ("bool",))
    if a == "str":
        return Sym(name, ("str",))
    if "Callable" in a:
        return Sym(name, ("callable",))
    q = prog.resolve_name(module, a.strip("'\"").replace("Optional[", "").rstrip("]")) if a else None
    if q in prog.classes:
        return Obj(q, name)
    return Sym(name)


def whole_package_scan(ctx, run):
    """interpret every function of the package on symbolic arguments and classify the target of every in-place effect"""
    prog, interp = ctx.prog, ctx.interp
    analysed, skipped = 0, []
    for q, fi in sorted(prog.functions.items()):
        if fi.node.name.startswith("__") and fi.node.name != "__call__":
            continue
        if "_utils.testing" in q or "_utils.doc" in q:
            continue
        params = fi.node.args.args
        self_obj = None
        if fi.cls and not fi.is_staticmethod:
            self_obj = Obj(fi.cls, "self_")
            params = params[1:]
        kw = {p.arg: _sym_for(prog, fi.module, p.arg, p.annotation) for p in params + fi.node.args.kwonlyargs}
        try:
            res = interp.explore(fi, [], kw, self_obj=self_obj, max_paths=40)
        except Exception as ex:  # not interpretable on generic arguments: covered by the anchored runs or by the syntactic coverage rule
            skipped.append(q)
            continue
        analysed += 1
        run.functions.add(q)
        for r in res:
            cm = carried_map(r["events"])
            for e in r["events"]:
                if e["kind"] != "inplace":
                    continue
                how = e["how"]
                if how.startswith("method:") and how[7:] in EXEMPT_METHODS:
                    continue
                v = root(e["target"], cm)
                node = e.get("node")
                text = ast.unparse(node) if node is not None else how
                ok, reason = v[0] == "fresh", str(v[1])
                if v[0] == "opaque":
                    role = (v[1].name if isinstance(v[1], Sym) else str(v[1])).split(".")[-1]
                    if role in OPAQUE_OK:
                        ok, reason = True, OPAQUE_OK[role]
                if v[0] == "alias" and isinstance(v[1], Sym) and v[1].name.split(".")[-1] in CONTAINER_ATTRS and "tensor" not in v[1].tags:
                    ok, reason = True, "Python container of the object (registry), not tensor storage"
                if v[0] == "alias" and isinstance(v[1], Sym) and {"int", "float"} & v[1].tags:
                    ok, reason = True, "Python number"
                if not ok and e["fn"] == q and fi.node.name.startswith("_") and not _has_callers(prog, fi.node.name):
                    ok, reason = True, f"writes into {reason}, but the function is private and nothing in the package calls it"
                run.oblige("C16.R1w", f"{e['fn']}:{text}", ok, f"{how}: {reason}")
                if not ok:
                    f2 = prog.functions.get(e["fn"])
                    run.fail(Finding("C16.R1", e["fn"], text, f"in-place {how} on storage that is not fresh: {reason} (whole-package scan from {q})",
                                     file=str(prog.modules[f2.module].path) if f2 else None, line=getattr(node, "lineno", None)))
    run.notes.append(f"whole-package scan: {analysed} functions interpreted on symbolic arguments, {len(skipped)} not interpretable: {skipped[:12]}")
    if analysed < 250:
        raise AnalysisError(f"whole-package scan interpreted only {analysed} functions")


_check_quick = check


def check(ctx, run):  # noqa: F811
    _check_quick(ctx, run)
    if ctx.tier == "thorough":
        whole_package_scan(ctx, run)
    # R7: call histories of the derivative's own registries (pfsa/registry.py): what a derivative hands out depends on what is registered
    # now, not on which reads and writes came before
    from ..registry import histories_rule
    histories_rule(ctx, run, "C16.R7")
    from ..registry import primary_histories_rule
    primary_histories_rule(ctx, run, "C16.R7")
    from ..registry import resimulation_rule
    resimulation_rule(ctx, run, "C16.R7")
    from ..registry import reconfigure_rule
    reconfigure_rule(ctx, run, "C16.R7")
    # every history of at most 2 (thorough: 4) registry operations on every derivative class against the reference semantics
    from ..registry import exhaustive_histories_rule
    import os as _os
    ncpu = _os.cpu_count() or 1
    if ctx.tier == "thorough":
        exhaustive_histories_rule(ctx, run, "C16.R7x", 4 if ncpu >= 8 else 3, jobs=max(1, min(16, ncpu)))
    else:
        exhaustive_histories_rule(ctx, run, "C16.R7x", 2)
    from ..registry import hedger_histories_rule
    hedger_histories_rule(ctx, run, "C16.R8")
    # R3m: the built-in model modules keep nothing between calls (a memoised output is served to the next derivative, in the first one's dtype,
    # and handed out again after the caller has modified it)
    from ..purity import builtin_model_runs, stores
    n_m = 0
    for short, fwd, _inp, res in builtin_model_runs(ctx):
        if not res:
            continue
        n_m += 1
        st = stores(res)
        run.oblige("C16.R3m", f"{short}.forward keeps no state on the module", not st, "; ".join(st))
        if st:
            run.fail(Finding("C16.R3m", fwd.qualname, f"{short}.forward: " + "; ".join(st)[:260], "what one call leaves on the model is read by the next call: the hedge depends on what the hedger was used with before",
                             file=str(ctx.prog.modules[fwd.module].path), line=fwd.node.lineno))
    run.require("C16.R3m", 5)
    if n_m < 5:
        raise AnalysisError(f"only {n_m} built-in model forwards could be interpreted")


def python_scalar_local(prog, mod, aug):
    """`x += ...` where x is a local of the enclosing function that is only ever bound to Python numbers / strings / counters built from
    them (initialised with a literal, an int()/len()/str() call or a string expression): an immutable Python object, not tensor storage"""
    fn = next((f_.node for f_ in prog.functions.values() if f_.module == mod.name and any(n_ is aug for n_ in ast.walk(f_.node))), None)
    if fn is None:
        return False
    name = aug.target.id
    if name in {a.arg for a in fn.args.args + fn.args.kwonlyargs}:
        return False

    def scalar(v):
        if isinstance(v, ast.Constant):
            return isinstance(v.value, (int, float, str, bool))
        if isinstance(v, ast.JoinedStr):
            return True
        if isinstance(v, ast.Call) and isinstance(v.func, ast.Name) and v.func.id in ("int", "len", "str", "float", "repr"):
            return True
        if isinstance(v, ast.Call) and isinstance(v.func, ast.Attribute) and v.func.attr in ("join", "format", "extra_repr", "_get_name", "__repr__", "_dinfo"):
            return True
        if isinstance(v, ast.BinOp):
            return scalar(v.left) or scalar(v.right)
        if isinstance(v, ast.Name):
            return v.id == name
        return False
    binds = [n_.value for n_ in ast.walk(fn) if isinstance(n_, ast.Assign) and any(isinstance(t_, ast.Name) and t_.id == name for t_ in n_.targets)]
    binds += [n_.value for n_ in ast.walk(fn) if isinstance(n_, ast.AugAssign) and isinstance(n_.target, ast.Name) and n_.target.id == name]
    inits = [n_.value for n_ in ast.walk(fn) if isinstance(n_, ast.Assign) and any(isinstance(t_, ast.Name) and t_.id == name for t_ in n_.targets)]
    return bool(inits) and all(scalar(v) for v in inits) and all(scalar(v) or isinstance(v, (ast.Constant, ast.Name, ast.Call, ast.BinOp, ast.JoinedStr, ast.Attribute, ast.IfExp)) for v in binds)


def factory_purity(ctx, run):
    from ..purity import stores
    # R3f: building a pricing module for a derivative leaves nothing on the derivative or on the factory (a module remembered with the
    # derivative keeps the strike and call flag of the first request)
    from ..interp import ClassRef
    from ..term import Sym as _Sym
    from .c07 import MOD as _MOD, MODULES as _MODULES
    prog, interp = ctx.prog, ctx.interp
    FQ = "pfhedge.nn.modules.bs.black_scholes.BlackScholesModuleFactory"
    gfi = prog.lookup_method(FQ, "get_class_from_derivative")
    if gfi is None:
        raise AnalysisError("anchor vanished: BlackScholesModuleFactory.get_class_from_derivative")
    registry = {dname: ClassRef(_MOD + mq) for mq, (fam, dname) in _MODULES.items()}
    for mq, (fam, dname) in _MODULES.items():
        dq = next((c for c in prog.classes if c.endswith("." + dname) and ".instruments.derivative." in c), None)
        if dq is None:
            raise AnalysisError(f"anchor vanished: derivative class {dname}")
        fac = Obj(FQ, "factory", {"_modules": dict(registry)})
        d_ = Obj(dq, "deriv", {"call": _Sym("d.call", ("bool",)), "strike": W.fl("d.strike")})
        try:
            res_f = interp.explore(gfi, [d_], {}, self_obj=fac)
        except Unsupported as ex:
            raise AnalysisError(f"get_class_from_derivative({dname}): {ex}")
        st = stores(res_f)
        run.oblige("C16.R3f", f"BlackScholes({dname}) leaves nothing on the derivative or the factory", not st, "; ".join(st))
        if st:
            run.fail(Finding("C16.R3f", gfi.qualname, f"{dname}: " + "; ".join(st)[:260], "a later request for the same derivative is answered with the module of the first one: its strike / call flag at that time",
                             file=str(prog.modules[gfi.module].path), line=gfi.node.lineno))
    run.require("C16.R3f", 4)


_check_before_r3f = check


def check(ctx, run):  # noqa: F811
    factory_purity(ctx, run)  # first: the coverage scan below stops on an in-place site no entry point reaches
    _check_before_r3f(ctx, run)
