"""C13 - the time grid matches maturity and step size.
R1 all primary instruments pass n_steps = ceil(time_horizon/dt)+1, dt=self.dt, n_paths and the (default) initial state to
their generator; R2 BaseDerivative.simulate passes maturity as horizon to every underlier and every derivative class uses it;
R3 ceil/floor of an unguarded float quotient; R4 time_to_maturity(i) == (T-1-i)*dt in both branches.
Added after the seeded-defect rounds: R5 the time grid is not memoised; Python-level counts (ceil(maturity/dt)) are not the grid length; concrete derivative classes do not replace time_to_maturity.
Third round: R1i initial-state forwarding; R7 underlier registry and re-simulation histories; R8 time-dependent coefficients are evaluated at i*dt; int()/floor-division are rounding hazards.
Rounds 4-5: R4p the time grid is computed in the dtype of the prices."""
import ast

import sympy as sp

from .. import world as W
from ..colalg import Col, T
from ..interp import Obj, Unsupported
from ..primaries import default_init, primary_classes, simulate_facts
from ..report import AnalysisError, Finding, single
from ..term import Op, Sym, walk

DERIVATIVES = ["european.EuropeanOption", "lookback.LookbackOption", "european_binary.EuropeanBinaryOption", "american_binary.AmericanBinaryOption",
               "cliquet.EuropeanForwardStartOption", "variance_swap.VarianceSwap"]


def nsteps_normal(t, h, dt):
    """True iff t == ceil(h/dt) + 1 in one of the accepted spellings (optionally with a rounding guard)."""
    def quotient(x):
        x = strip_guard(x)
        return isinstance(x, Op) and x.op == "div" and x.args[0] == h and x.args[1] == dt
    if isinstance(t, Op) and t.op == "py_int" and t.args:
        t = t.args[0]
    if isinstance(t, Op) and t.op == "py_ceil":
        a = t.args[0]
        if isinstance(a, Op) and a.op == "add" and ((quotient(a.args[0]) and a.args[1] == 1) or (quotient(a.args[1]) and a.args[0] == 1)):
            return True
    if isinstance(t, Op) and t.op == "add":
        for x, y in (t.args, t.args[::-1]):
            if y == 1 and isinstance(x, Op) and x.op == "py_ceil" and quotient(x.args[0]):
                return True
    return False


def is_guard(x):
    """round(q, d) with a literal 6 <= d <= 12: absorbs floating-point noise of a quotient of step counts (spacing < 1e-10 up to ~1e5 steps)
    and leaves every ratio that is not within 1e-6 of an integer alone.  round(q) without digits is NOT a guard: it changes non-integer ratios."""
    if not (isinstance(x, Op) and x.op in ("py_round", "ext:builtins.round")):
        return False
    d = x.args[1] if len(x.args) > 1 else x.kwd().get("ndigits")
    return isinstance(d, int) and not isinstance(d, bool) and 6 <= d <= 12


def strip_guard(x):
    return x.args[0] if is_guard(x) else x


def rounding_guarded(t):
    """every ceil/floor in t is applied to a guarded quotient (possibly plus an integer)"""
    for s in walk(t):
        if isinstance(s, Op) and s.op == "floordiv":
            return False  # a // b of floats truncates the raw quotient
        if isinstance(s, Op) and s.op in ("py_ceil", "py_floor", "py_int"):
            a = s.args[0]
            if s.op == "py_int" and isinstance(a, Op) and a.op in ("py_ceil", "py_floor", "py_round"):
                continue  # int() of an integer-valued float
            parts = list(a.args) if isinstance(a, Op) and a.op == "add" else [a]
            quot = [q for q in parts if not (isinstance(q, int) and not isinstance(q, bool))]
            if not quot or not all(is_guard(q) for q in quot):
                return False
    return True


def check(ctx, run):
    prog, interp = ctx.prog, ctx.interp
    run.trusted += ["sibling table of the primary instruments", "column algebra (C03)"]
    classes = primary_classes(prog)
    run.require("C13.R1", 8)
    run.require("C13.R2", 7)
    run.require("C13.R3", 9)
    run.require("C13.R4", 2)
    h, N = W.fl("h"), W.integer("N")
    for cls in classes:
        short = cls.rsplit(".", 1)[-1]
        for init_given in (False, True):
            sim, facts = simulate_facts(ctx, cls, init_given)
            run.functions.add(sim.qualname)
            for f in facts:
                g = f["gen"]
                problems = []
                if g is None:
                    problems.append("no generator call")
                else:
                    kw = g["kwargs"]
                    dt = Sym("stock.dt")
                    if not nsteps_normal(kw.get("n_steps"), h, dt):
                        problems.append(f"n_steps = {kw.get('n_steps')} is not ceil(time_horizon/self.dt)+1")
                    if kw.get("dt") != dt:
                        problems.append(f"dt = {kw.get('dt')} is not self.dt")
                    if kw.get("n_paths") != N:
                        problems.append("n_paths not forwarded")
                    ini = kw.get("init_state")
                    if init_given:
                        if not (isinstance(ini, tuple) and all(isinstance(x, Sym) and x.name == f"init{k}" for k, x in enumerate(ini))):
                            problems.append(f"given init_state not forwarded ({str(ini)[:40]})")
                    else:
                        d = default_init(ctx, cls)
                        if strip_cast(ini) != d:
                            problems.append(f"default init_state {str(ini)[:50]} differs from default_init_state {str(d)[:50]}")
                ok = not problems
                run.oblige("C13.R1", f"{short}.simulate[init {'given' if init_given else 'default'}]", ok, "; ".join(problems) or f"n_steps={g['kwargs'].get('n_steps')}",
                           sample={"rule": "C13.R1", "class": short, "n_steps": str(g["kwargs"].get("n_steps")) if g else None})
                if not ok:
                    run.fail(Finding("C13.R1", sim.qualname, "; ".join(problems), "the instrument does not simulate on the grid ceil(horizon/dt)+1 with its own dt / requested paths / initial state",
                                     file=str(prog.modules[sim.module].path), line=sim.node.lineno))
                # R3 hazard
                if g is not None and not init_given:
                    ns = g["kwargs"].get("n_steps")
                    hazard = any(isinstance(s, Op) and s.op in ("py_ceil", "py_floor") for s in walk(ns)) and not rounding_guarded(ns)
                    run.oblige("C13.R3", f"{short}.simulate", not hazard, f"{ns}")
                    if hazard:
                        run.fail(Finding("C13.R3", sim.qualname, hazard_key(ns), "ceil of an unguarded float quotient: a horizon that is an exact multiple of dt up to rounding yields one step too many",
                                         file=str(prog.modules[sim.module].path), line=sim.node.lineno, witness="maturity=29/365, dt=1/365 -> 31 points (30 expected)"))
    # ---- R2
    bsim = prog.method("pfhedge.instruments.derivative.base.BaseDerivative.simulate")
    if bsim is None:
        raise AnalysisError("anchor vanished: BaseDerivative.simulate")
    d = W.option()
    ua, ub = Obj(W.PRIMARY, "uA"), Obj(W.PRIMARY, "uB")
    d.attrs["__underliers__"] = [ua, ub]
    d.attrs["underlier"] = ua
    d.attrs["maturity"] = W.fl("maturity")
    res = [r for r in interp.explore(bsim, [], dict(n_paths=N, init_state=Sym("init", ("tuple",))), self_obj=d) if not r["raises"]]
    calls = [e for r in res for e in r["events"] if e["kind"] == "abstract_call" or (e["kind"] == "call" and e["callee"].endswith(".simulate") and e["callee"] != bsim.qualname)]
    ok = len(res) == 1
    seen = []
    for r in res:
        for e in r["events"]:
            if e["kind"] == "abstract_call" and e["callee"].endswith("BasePrimary.simulate"):
                seen.append(getattr(e["recv"], "name", None))
    # abstract simulate: arguments are visible in the preceding 'call' events
    sims = [e for r in res for e in r["events"] if e["kind"] == "call" and e["callee"].endswith("BasePrimary.simulate")]
    good = [e for e in sims if e["kwargs"].get("time_horizon") == W.fl("maturity") and e["kwargs"].get("n_paths") == N and e["kwargs"].get("init_state") == Sym("init", ("tuple",))]
    ok = ok and [getattr(e["recv"], "name", None) for e in good] == ["uA", "uB"]
    run.oblige("C13.R2", "BaseDerivative.simulate", ok, f"simulate calls: {[(getattr(e['recv'],'name',None), {k: str(v) for k, v in e['kwargs'].items()}) for e in sims]}")
    if not ok:
        run.fail(Finding("C13.R2", bsim.qualname, "underlier.simulate(n_paths=n_paths, time_horizon=self.maturity, init_state=init_state) for every underlier",
                         "the derivative does not simulate every underlier over its maturity", file=str(prog.modules[bsim.module].path), line=bsim.node.lineno))
    for dn in DERIVATIVES:
        q = "pfhedge.instruments.derivative." + dn
        if q not in prog.classes:
            raise AnalysisError(f"anchor vanished: {q}")
        fi = prog.lookup_method(q, "simulate")
        ok = fi is not None and fi.qualname == bsim.qualname
        run.oblige("C13.R2", dn + ".simulate", ok, f"resolves to {fi.qualname if fi else None}")
        if not ok:
            run.fail(Finding("C13.R2", q, "simulate", f"simulate resolves to {fi.qualname if fi else None}, not BaseDerivative.simulate", file=str(prog.modules[prog.classes[q].module].path), line=prog.classes[q].node.lineno))
    forward_start_index_hazard(ctx, run, "C13.R3")
    # ---- R4
    time_to_maturity_rule(ctx, run)
    negative_step_rule(ctx, run)
    from .c02 import option_classes_use_the_mixin
    option_classes_use_the_mixin(ctx, run, "C13.R4")


def forward_start_index_hazard(ctx, run, rule):
    """the start column of the forward-start option, read off the call payoff_fn makes to the payoff functional (whether the index is computed
    in a helper method or inline): floor / int of a quotient of floats must be guarded against rounding"""
    prog, interp = ctx.prog, ctx.interp
    cq = "pfhedge.instruments.derivative.cliquet.EuropeanForwardStartOption"
    pf = prog.lookup_method(cq, "payoff_fn")
    if pf is None:
        raise AnalysisError("anchor vanished: EuropeanForwardStartOption.payoff_fn")
    dd = W.option(cls=cq)
    dd.attrs.setdefault("start", W.fl("start"))
    try:
        res = [r for r in interp.explore(pf, [], {}, self_obj=dd) if not r["raises"]]
    except Unsupported as ex:
        raise AnalysisError(f"EuropeanForwardStartOption.payoff_fn: {ex}")
    vals = []
    for r in res:
        for e in r["events"]:
            if e["kind"] == "call" and e["callee"].endswith("european_forward_start_payoff"):
                fparams = [a.arg for a in prog.functions[e["callee"]].node.args.args]
                kw = dict(e["kwargs"])
                for k_, v_ in zip(fparams, e["args"]):
                    kw[k_] = v_
                if "start_index" in kw:
                    vals.append(kw["start_index"])
    if not vals:
        raise AnalysisError("EuropeanForwardStartOption.payoff_fn: the start index handed to european_forward_start_payoff was not found")
    si = prog.method(cq + "._start_index") or pf
    for val in vals[:1]:
        hazard = any(isinstance(s, Op) and s.op in ("py_floor", "py_ceil", "py_int", "floordiv") for s in walk(val)) and not rounding_guarded(val)
        run.oblige(rule, "EuropeanForwardStartOption: start index", not hazard, str(val))
        if hazard:
            run.fail(Finding(rule, si.qualname, hazard_key(val), "floor of an unguarded float quotient: a start time that is an exact multiple of dt up to rounding selects the previous step",
                             file=str(prog.modules[si.module].path), line=si.node.lineno, witness="start=4.3, dt=0.1 -> index 42 (43 expected)"))


def time_to_maturity_rule(ctx, run):
    prog, interp = ctx.prog, ctx.interp
    for mode, ts in (("step", W.integer("i")), ("batch", None)):
        d = W.option()
        fi = prog.lookup_method(d.cls, "time_to_maturity")
        val = single(interp.explore(fi, [ts], {}, self_obj=d))["value"]
        C = Col()
        i = C.scalar(W.integer("i"))
        try:
            got = C.col(val, i if mode == "batch" else sp.Symbol("unused"))
        except (NotImplementedError, ValueError) as ex:
            raise AnalysisError(f"time_to_maturity [{mode}]: column algebra cannot model {ex}")
        dt = C.scalar(Sym("deriv.ul.dt"))
        ok = sp.simplify(got - dt * (T - 1 - i)) == 0
        run.oblige("C13.R4", f"time_to_maturity[{mode}]", ok, f"{got}", sample={"rule": "C13.R4", "branch": mode, "value_at_step_i": str(got)})
        if not ok:
            run.fail(Finding("C13.R4", fi.qualname, f"{mode} branch: {got}", "time to maturity at step i is not (T-1-i)*dt", file=str(prog.modules[fi.module].path), line=fi.node.lineno, case=mode))


def negative_step_rule(ctx, run):
    """R4 (negative indices): time_to_maturity(-1) is the last column, i.e. zero"""
    prog, interp = ctx.prog, ctx.interp
    d = W.option()
    fi = prog.lookup_method(d.cls, "time_to_maturity")
    res = [r for r in interp.explore(fi, [-1], {}, self_obj=d) if not r["raises"]]
    if len(res) != 1:
        raise AnalysisError("time_to_maturity(-1): expected one path")
    C = Col()
    try:
        got = sp.simplify(C.col(res[0]["value"], sp.Symbol("unused")))
    except (ValueError, NotImplementedError) as ex:
        raise AnalysisError(f"time_to_maturity(-1): {ex}")
    ok = got == 0
    run.oblige("C13.R4", "time_to_maturity[step=-1] is zero (negative indices count from the end)", ok, str(got))
    if not ok:
        run.fail(Finding("C13.R4", fi.qualname, f"step -1: {got}", "a negative step index must address the grid from its end, so step -1 has zero time to maturity", file=str(prog.modules[fi.module].path), line=fi.node.lineno, case="step=-1"))


def strip_cast(t):
    while isinstance(t, Op) and t.op.startswith("ext:typing.cast"):
        t = t.args[1]
    return t


def hazard_key(t):
    """rounding operator + the float quotient it is applied to, independent of how the +1 is spelled"""
    for s_ in walk(t):
        if isinstance(s_, Op) and s_.op in ("py_ceil", "py_floor"):
            q = [x for x in walk(s_) if isinstance(x, Op) and x.op == "div"]
            return f"{s_.op[3:]}({q[0] if q else s_.args[0]})"
    return str(t)


def norm_call(fi, name):
    for n in ast.walk(fi.node):
        if isinstance(n, ast.Call) and ast.unparse(n.func).endswith(name):
            return ast.unparse(n)
    return name


_check_before_purity = check


def check(ctx, run):  # noqa: F811
    _check_before_purity(ctx, run)
    from .c02 import no_memoised_state
    no_memoised_state(ctx, run, "C13.R5", "a time grid remembered from another derivative / step size is reused")


_check_before_ctors = check


def check(ctx, run):  # noqa: F811
    _check_before_ctors(ctx, run)
    from ..ctors import ctor_rule
    from ..primaries import primary_classes
    ctor_rule(ctx, run, "C13.R6", primary_classes(ctx.prog), {"dt"}, "the step size simulate() and time_to_maturity read (self.dt) is not the one the instrument was created with")
    ctor_rule(ctx, run, "C13.R6", ["pfhedge.instruments.derivative." + c for c in ("european.EuropeanOption", "lookback.LookbackOption", "european_binary.EuropeanBinaryOption", "american_binary.AmericanBinaryOption", "cliquet.EuropeanForwardStartOption", "variance_swap.VarianceSwap")], {"maturity", "underlier"}, "the maturity / underlier the grid is built from is not the one the derivative was created with")
    from ..primaries import init_forwarding_rule
    init_forwarding_rule(ctx, run, "C13.R1i")
    from ..registry import histories_rule
    histories_rule(ctx, run, "C13.R7", only=("rebind", "re-register", "second"))
    # R8: a coefficient that depends on calendar time is evaluated on the grid of the prices (t_i = i dt)
    from . import c10 as _c10
    from .. import entrypoints as _E
    q_ = _c10.S + "local_volatility.generate_local_volatility_process"
    for q, fi, kw in _E.generator_runs(ctx):
        if q == q_:
            try:
                res_ = ctx.interp.explore(fi, [], kw, max_paths=200)
            except Unsupported as ex:
                raise AnalysisError(f"{q}: {ex}")
            _c10.moments_local_vol(ctx, run, res_, rule="C13.R8", grid_only=True)
    run.require("C13.R8", 1)
    from ..registry import resimulation_rule
    resimulation_rule(ctx, run, "C13.R7", only=("resim-state",))
    # R4p: the grid is computed in the dtype of the prices (an integer grid times a Python float is a float32 tensor: converted afterwards, a
    # float64 time to maturity is off the (T-1-i)*dt grid by 1e-8 and differs between the single-step and the all-steps form)
    from ..dtypes import Provenance
    from ..precision import lossy
    mixq = "pfhedge.instruments.derivative.base.OptionMixin"
    tfi = ctx.prog.lookup_method(mixq, "time_to_maturity")
    if tfi is None:
        raise AnalysisError("anchor vanished: OptionMixin.time_to_maturity")
    for mode, ts in (("step", W.integer("i")), ("all steps", None)):
        res_ = [r for r in ctx.interp.explore(tfi, [ts], {}, self_obj=W.option()) if not r["raises"]]
        if not res_:
            raise AnalysisError(f"time_to_maturity ({mode}): no analysable path")
        bad_ = lossy(res_, None)
        for r in res_:
            pv = Provenance()
            pv.of(r["value"])
            bad_ += [f"{str(t.args[0])[:100]} is computed in a float dtype unrelated to the prices and converted afterwards" for t, v in pv.narrowed]
        run.oblige("C13.R4p", f"time_to_maturity [{mode}] is computed at the precision of the prices", not bad_, "; ".join(bad_))
        if bad_:
            run.fail(Finding("C13.R4p", tfi.qualname, f"{mode}: {bad_[0]}"[:300], "time to maturity is only float32-accurate for a float64 instrument: off the (T-1-i)*dt grid at working precision",
                             file=str(ctx.prog.modules[tfi.module].path), line=tfi.node.lineno, case=mode))
    run.require("C13.R4p", 2)
