"""C02 - hedges are non-anticipative and never trade at maturity.
R1 adaptedness of every built-in feature in both modes (window domain); R2 only inputs.get(step) reaches the model;
R3 the last column is a copy of the previous one and the loop covers steps 0..T-2; R4 built-in models read their input only.
Added after the seeded-defect rounds: R5 FeatureList/ModuleOutput identities; R6 features and the option mixin keep no memoised state; R7 the recurrent input is zero at step 0 and the previous step's output afterwards (facts of C03.R3); concrete derivative classes do not replace the mixin methods; R2/R3 on every path.
Third round: R1 also: the option mixin's own moneyness / running-maximum methods in both modes (default parameters of the path-dependent Black-Scholes pricers).
Rounds 4-5: R4t built-in models do not look ahead along the time axis; R9 features and containers keep what they are given; public names are the definitions of that name."""
import ast

import sympy as sp

from .. import entrypoints as E
from .. import world as W
from ..interp import Obj, Unsupported
from ..report import AnalysisError, Finding
from ..term import Op, Sym, Term, walk
from ..window import T, Window, j


def le(hi, bound):
    """hi <= bound for all admissible values (bound is i or j)"""
    hi = sp.simplify(hi)
    if isinstance(hi, sp.Min):
        return any(le(a, bound) for a in hi.args)
    if isinstance(hi, sp.Max):
        return all(le(a, bound) for a in hi.args)
    d = sp.simplify(hi - bound)
    return d == 0 or d.is_nonpositive is True


def check(ctx, run):
    prog, interp = ctx.prog, ctx.interp
    run.trusted += ["operator table: which operators read along the time axis"]
    run.assumptions += ["user models act on the last axis only", "a listed derivative's pricer is adapted"]
    run.require("C02.R1", 47)
    # ---- R1
    for label, mode, ts, make in E.feature_runs(ctx):
        f = make()
        get = prog.lookup_method(f.cls, "get")
        run.functions.add(get.qualname)
        try:
            res = interp.explore(get, [ts], {}, self_obj=f)
        except Unsupported as ex:
            raise AnalysisError(f"{get.qualname}: {ex}")
        for r in res:
            if r["raises"]:
                continue
            w = Window(market_names={"deriv.pricer"})
            try:
                d = w.of(r["value"])
            except (ValueError, KeyError) as ex:
                raise AnalysisError(f"{get.qualname} ({mode}): window analysis cannot model {ex}")
            bound = j if mode == "batch" else w.env.get("i", sp.Symbol("i", integer=True, nonnegative=True))
            bad = [(k, lo, hi) for k, (lo, hi) in d.deps.items() if not le(hi, bound)]
            ok = not bad
            run.oblige("C02.R1", f"{label}.get({mode})", ok, f"reads {d}",
                       sample={"rule": "C02.R1", "feature": label, "mode": mode, "columns_read": str(d)})
            if not ok:
                k, lo, hi = bad[0]
                run.fail(Finding("C02.R1", get.qualname, f"{label} {mode}: reads {k} columns [{sp.simplify(lo)}, {sp.simplify(hi)}]",
                                 f"the feature value for {'column j' if mode == 'batch' else 'step i'} may read columns up to {sp.simplify(hi)} of {k}: anticipative",
                                 file=str(prog.modules[get.module].path), line=get.node.lineno, case=mode))
    # the option mixin's own methods: the Black-Scholes modules take their default parameters from them (a listed lookback or
    # American binary option priced that way is read by the "spot" feature), so they are adapted on their own account as well
    MIX = "pfhedge.instruments.derivative.base.OptionMixin"
    if MIX not in prog.classes:
        raise AnalysisError("anchor vanished: OptionMixin")
    for meth, kws in (("moneyness", ({"log": False}, {"log": True})), ("log_moneyness", ({},)),
                      ("max_moneyness", ({"log": False}, {"log": True})), ("max_log_moneyness", ({},))):
        fi = prog.lookup_method(MIX, meth)
        if fi is None:
            raise AnalysisError(f"anchor vanished: OptionMixin.{meth}")
        run.functions.add(fi.qualname)
        for kw in kws:
            for mode, ts in (("step", W.integer("i")), ("batch", None)):
                label = f"OptionMixin.{meth}({', '.join(f'{k}={v}' for k, v in kw.items())})"
                try:
                    res = interp.explore(fi, [ts], dict(kw), self_obj=W.option())
                except Unsupported as ex:
                    raise AnalysisError(f"{fi.qualname}: {ex}")
                live = [r for r in res if not r["raises"]]
                if not live:
                    raise AnalysisError(f"{fi.qualname} ({mode}): no analysable path")
                for r in live:
                    w = Window(market_names={"deriv.pricer"})
                    try:
                        d = w.of(r["value"])
                    except (ValueError, KeyError) as ex:
                        raise AnalysisError(f"{fi.qualname} ({mode}): window analysis cannot model {ex}")
                    bound = j if mode == "batch" else w.env.get("i", sp.Symbol("i", integer=True, nonnegative=True))
                    bad = [(k, lo, hi) for k, (lo, hi) in d.deps.items() if not le(hi, bound)]
                    run.oblige("C02.R1", f"{label} ({mode})", not bad, f"reads {d}",
                               sample={"rule": "C02.R1", "method": label, "mode": mode, "columns_read": str(d)})
                    if bad:
                        k, lo, hi = bad[0]
                        run.fail(Finding("C02.R1", fi.qualname, f"{label} {mode}: reads {k} columns [{sp.simplify(lo)}, {sp.simplify(hi)}]",
                                         f"the value for {'column j' if mode == 'batch' else 'step i'} may read columns up to {sp.simplify(hi)} of {k}: anticipative "
                                         "(the Black-Scholes modules take this as a default parameter of a listed derivative's pricer)",
                                         file=str(prog.modules[fi.module].path), line=fi.node.lineno, case=mode))
    # PrevHedge
    ph = W.feature("PrevHedge", hedger=Obj(W.HEDGER, "hedger"))
    res = interp.explore(prog.lookup_method(ph.cls, "get"), [W.integer("i")], {}, self_obj=ph)
    ok = all(not any(isinstance(s, Sym) and "buffer" in s.tags and "prev_output" not in s.name for s in walk(r["value"])) for r in res if not r["raises"])
    run.oblige("C02.R1", "PrevHedge.get(step)", ok, "reads the hedger's prev_output buffer only")

    # ---- R2 / R3 on compute_hedge
    ch = prog.lookup_method(W.HEDGER, "compute_hedge")
    if ch is None:
        raise AnalysisError("anchor vanished: Hedger.compute_hedge")
    run.require("C02.R2", 2)
    run.require("C02.R3", 2)
    for name, feats in (("vectorised", ["Moneyness"]), ("state-dependent", ["Moneyness", "PrevHedge"])):
        fobjs = [W.feature(c, **({"log": False} if c == "Moneyness" else {})) for c in feats]
        h = W.hedger(prog, fobjs)
        res = [r for r in interp.explore(ch, [W.option()], {}, self_obj=h) if not r["raises"]]
        if not res:
            raise AnalysisError(f"compute_hedge ({name}): no analysable path")
        base_name = name
        for r in res:
            # a data-dependent decision inside the branch (e.g. on output.requires_grad) gives several paths: each must satisfy R2 and R3
            name = base_name + ("" if len(res) == 1 else "|" + ",".join(f"{str(c)[:40]}={d}" for c, d, _ in r["cond"]))
            calls = [e for e in r["events"] if e["kind"] == "opaque_call" and isinstance(e["callee"], Sym) and e["callee"].name == "model"]
            loops = [e for e in r["events"] if e["kind"] == "loop_begin"]
            # R2: what reaches the model
            ok2 = bool(calls)
            detail = ""
            for c in calls:
                arg = c["args"][0]
                w = Window()
                d = w.of(arg)
                if base_name == "vectorised":
                    good = all(le(hi, j) for _, (lo, hi) in d.deps.items())
                else:
                    iv = [v for k, v in w.env.items() if k.startswith("i#")]
                    bound = iv[0] if iv else None
                    good = bound is not None and all(le(hi, bound) for _, (lo, hi) in d.deps.items())
                detail = f"model input reads {d}"
                ok2 = ok2 and good
            run.oblige("C02.R2", f"compute_hedge[{name}]", ok2, detail, sample={"rule": "C02.R2", "branch": name, "model_input": detail})
            if not ok2:
                run.fail(Finding("C02.R2", ch.qualname, f"{name} branch: {detail}", "the model is fed information beyond the current step",
                                 file=str(prog.modules[ch.module].path), line=ch.node.lineno, case=name))
            # R3: last column
            val = r["value"]
            ok3, why = last_column_is_copy(val, base_name, loops)
            run.oblige("C02.R3", f"compute_hedge[{name}]", ok3, why, sample={"rule": "C02.R3", "branch": name, "last_column": why})
            if not ok3:
                run.fail(Finding("C02.R3", ch.qualname, f"{name} branch: {why}", "the position at the final time index is not the one held over the last step",
                                 file=str(prog.modules[ch.module].path), line=ch.node.lineno, case=name))
    if ctx.tier == "thorough":
        thorough_all_features(ctx, run, ch)


def thorough_all_features(ctx, run, ch):
    """thorough tier: R2 for the hedger fed by each built-in feature in turn (alone: vectorised branch; with prev_hedge: loop branch)"""
    prog, interp = ctx.prog, ctx.interp
    n = 0
    for cls, attrs in E.FEATURE_CONFIGS:
        if cls == "Empty":
            continue
        for name, with_prev in (("vectorised", False), ("state-dependent", True)):
            f = E.make_feature(ctx, cls, attrs)
            fobjs = [f] + ([W.feature("PrevHedge")] if with_prev else [])
            h = W.hedger(prog, fobjs)
            d = f.attrs.get("derivative") or W.option()
            for fo in fobjs:
                fo.attrs["derivative"] = d
            try:
                res = [r for r in interp.explore(ch, [d], {}, self_obj=h, max_paths=50) if not r["raises"]]
            except Unsupported as ex:
                raise AnalysisError(f"compute_hedge with {cls} ({name}): {ex}")
            if not res:
                raise AnalysisError(f"compute_hedge with {cls} ({name}): no path")
            label = cls + ("" if not attrs else "[" + ",".join(f"{k}={v}" for k, v in attrs.items() if k in ("log", "up")) + "]")
            for r in res:
                calls = [e for e in r["events"] if e["kind"] == "opaque_call" and isinstance(e["callee"], Sym) and e["callee"].name == "model"]
                ok, detail = bool(calls), "model not called"
                for c in calls:
                    w = Window()
                    dd = w.of(c["args"][0])
                    if name == "vectorised":
                        good = all(le(hi, j) for _, (lo, hi) in dd.deps.items())
                    else:
                        iv = [v for k, v in w.env.items() if k.startswith("i#")]
                        good = not dd.deps or (bool(iv) and all(le(hi, iv[0]) for _, (lo, hi) in dd.deps.items()))
                    detail = f"model input reads {dd}"
                    ok = ok and good
                n += 1
                run.oblige("C02.R2", f"compute_hedge[{name}] fed by {label}", ok, detail)
                if not ok:
                    run.fail(Finding("C02.R2", ch.qualname, f"{name} branch with {label}: {detail}", "the model is fed information beyond the current step",
                                     file=str(prog.modules[ch.module].path), line=ch.node.lineno, case=f"{name},{label}"))
    if n < 30:
        raise AnalysisError(f"thorough tier covered only {n} feature/branch combinations")


def last_column_is_copy(val, name, loops):
    # strip the final transpose
    t = val
    while isinstance(t, Op) and t.op in ("transpose", "contiguous", "reshape", "view"):   # layout: C03.R4
        t = t.args[0]
    if name == "vectorised":
        if isinstance(t, Op) and t.op == "cat" and isinstance(t.args[0], (list, tuple)) and len(t.args[0]) == 2 and t.kwd().get("dim", t.args[1] if len(t.args) > 1 else None) == -2:
            # the model evaluated on steps 0..T-2 and the last position appended once more
            x, tail = t.args[0]
            okx = isinstance(tail, Op) and tail.op == "index" and tail.args[0] == x and isinstance(tail.args[1], tuple) and len(tail.args[1]) >= 2 and tail.args[1][-2] == slice(-1, None, None)
            if not okx:
                return False, f"appended column {str(tail)[:80]} is not the last column of the model output"
            ins = [s_ for s_ in walk(x) if isinstance(s_, Op) and s_.op == "index" and isinstance(s_.args[1], tuple) and len(s_.args[1]) >= 2 and s_.args[1][-2] == slice(None, -1, None)]
            if not ins:
                return False, "the model is not evaluated on steps 0..T-2 only"
            return True, "cat((model(steps 0..T-2), its last column), dim=-2)"
        if not (isinstance(t, Op) and t.op == "setitem"):
            return False, f"result is {t.op if isinstance(t, Op) else t}: the maturity column is not overwritten"
        base, idx, v = t.args
        if not (isinstance(idx, tuple) and len(idx) >= 2 and idx[-2] == -1):
            return False, f"store index {idx} is not the last time column"
        if not (isinstance(v, Op) and v.op == "index" and v.args[0] == base and isinstance(v.args[1], tuple) and v.args[1][-2] == -2):
            return False, f"stored value {str(v)[:80]} is not column T-2 of the same tensor"
        return True, "output[..., -1, :] = output[..., -2, :]"
    if not (isinstance(t, Op) and t.op in ("cat", "stack")):
        return False, f"result is {t.op if isinstance(t, Op) else t}"
    # cat of (N, 1, H) columns along the time axis or stack of (N, H) columns along a new time axis: which layout comes out is C03.R4's
    # business (shape engine); here: the sequence is one model output per step 0..T-2 followed by the last of them once more
    seq = t.args[0]
    if not (isinstance(seq, (list, tuple)) and len(seq) == 2 and isinstance(seq[0], Op) and seq[0].op == "forall"):
        return False, f"concatenated sequence has {len(seq) if isinstance(seq, (list, tuple)) else '?'} parts"
    elem, desc, body = seq[0].args
    if desc[0] != "range" or len(desc) != 2:
        return False, f"loop range {desc}"
    stop = desc[1]
    # range(n_steps - 1)
    if not (isinstance(stop, Op) and stop.op == "sub" and stop.args[1] == 1):
        return False, f"loop runs over range({stop}) instead of range(n_steps - 1)"
    from ..term import subst, mk
    expect_last = subst(body, {elem: mk("sub", stop, 1)})
    last = seq[1]
    while isinstance(last, Op) and last.op in ("clone", "contiguous", "detach", "to") and last.args and isinstance(last.args[0], (Op, Sym)):
        last = last.args[0]  # value-preserving wrappers
    if last != expect_last:
        return False, "appended final element is not the output of the last loop step"
    return True, "outputs = [model(step i) for i in range(T-1)] + [outputs[-1]]"


# ------------------------------------------------------------------------------------------------ R4
MOD = "pfhedge.nn.modules."
BSMODS = ["bs.european.BSEuropeanOption", "bs.european_binary.BSEuropeanBinaryOption", "bs.american_binary.BSAmericanBinaryOption", "bs.lookback.BSLookbackOption"]


def models_read_input_only(ctx, run):
    prog, interp = ctx.prog, ctx.interp
    run.require("C02.R4", 6)
    for mq in BSMODS:
        cq = MOD + mq
        if cq not in prog.classes:
            raise AnalysisError(f"anchor vanished: {cq}")
        o = Obj(cq, "bs", {"call": True, "strike": W.fl("bs.strike"), "derivative": W.option()})
        inp = prog.lookup_method(cq, "inputs")
        names = [r["value"] for r in interp.explore(inp, [], {}, self_obj=o) if not r["raises"]][0]
        delta = prog.lookup_method(cq, "delta")
        dparams = [a.arg for a in delta.node.args.args[1:] if a.arg != "create_graph"]
        problems = []
        if list(names) != dparams:
            problems.append(f"inputs() = {list(names)} differs from the tensor parameters of delta {dparams}")
        fwd = prog.lookup_method(cq, "forward")
        interp.shapes["input"] = (W.integer("N"), 1, len(dparams))
        try:
            res = [r for r in interp.explore(fwd, [W.tensor("input")], {}, self_obj=o, max_paths=60) if not r["raises"]]
        except Unsupported as ex:
            res = []
            problems.append(f"forward cannot be followed ({ex})")
        finally:
            interp.shapes.pop("input", None)
        for r in res:
            dcalls = [e for e in r["events"] if e["kind"] == "call" and e["callee"] == delta.qualname]   # from forward or a helper of it
            if len(dcalls) != 1:
                problems.append(f"forward makes {len(dcalls)} calls to delta")
            else:
                got = dict(dcalls[0]["kwargs"])
                for n_, v_ in zip(dparams, dcalls[0]["args"]):
                    got[n_] = v_
                for k_, n_ in enumerate(dparams):
                    v_ = got.get(n_)
                    col = v_.args[1][-1] if isinstance(v_, Op) and v_.op == "index" and v_.args[0] == W.tensor("input") and isinstance(v_.args[1], tuple) else None
                    if col not in ([k_], k_, [k_ - len(dparams)]):
                        problems.append(f"parameter {n_} of delta receives {str(v_)[:50]} instead of input column {k_}")
            fallbacks = [e for e in r["events"] if e["kind"] == "call" and e["callee"].split(".")[-1] in ("log_moneyness", "time_to_maturity", "max_log_moneyness", "moneyness", "max_moneyness") and "derivative" in e["callee"]]
            buffers = [s_ for s_ in walk(r["value"]) if isinstance(s_, Sym) and "buffer" in s_.tags] if isinstance(r["value"], Term) else []
            if fallbacks or buffers:
                problems.append("the module falls back to the derivative's full paths: " + ", ".join(sorted({e['callee'].rsplit('.', 1)[-1] for e in fallbacks} | {b.name for b in buffers})))
        ok = not problems
        run.oblige("C02.R4", mq.rsplit(".", 1)[-1], ok, "; ".join(sorted(set(problems))) or f"forward feeds one input column per entry of inputs() = {list(names)}")
        if not ok:
            run.fail(Finding("C02.R4", fwd.qualname, "; ".join(sorted(set(problems))), "the hedging model reads market data other than the features of the current step", file=str(prog.modules[fwd.module].path), line=fwd.node.lineno))
    # Whalley-Wilmott and Naked
    ww = Obj(MOD + "ww.WhalleyWilmott", "ww", {"a": W.fl("a"), "bs": Sym("ww.bs", ("callable",))})
    ww.attrs["derivative"] = Obj("pfhedge.instruments.derivative.european.EuropeanOption", "deriv", {"strike": W.fl("K")})
    fwd = prog.lookup_method(ww.cls, "forward")
    res = [r for r in interp.explore(fwd, [W.tensor("input")], {}, self_obj=ww) if not r["raises"]]
    bad = [s_.name for r in res for s_ in walk(r["value"]) if isinstance(s_, Sym) and "buffer" in s_.tags]
    ok = bool(res) and not bad
    run.oblige("C02.R4", "WhalleyWilmott", ok, "; ".join(bad) or "reads input, strike, cost, a")
    if not ok:
        run.fail(Finding("C02.R4", fwd.qualname, "; ".join(bad), "the hedging model reads simulated paths directly", file=str(prog.modules[fwd.module].path), line=fwd.node.lineno))
    nk = Obj(MOD + "naked.Naked", "naked", {"out_features": 1})
    fwd = prog.lookup_method(nk.cls, "forward")
    res = [r for r in interp.explore(fwd, [W.tensor("input")], {}, self_obj=nk) if not r["raises"]]
    def is_zeros(v):
        """a tensor of zeros that takes nothing but shape / dtype / device from the input"""
        while isinstance(v, Op) and v.op in ("expand", "expand_as", "view", "reshape", "unsqueeze", "squeeze", "contiguous", "clone", "to"):
            v = v.args[0]
        if not isinstance(v, Op):
            return False
        if v.op in ("new_zeros", "zeros_like", "zeros"):
            return True
        if v.op in ("new_full", "full", "full_like"):
            fill = v.kwd().get("fill_value", v.args[-1] if v.args else None)
            return isinstance(fill, (int, float)) and not isinstance(fill, bool) and fill == 0
        return False
    ok = bool(res) and all(is_zeros(r["value"]) for r in res)
    run.oblige("C02.R4", "Naked", ok, str([str(r["value"])[:60] for r in res]))
    if not ok:
        run.fail(Finding("C02.R4", fwd.qualname, str([str(r['value'])[:80] for r in res]), "Naked must return zeros shaped like its input", file=str(prog.modules[fwd.module].path), line=fwd.node.lineno))


_check_r123 = check


def check(ctx, run):  # noqa: F811
    _check_r123(ctx, run)
    models_read_input_only(ctx, run)
    # R5 containers: a FeatureList is the concatenation of its members' values at the same step and a ModuleOutput is its module applied
    # to exactly that tensor, so both read what their (adapted, R1) members read and nothing else - a reshape/stack that mixes the time
    # axis with the path axis, or a member evaluated at another step, breaks the identity
    from .c03 import containers
    containers(ctx, run, rule="C02.R5")
    option_classes_use_the_mixin(ctx, run, "C02.R1")
    feature_names_rule(ctx, run)
    no_memoised_state(ctx, run, "C02.R6", "a value remembered from an earlier pass reaches a later one: the hedge at step t can then depend on prices after t")
    # R7 the recurrent input: at step 0 the previous hedge is zero (reset before the loop), afterwards the output of step i-1 of THIS pass -
    # otherwise the first position depends on the last step of whatever the hedger evaluated before (facts C03.R3c-e, re-stated here)
    from ..report import Run
    from . import c03
    sub = Run("C03", run.tier, "other", "")
    try:
        c03.check(ctx, sub)
    except AnalysisError as ex:
        if not sub.findings:
            raise
        sub.notes.append(str(ex))
    run.require("C02.R7", 3)
    for r_, inst, ok, detail in sub.obligations:
        if r_ == "C03.R3" and inst.startswith(("C03.R3c", "C03.R3d", "C03.R3e")):
            run.oblige("C02.R7", inst, ok, detail)
    for f in sub.findings:
        if f.rule in ("C03.R3c", "C03.R3d", "C03.R3e"):
            run.fail(Finding("C02.R7", f.function, f"[{f.rule}] {f.construct}", "the previous-hedge input is not zero at step 0 / not the output of the previous step of the same pass: the hedge depends on an earlier evaluation",
                             file=f.file, line=f.line, case=f.case))


def option_classes_use_the_mixin(ctx, run, rule):
    """The feature/time-grid analyses interpret OptionMixin / BaseDerivative methods on a generic option; they speak for a concrete
    derivative class only if that class does not replace those methods (resolution through the MRO computed from the sources)."""
    prog = ctx.prog
    DB = "pfhedge.instruments.derivative.base."
    methods = ("moneyness", "log_moneyness", "time_to_maturity", "max_moneyness", "max_log_moneyness", "ul", "underliers", "spot", "simulate", "payoff", "clauses", "named_clauses")
    classes = sorted(c for c in prog.subclasses(DB + "BaseDerivative") if c.startswith("pfhedge.instruments.derivative.") and c != DB + "BaseDerivative")
    if len(classes) < 6:
        raise AnalysisError(f"only {len(classes)} derivative classes found")
    for cls in classes:
        bad = []
        for m_ in methods:
            fi = prog.lookup_method(cls, m_)
            if fi is not None and not fi.qualname.startswith((DB + "OptionMixin.", DB + "BaseDerivative.", "pfhedge.instruments.base.BaseInstrument.")):
                bad.append(f"{m_} -> {fi.qualname}")
            elif fi is not None and fi.qualname.rsplit(".", 1)[-1] != m_:
                # the re-binding idiom `_set_attr_and_docstring(Cls, "name", Base.other)` puts another base-class method under this name
                bad.append(f"{m_} is bound to {fi.qualname}")
        run.oblige(rule, f"{cls.rsplit('.', 1)[-1]}: path statistics, time grid and payoff plumbing are the base classes'", not bad, "; ".join(bad))
        if bad:
            ci = prog.classes[cls]
            run.fail(Finding(rule, cls, "; ".join(bad)[:300], "this derivative class replaces a method the analysis interpreted on the generic option; its own version is not covered",
                             file=str(prog.modules[ci.module].path), line=ci.node.lineno))


def no_memoised_state(ctx, run, rule, why):
    """features and the option mixin compute from the current buffers and keep nothing: a memoised path statistic or grid filled during one pass
    is read during the next one (where it holds later columns, another simulation, another step size)"""
    from ..purity import stores
    from .. import entrypoints as E
    prog, interp = ctx.prog, ctx.interp
    for label, mode, ts, make in E.feature_runs(ctx):
        f = make()
        get = prog.lookup_method(f.cls, "get")
        st = stores(interp.explore(get, [ts], {}, self_obj=f))
        run.oblige(rule, f"{label}.get({mode}) keeps no state", not st, "; ".join(st))
        if st:
            run.fail(Finding(rule, get.qualname, f"{label}.get({mode}): " + "; ".join(st), why, file=str(prog.modules[get.module].path), line=get.node.lineno))
    d = W.option()
    for meth, args in (("moneyness", [W.integer("i")]), ("log_moneyness", [W.integer("i")]), ("time_to_maturity", [W.integer("i")]), ("max_moneyness", [W.integer("i")]), ("max_log_moneyness", [W.integer("i")]),
                       ("moneyness", [None]), ("time_to_maturity", [None]), ("max_moneyness", [None]), ("max_log_moneyness", [None]), ("payoff", [])):
        fi = prog.lookup_method(d.cls, meth)
        if fi is None:
            raise AnalysisError(f"anchor vanished: {meth}")
        st = stores(interp.explore(fi, list(args), {}, self_obj=W.option()))
        lab = f"OptionType.{meth}({'step' if args and args[0] is not None else 'all' if args else ''}) keeps no state"
        run.oblige(rule, lab, not st, "; ".join(st))
        if st:
            run.fail(Finding(rule, fi.qualname, lab + ": " + "; ".join(st), why, file=str(prog.modules[fi.module].path), line=fi.node.lineno))


def _inst(interp, q):
    from ..interp import ClassRef
    interp.reset([])
    return interp.instantiate(ClassRef(q), [], {}, None)


def feature_names_rule(ctx, run):
    """R8: a feature requested BY NAME is the feature documented under that name: for every class in the FEATURES registration list the key it
    is registered under (`str(cls())`, interpreted) equals the name in its docstring, keys are unique, and the lookup chain
    get_feature(name) -> FeatureFactory.get_instance -> get_class returns the class stored under exactly that key, constructed with the
    caller's keyword arguments (the hedger's `inputs=["log_moneyness", ...]` goes through it)."""
    import ast
    import re
    prog, interp = ctx.prog, ctx.interp
    fmod = prog.modules.get("pfhedge.features.features")
    if fmod is None or "FEATURES" not in fmod.globals:
        raise AnalysisError("anchor vanished: pfhedge.features.features.FEATURES")
    lst = fmod.globals["FEATURES"]
    if not isinstance(lst, (ast.List, ast.Tuple)):
        raise AnalysisError("FEATURES is not a literal list")
    run.require("C02.R8", 12)
    seen = {}
    for elt in lst.elts:
        cname = ast.unparse(elt)
        q = "pfhedge.features.features." + cname
        ci = prog.classes.get(q)
        if ci is None:
            raise AnalysisError(f"FEATURES entry {cname} is not a class of pfhedge.features.features")
        doc = ast.get_docstring(ci.node) or ""
        m = re.search(r"Name:\s*``'([^']+)'``", doc)
        documented = m.group(1) if m else None
        strfn = prog.lookup_method(q, "__str__")
        try:
            inst = _inst(interp, q)
            vals = {r["value"] for r in interp.explore(strfn, [], {}, self_obj=inst) if not r["raises"]} if strfn else set()
        except Exception as ex:  # noqa: BLE001 - any failure to interpret the constructor is an analysis error below
            raise AnalysisError(f"{cname}: cannot interpret str({cname}()): {ex}")
        got = next(iter(vals)) if len(vals) == 1 else None
        problems = []
        if not isinstance(got, str) or got == "<str>":
            problems.append(f"registered name is not a constant string ({got!r})")
        elif documented is not None and got != documented:
            problems.append(f"registered as {got!r}, documented as {documented!r}")
        if isinstance(got, str) and got in seen:
            problems.append(f"name {got!r} is also registered for {seen[got]}")
        seen.setdefault(got, cname)
        run.oblige("C02.R8", f"{cname} is registered under its documented name", not problems, "; ".join(problems) or f"{got!r}")
        if problems:
            run.fail(Finding("C02.R8", q, "; ".join(problems), "a feature looked up by name is not the documented one: the hedger is fed another quantity than the one asked for",
                             file=str(prog.modules[ci.module].path), line=ci.node.lineno))
    # the lookup chain
    G = "pfhedge.features._getter."
    gc, gi, gf = prog.method(G + "FeatureFactory.get_class"), prog.method(G + "FeatureFactory.get_instance"), prog.functions.get(G + "get_feature")
    if gc is None or gi is None or gf is None:
        raise AnalysisError("anchor vanished: FeatureFactory.get_class / get_instance / get_feature")
    from ..interp import ClassRef
    fac = Obj(G + "FeatureFactory", "factory", {"_features": {"alpha": ClassRef("pfhedge.features.features.Moneyness"), "beta": ClassRef("pfhedge.features.features.Variance")}})
    problems = []
    for key, want in (("alpha", "Moneyness"), ("beta", "Variance")):
        vals = [r["value"] for r in interp.explore(gc, [key], {}, self_obj=fac) if not r["raises"]]
        if not (len(vals) == 1 and isinstance(vals[0], ClassRef) and vals[0].qualname.endswith("." + want)):
            problems.append(f"get_class({key!r}) returns {vals}")
    run.oblige("C02.R8", "FeatureFactory.get_class returns the class stored under the requested key", not problems, "; ".join(problems))
    if problems:
        run.fail(Finding("C02.R8", gc.qualname, "; ".join(problems)[:300], "the name lookup does not return the class registered under that name", file=str(prog.modules[gc.module].path), line=gc.node.lineno))


AXIS_OPS = {"cumsum", "cumprod", "cummax", "cummin", "flip", "diff", "roll", "sort", "topk", "max", "min", "amax", "amin", "mean", "sum", "prod", "logsumexp",
            "softmax", "cat", "stack", "argmax", "argmin", "median", "quantile", "std", "var", "norm", "any", "all", "logcumsumexp", "kthvalue", "unbind", "split", "chunk"}
LAYOUT_OPS = {"transpose", "permute", "T", "attr_T", "attr_mT", "view", "reshape", "flatten", "unfold", "movedim", "swapaxes", "conv1d", "matmul", "mulm", "bmm", "einsum", "fft"}
ELEMENTWISE_MINMAX = {"max", "min"}


CAUSAL_SCANS = {"cumsum", "cumprod", "cummax", "cummin", "logcumsumexp"}


def _time_mixing(value, feature_input, causal_ok=False):
    """operators in a model's output term that act along an axis other than the last one (the feature axis) of the (N, T, F) input;
    causal_ok: a running sum / extremum along the time axis (dim -2 or 1) of an un-reversed tensor only looks back and is not reported"""
    bad = []
    for s_ in walk(value):
        if not isinstance(s_, Op):
            continue
        kw = s_.kwd()
        if causal_ok and s_.op in CAUSAL_SCANS and kw.get("dim", s_.args[1] if len(s_.args) > 1 else None) in (-2, 1) \
                and not any(isinstance(x_, Op) and x_.op in ("flip", "roll", "sort") for x_ in walk(s_.args[0])):
            continue
        if s_.op in AXIS_OPS:
            if s_.op in ELEMENTWISE_MINMAX and len(s_.args) == 2 and isinstance(s_.args[1], (Op, Sym)) and "dim" not in kw:
                continue  # torch.max(a, b): element-wise
            dim = kw.get("dim", kw.get("dims", s_.args[1] if len(s_.args) > 1 and isinstance(s_.args[1], (int, tuple, list)) and not isinstance(s_.args[1], bool) else None))
            dims = list(dim) if isinstance(dim, (tuple, list)) else [dim]
            if any(d_ is None or d_ != -1 for d_ in dims):
                bad.append(f"{s_.op}(dim={dim}) acts along an axis that is not the feature axis")
        elif s_.op in LAYOUT_OPS:
            bad.append(f"{s_.op} re-arranges the axes of the model input")
        elif s_.op in ("index", "getitem") and any(x_ == feature_input for x_ in walk(s_.args[0])):
            if isinstance(s_.args[0], Op) and s_.args[0].op in ("autograd_grad", "size", "attr_shape", "broadcast_tensors"):
                continue  # element of a tuple (gradients per input, extents), not a position in the tensor
            idx = s_.args[1]
            ok = isinstance(idx, tuple) and len(idx) == 2 and idx[0] is Ellipsis
            if not ok:
                bad.append(f"the input is indexed with {str(idx)[:40]} (only [..., <feature columns>] keeps paths and steps apart)")
    return sorted(set(bad))


def models_pointwise_in_time(ctx, run, rule="C02.R4t", causal_ok=True):
    """R4t: a built-in model maps the (N, T, F) feature tensor to the (N, T, H) hedge without looking ahead: no operator of its forward acts
    along the path axis, re-arranges axes, or reduces / shifts / reverses along the time axis (evaluated for all steps at once, step t would
    see step t+1) - the tensor is indexed as input[..., columns] and reduced / concatenated along the last axis.  Under C02 a running sum or
    extremum that only looks back is admitted; C03.R2m uses the same scan without that exception (the step-by-step evaluation hands the model
    one step at a time, so any operator along time makes the two evaluation modes differ)."""
    prog, interp = ctx.prog, ctx.interp
    run.require(rule, 6)
    inp = W.tensor("input")
    cases = []
    for mq in BSMODS:
        cq = MOD + mq
        delta = prog.lookup_method(cq, "delta")
        n_in = len([a for a in delta.node.args.args[1:] if a.arg != "create_graph"])
        cases.append((mq.rsplit(".", 1)[-1], Obj(cq, "bs", {"call": True, "strike": W.fl("bs.strike"), "derivative": None}), n_in))
    deriv = Obj("pfhedge.instruments.derivative.european.EuropeanOption", "deriv", {"strike": W.fl("K"), "call": True})
    deriv.attrs["underlier"] = Obj(W.PRIMARY, "ul", {"cost": W.fl("cost")})
    bs = Obj(MOD + "bs.european.BSEuropeanOption", "bs", {"call": True, "strike": W.fl("K"), "derivative": deriv})
    cases.append(("WhalleyWilmott", Obj(MOD + "ww.WhalleyWilmott", "ww", {"a": W.fl("a"), "bs": bs, "derivative": deriv}), 4))
    cases.append(("Naked", Obj(MOD + "naked.Naked", "naked", {"out_features": 1}), 3))
    for label, o, n_in in cases:
        fwd = prog.lookup_method(o.cls, "forward")
        if fwd is None:
            raise AnalysisError(f"anchor vanished: {o.cls}.forward")
        interp.shapes["input"] = (W.integer("N"), W.integer("T"), n_in)
        try:
            res = [r for r in interp.explore(fwd, [inp], {}, self_obj=o, max_paths=80) if not r["raises"]]
        except Unsupported as ex:
            raise AnalysisError(f"{label}.forward: {ex}")
        finally:
            interp.shapes.pop("input", None)
        if not res:
            raise AnalysisError(f"{label}.forward: no analysable path")
        bad = sorted({b_ for r in res for b_ in _time_mixing(r["value"], inp, causal_ok)})
        run.oblige(rule, f"{label}.forward acts step by step", not bad, "; ".join(bad) or "indexing [..., columns] and last-axis operators only")
        if bad:
            run.fail(Finding(rule, fwd.qualname, f"{label}: " + "; ".join(bad)[:280], "the model mixes steps (or paths) of its input: evaluated for all steps at once, the hedge at step t depends on "
                             + ("later steps" if causal_ok else "other steps, which the step-by-step evaluation never shows it"),
                             file=str(prog.modules[fwd.module].path), line=fwd.node.lineno))


_check_before_r4t = check


def check(ctx, run):  # noqa: F811
    _check_before_r4t(ctx, run)
    models_pointwise_in_time(ctx, run)
    # R9: feature objects keep the options they were created with (every rule above builds its features from these attributes), and the
    # containers keep the given features in the given order
    from ..ctors import ctor_rule
    FE_ = "pfhedge.features.features."
    ctor_rule(ctx, run, "C02.R9", [FE_ + c for c in ("Moneyness", "UnderlierSpot", "Spot", "Barrier", "MaxMoneyness")], None,
              "the feature evaluates another variant (log / threshold / direction) than the one it was created with")
    prog, interp = ctx.prog, ctx.interp
    f1_, f2_ = W.feature("Moneyness", log=False), W.feature("PrevHedge")
    for cq, kw in (("pfhedge.features.container.FeatureList", dict(features=[f1_, f2_])), ("pfhedge.features.container.ModuleOutput", dict(module=Sym("module", ("callable",)), inputs=[f1_, f2_]))):
        init = prog.lookup_method(cq, "__init__")
        if init is None:
            raise AnalysisError(f"anchor vanished: {cq}.__init__")
        o = Obj(cq, "container")
        try:
            res = [r for r in interp.explore(init, [], dict(kw), self_obj=o) if not r["raises"]]
        except Unsupported as ex:
            raise AnalysisError(f"{cq}.__init__: {ex}")
        ok = bool(res)
        for r in res:
            st = {e["attr"]: e["value"] for e in r["events"] if e["kind"] == "obj_setattr" and e.get("obj") is o}
            fl_ = o if cq.endswith("FeatureList") else st.get("inputs")
            feats = (st.get("features") if cq.endswith("FeatureList") else (fl_.attrs.get("features") if isinstance(fl_, Obj) else None))
            ok = ok and isinstance(feats, list) and len(feats) == 2 and feats[0] is f1_ and feats[1] is f2_
            if cq.endswith("ModuleOutput"):
                added = [e for e in r["events"] if e["kind"] == "module_method" and e["method"] == "add_module" and e.get("recv") is o and len(e["args"]) == 2 and e["args"][0] == "module"]
                ok = ok and (st.get("module") is kw["module"] or o.attrs.get("module") is kw["module"] or any(e["args"][1] is kw["module"] for e in added))
        short = cq.rsplit(".", 1)[-1]
        run.oblige("C02.R9", f"{short}.__init__ keeps the given features in order" + (" and the given module" if short == "ModuleOutput" else ""), ok, "")
        if not ok:
            run.fail(Finding("C02.R9", init.qualname, f"{short}: the stored features are not the given feature objects in the given order", "the container feeds the model other inputs than the ones it was created with",
                             file=str(prog.modules[init.module].path), line=init.node.lineno))
    from ..ctors import exports_rule
    exports_rule(ctx, run, "C02.R8", ['pfhedge.features'])
