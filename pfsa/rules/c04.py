"""C04 - risk measures obey the convex-risk-measure axioms.
Certificates by composition rules (curvature, monotonicity, response to cash shifts and positive scaling) for the functionals
and the loss modules; parameters restricted to the admissible ranges, whose constructor guards are checked to exist.
R3: the entropic risk is non-decreasing in the risk aversion (a*rho is a cumulant generating function: convex in a, zero at a=0)."""
import ast

import sympy as sp

from .. import entrypoints as E
from .. import world as W
from ..dcp import DCP
from ..interp import Obj, Unsupported
from ..report import AnalysisError, Finding
from ..term import Op, Sym, walk

L = "pfhedge.nn.modules.loss."
GUARDS = {"EntropicRiskMeasure": ("a", sp.Interval.open(0, sp.oo), "a > 0"), "EntropicLoss": ("a", sp.Interval.open(0, sp.oo), "a > 0"),
          "IsoelasticLoss": ("a", sp.Interval.Lopen(0, 1), "0 < a <= 1"), "ExpectedShortfall": ("p", sp.Interval.Lopen(0, 1), "0 < p <= 1"),
          "QuadraticCVaR": ("lam", sp.Interval(1, sp.oo), "lam >= 1")}


def cert(ctx, fi, args, kwargs, self_obj, signs, ranges=None):
    res = [r for r in ctx.interp.explore(fi, args, kwargs, self_obj=self_obj) if not r["raises"]]
    out = []
    for r in res:
        d = DCP("x", signs, ranges)
        out.append((r, d.of(r["value"]), d))
    return out


def check(ctx, run):
    prog, interp = ctx.prog, ctx.interp
    run.trusted += ["DCP atom table (logsumexp, exp, log, mean, relu, square on non-negatives, mean of k smallest/largest, pow(q) 0<q<1)",
                    "lemma: partial minimisation of a jointly convex objective that is non-increasing in x is convex and non-increasing"]
    run.assumptions += ["a > 0, 0 < p <= 1, lam >= 1, 0 < a <= 1 (isoelastic)"]
    run.require("C04.R1", 8)
    x = W.tensor("x")
    fl = W.fl
    want = {
        "entropic_risk_measure": dict(curv="convex", mono="dec", shift=("add", -1)),
        "expected_shortfall": dict(curv="convex", mono="dec", shift=("add", -1), deg=1),
    }
    for fn, kw, signs in (("entropic_risk_measure", dict(input=x, a=fl("a")), {"a": 1}), ("expected_shortfall", dict(input=x, p=fl("p"), dim=0), {"p": 1})):
        fi = E.functional(ctx, fn)
        run.functions.add(fi.qualname)
        for r, cv, d in cert(ctx, fi, [], kw, None, signs):
            judge(run, prog, fi, fn, cv, want[fn])
    # the atom "mean of the k smallest" needs k >= 1 for every admissible level and sample size: ceil(p n) with p > 0, not floor / round / int
    fi = E.functional(ctx, "expected_shortfall")
    for r in [r for r in interp.explore(fi, [], dict(input=x, p=fl("p"), dim=0)) if not r["raises"]]:
        ks = [t.args[1] for t in walk(r["value"]) if isinstance(t, Op) and t.op == "topk" and len(t.args) > 1]
        okk = bool(ks)
        detail = ""
        for k_ in ks:
            kt = k_
            while isinstance(kt, Op) and kt.op in ("py_int",) and isinstance(kt.args[0], Op) and kt.args[0].op == "py_ceil":
                kt = kt.args[0]
            if not (isinstance(kt, Op) and kt.op == "py_ceil"):
                okk, detail = False, f"count {str(k_)[:60]} can be 0 for p n < 1 (an empty mean is NaN)"
        run.oblige("C04.R1", "expected_shortfall averages at least one outcome (count = ceil(p n))", okk, detail)
        if not okk:
            run.fail(Finding("C04.R1", fi.qualname, detail or "no topk count found", "with an empty tail the expected shortfall is NaN and every axiom fails", file=str(prog.modules[fi.module].path), line=fi.node.lineno))
    mods = {
        "EntropicRiskMeasure": (dict(a=fl("a")), {"a": 1}, None, dict(curv="convex", mono="dec", shift=("add", -1))),
        "ExpectedShortfall": (dict(p=fl("p")), {"p": 1}, None, dict(curv="convex", mono="dec", shift=("add", -1), deg=1)),
        "EntropicLoss": (dict(a=fl("a")), {"a": 1}, None, dict(curv="convex", mono="dec")),
        "IsoelasticLoss": (dict(a=fl("a")), {"a": 1}, {"a": (0, 1)}, dict(curv="convex", mono="dec")),
    }
    for cls, (attrs, signs, ranges, w) in mods.items():
        fwd = prog.lookup_method(L + cls, "forward")
        if fwd is None:
            raise AnalysisError(f"anchor vanished: {cls}.forward")
        run.functions.add(fwd.qualname)
        for r, cv, d in cert(ctx, fwd, [x, 0.0], {}, Obj(L + cls, cls.lower(), attrs), signs, ranges):
            label = cls + ".forward" + ("[" + ",".join(f"{str(c)[:12]}={dd}" for c, dd, _ in r["cond"]) + "]" if r["cond"] else "")
            judge(run, prog, fwd, label, cv, w)
    # quadratic CVaR: cash invariance by composition; curvature via the lemma, conditional on C05.R5/R6
    fwd = prog.lookup_method(L + "QuadraticCVaR", "forward")
    for r, cv, d in cert(ctx, fwd, [x, 0.0], {}, Obj(L + "QuadraticCVaR", "q", dict(lam=fl("lam"))), {"lam": 1}):
        judge(run, prog, fwd, "QuadraticCVaR.forward[" + ",".join(str(dd) for _, dd, _ in r["cond"]) + "]", cv, dict(shift=("add", -1)))
    qc = E.functional(ctx, "quadratic_cvar")
    obj = objective_is_convex(ctx, qc)
    run.oblige("C04.R1", "quadratic_cvar objective w + lam*mean(relu(-w-x)^2) is jointly convex and non-increasing in x", obj, "then the lemma gives convexity/monotonicity of its minimum (C05.R5, C05.R6 establish that the minimum is what is returned)")
    if not obj:
        run.fail(Finding("C04.R1", qc.qualname, "objective", "the quadratic CVaR objective is not certified jointly convex / non-increasing", file=str(prog.modules[qc.module].path), line=qc.node.lineno))
    # the certificate of quadratic CVaR is conditional on "the returned value is the minimum of the objective":
    # stationarity target (C05.R5) and a bracket that contains the stationary point (C05.R6)
    from .c05 import qcvar
    try:
        qcvar(ctx, run)
    except AnalysisError as ex:
        if not run.findings:
            raise
        run.notes.append(f"quadratic CVaR objective/bracket not analysable after the certificate failed: {ex}")
    risk_aversion_rule(ctx, run)
    # constructor guards
    run.require("C04.R2", 5)
    for cls, (pname, want_set, g) in GUARDS.items():
        init = prog.lookup_method(L + cls, "__init__")
        if init is None:
            raise AnalysisError(f"anchor vanished: {cls}.__init__")
        res = interp.explore(init, [W.fl(pname)], {}, self_obj=Obj(L + cls, "probe"))
        z = sp.Symbol("z", real=True)
        rejected = sp.S.EmptySet
        for r in res:
            for e in r["events"]:
                if e["kind"] == "guard":
                    b = _bool(e["cond"], pname, z)
                    if b is not None:
                        rejected = sp.Union(rejected, b.as_set())
            if r["raises"] is not None:  # a decision that ends in raise rejects the region of its path condition
                region = sp.S.Reals
                for c, d, _ in r["cond"]:
                    b = _bool(c, pname, z)
                    if b is not None:
                        region = sp.Intersection(region, (b if d else sp.Not(b)).as_set())
                    else:
                        region = sp.S.EmptySet
                rejected = sp.Union(rejected, region)
        admitted = sp.Complement(sp.S.Reals, rejected)
        ok = admitted.is_subset(want_set) is True and admitted != sp.S.EmptySet
        run.oblige("C04.R2", f"{cls} validates {g}", ok, f"admitted values of {pname}: {admitted}")
        if not ok:
            run.fail(Finding("C04.R2", init.qualname, f"admitted values of {pname}: {admitted}", f"the admissible range {g} is not enforced by the constructor", file=str(prog.modules[init.module].path), line=init.node.lineno))


def _bool(c, pname, z):
    """guard condition over the single parameter -> sympy boolean in z (None when it mentions anything else)"""
    from ..term import is_num
    if isinstance(c, bool):
        return sp.true if c else sp.false
    if not isinstance(c, Op):
        return None
    if c.op == "not" and len(c.args) == 1:
        b = _bool(c.args[0], pname, z)
        return None if b is None else sp.Not(b)
    if c.op in ("and", "or"):
        bs = [_bool(a, pname, z) for a in c.args]
        return None if any(b is None for b in bs) else (sp.And if c.op == "and" else sp.Or)(*bs)
    rel = {"lt": sp.Lt, "le": sp.Le, "gt": sp.Gt, "ge": sp.Ge, "eq": sp.Eq, "ne": sp.Ne}.get(c.op)
    if rel is None or len(c.args) != 2:
        return None

    def val(a):
        if is_num(a):
            return sp.nsimplify(a)
        if isinstance(a, Sym) and a.name == pname:
            return z
        return None

    u, v = val(c.args[0]), val(c.args[1])
    return None if u is None or v is None else rel(u, v)


def risk_aversion_rule(ctx, run):
    """R3: the entropic risk is non-decreasing in the risk aversion a.  Certificate: a * rho_a(x) is the cumulant generating function
    K(a) = log mean exp(a * g(x)) of g(x) = -x with g free of a; K is convex in a (Hoelder) and K(0) = 0, hence K(a)/a is non-decreasing
    on a > 0 (chord slope of a convex function through the origin).  Decided on the term of the functional and of the module's forward."""
    from ..samplealg import MEAN, SampleAlgebra, linearize, xi
    prog, interp = ctx.prog, ctx.interp
    run.require("C04.R3", 2)
    run.trusted.append("lemma: the cumulant generating function K(a) = log E exp(a Y) is convex with K(0) = 0, so K(a)/a is non-decreasing in a > 0")
    x = W.tensor("x")
    cases = [("entropic_risk_measure", E.functional(ctx, "entropic_risk_measure"), [], dict(input=x, a=W.fl("a")), None)]
    fwd = prog.lookup_method(L + "EntropicRiskMeasure", "forward")
    if fwd is None:
        raise AnalysisError("anchor vanished: EntropicRiskMeasure.forward")
    cases.append(("EntropicRiskMeasure.forward", fwd, [x, 0.0], {}, Obj(L + "EntropicRiskMeasure", "erm", dict(a=W.fl("a")))))
    for label, fi, args, kw, so in cases:
        for r in [r for r in interp.explore(fi, args, kw, self_obj=so) if not r["raises"]]:
            A = SampleAlgebra(assume_positive={"a"})
            a = A.sym("a")
            try:
                rho = A.conv(r["value"])
            except (TypeError, NotImplementedError, ValueError) as ex:
                raise AnalysisError(f"C04.R3 {label}: term not convertible ({ex})")
            raw = sp.expand_log(sp.expand(rho * a), force=True)
            K = sp.simplify(linearize(raw))
            wb = sp.Wild("wb")
            problems = []
            g = None
            m = K.match(sp.log(MEAN(sp.exp(wb))))
            if m is None:
                problems.append(f"a*rho = {K} is not of the form log mean exp(a*g(x))")
            else:
                g = sp.simplify(m[wb] / a)
                if g.has(a):
                    problems.append(f"the exponent {m[wb]} is not linear in a")
            if not problems:
                k0 = sp.simplify(linearize(raw.subs(a, 0)))
                if k0 != 0:
                    problems.append(f"K(0) = {k0}, must vanish")
            ok = not problems
            run.oblige("C04.R3", f"{label}: a*rho is the cumulant generating function of -x (rho non-decreasing in a)", ok, "; ".join(problems) or f"K(a) = {K}, g = {g}",
                       sample={"rule": "C04.R3", "function": label, "K": str(K)})
            if not ok:
                run.fail(Finding("C04.R3", fi.qualname, f"{label}: {'; '.join(problems)}", "the entropic risk is not certified non-decreasing in the risk aversion",
                                 file=str(prog.modules[fi.module].path), line=fi.node.lineno))


def judge(run, prog, fi, label, cv, want):
    problems = []
    if "curv" in want and cv.curv != want["curv"] and not (want["curv"] == "convex" and cv.curv == "affine"):
        problems.append(f"curvature {cv.curv}, required {want['curv']}")
    if "mono" in want and cv.mono != want["mono"]:
        problems.append(f"monotonicity {cv.mono}, required non-increasing")
    if "shift" in want:
        s = cv.shift
        if not (s != "?" and s[0] == want["shift"][0] and sp.simplify(s[1] - want["shift"][1]) == 0):
            problems.append(f"response to a cash shift {s}, required {want['shift']}")
    if "deg" in want and not (cv.deg != "?" and sp.simplify(cv.deg - want["deg"]) == 0):
        problems.append(f"homogeneity degree {cv.deg}, required {want['deg']}")
    ok = not problems
    run.oblige("C04.R1", label, ok, "; ".join(problems) or str(cv), sample={"rule": "C04.R1", "function": label, "certificate": str(cv)})
    if not ok:
        run.fail(Finding("C04.R1", fi.qualname, f"{label}: {'; '.join(problems)}", "the risk measure is not certified convex / monotone / cash-invariant as required", file=str(prog.modules[fi.module].path), line=fi.node.lineno))


def objective_is_convex(ctx, qc):
    """w + lam * mean(relu(-w - x)^2): affine + positive multiple of mean(square(relu(affine decreasing in x)))"""
    res = [r for r in ctx.interp.explore(qc, [], dict(input=W.tensor("x"), lam=W.fl("lam"), dim=0)) if not r["raises"]]
    val = res[-1]["value"]
    sq = [s for s in walk(val) if isinstance(s, Op) and s.op == "square" and isinstance(s.args[0], Op) and s.args[0].op == "relu"]
    if len(sq) != 1:
        return False
    inner = sq[0].args[0].args[0]  # -omega - x_centred
    ok = isinstance(inner, Op) and inner.op == "sub" and isinstance(inner.args[0], Op) and inner.args[0].op == "neg"
    # sign of lam multiplying the mean: mul(lam, mean(square(relu(...))))
    muls = [s for s in walk(val) if isinstance(s, Op) and s.op == "mul" and any(isinstance(a, Op) and a.op == "mean" and sq[0] in list(walk(a)) for a in s.args)]
    ok = ok and len(muls) == 1 and any(isinstance(a, Sym) and a.name == "lam" for a in muls[0].args)
    return ok
