"""C17 - instrument dtype/device contract over any cast/simulate sequence (inductive invariant).
R1 register_buffer casts to (self.device, self.dtype) before its single store; R2 to(): reject non-floating, update declaration,
re-register every buffer, return self; R3 constructors end with self.to(dtype, device) and simulate forwards self.dtype/device;
R4 alias methods map to the right dtype; R5 derivatives alias their underlier; R6 constants follow the data's dtype.
Added after the seeded-defect rounds: R7 concrete instruments do not replace the state operations nor keep tensor state outside _buffers; derived series (spot/volatility/variance) leave nothing on the instrument.
Third round: R8 buffer-registry and re-configuration histories of every primary class.
Rounds 4-5: R8x every sequence of at most 2 (thorough: 3, two classes 4) cast / simulate / register calls against a reference model; R6 also parsing helpers, ensemble_mean, the hedger's results and the criteria; cached_property is state on the instrument (R7).
Round 7: R5 a derivative's to() judged by what it leaves behind (two underliers, three request forms); anchors resolved through the MRO."""
import ast

from .. import world as W
from ..factories import census
from ..interp import Interp, Obj, Unsupported
from ..primaries import BASE, primary_classes, simulate_facts
from ..report import AnalysisError, Finding
from ..term import Op, Sym, walk

ALIASES = {"double": "float64", "float": "float32", "half": "float16", "bfloat16": "bfloat16"}
CHAINS = {"float64": "double", "float32": "float", "float16": "half"}


def check(ctx, run):
    prog, interp = ctx.prog, ctx.interp
    run.trusted += ["torch.Tensor.to(device, dtype) casts", "torch._C._nn._parse_to parses (device, dtype) like nn.Module.to"]
    run.require("C17.R3", 16)
    run.require("C17.R4", 7)
    # ---- R1: real body of register_buffer (no summary)
    raw = Interp(prog, intrinsics={}, max_depth=20)
    rb = prog.lookup_method(BASE, "register_buffer")   # wherever in the hierarchy it is defined
    if rb is None:
        raise AnalysisError("anchor vanished: BasePrimary.register_buffer")
    raw.intrinsics.pop(rb.qualname, None)
    o = Obj(BASE, "stock", {"_buffers": {}, "dtype": Sym("stock.dtype"), "device": Sym("stock.device")})
    res = [r for r in raw.explore(rb, ["zzz", W.tensor("x")], {}, self_obj=o) if not r["raises"]]
    stores = [e for r in res for e in r["events"] if e["kind"] == "dict_store" and e.get("owner", "").endswith("_buffers")]
    def cast_spec(t):
        """to(x, device, dtype) | to(x, device=.., dtype=..) -> (x, device, dtype)"""
        if not (isinstance(t, Op) and t.op == "to" and t.args):
            return None
        kw = t.kwd()
        pos = list(t.args[1:])
        return (t.args[0], kw.get("device", pos[0] if pos else None), kw.get("dtype", pos[1] if len(pos) > 1 else None))

    ok = len(stores) == 1 and cast_spec(stores[0]["value"]) == (W.tensor("x"), Sym("stock.device"), Sym("stock.dtype"))
    run.oblige("C17.R1", "register_buffer: single store of tensor.to(self.device, self.dtype)", ok, f"stores: {[str(s['value']) for s in stores]}")
    if not ok:
        run.fail(Finding("C17.R1", rb.qualname, f"stores {[str(s['value']) for s in stores]}", "a buffer is stored without passing through .to(self.device, self.dtype)",
                         file=str(prog.modules[rb.module].path), line=rb.node.lineno))
    # ---- R2: to(), judged by what it leaves behind in four scenarios (interpreted with the real register_buffer / named_buffers and a model
    # of torch's _parse_to): a dtype given, a device given, nothing given, and the rejection of a non-floating dtype before any state changes
    from ..registry import _effective, _tag
    to = prog.lookup_method(BASE, "to")
    if to is None:
        raise AnalysisError("anchor vanished: BasePrimary.to")
    fint = Interp(prog, max_depth=20)
    for k_ in list(fint.intrinsics):
        if ".BasePrimary." in k_ or ".BaseDerivative." in k_:
            fint.intrinsics.pop(k_)
    fint.faithful_registry = True
    problems = []
    spot0 = W.tensor("stock.spot0")
    for label, kw_, want_dt, want_dev in (("to(dtype=D1)", dict(dtype=Sym("D1", ("dtype",))), "D1", "device0"), ("to(device=V1)", dict(device=Sym("V1", ("device",))), "dtype0", "V1"),
                                          ("to()", {}, "dtype0", "device0")):
        o = Obj("pfhedge.instruments.primary.brownian.BrownianStock", "stock", {"dtype": Sym("dtype0", ("dtype",)), "device": Sym("device0", ("device",)), "_buffers": {"spot": spot0}})
        try:
            allres = fint.explore(to, [], dict(kw_), self_obj=o, max_paths=40)
        except Unsupported as ex:
            raise AnalysisError(f"BasePrimary.{label}: {ex}")
        res = [r for r in allres if not r["raises"]]
        if not res:
            problems.append(f"{label}: every path raises")
        for r in res:
            st = {}
            for e in r["events"]:
                if e["kind"] == "obj_setattr" and e.get("obj") is o:
                    st[e["attr"]] = e["value"]
            dt_, dev_ = st.get("dtype", Sym("dtype0")), st.get("device", Sym("device0"))
            if _tag(dt_) != want_dt:
                problems.append(f"{label}: declared dtype is {_tag(dt_)} afterwards, expected {want_dt}")
            if _tag(dev_) != want_dev:
                problems.append(f"{label}: declared device is {_tag(dev_)} afterwards, expected {want_dev}")
            stores_ = [e for e in r["events"] if e["kind"] == "dict_store" and e.get("key") == "spot"]
            buf = stores_[-1]["value"] if stores_ else spot0
            e_dev, e_dt = _effective(buf)
            base_ = buf
            while isinstance(base_, Op) and base_.op == "to":
                base_ = base_.args[0]
            if base_ != spot0:
                problems.append(f"{label}: the buffer is replaced by something that is not the old buffer converted")
            if "dtype" in kw_ and _tag(e_dt) != want_dt:
                problems.append(f"{label}: the buffer ends up in dtype {_tag(e_dt)} while the instrument declares {want_dt}")
            if "device" in kw_ and _tag(e_dev) != want_dev:
                problems.append(f"{label}: the buffer ends up on device {_tag(e_dev)} while the instrument declares {want_dev}")
            if r["value"] is not o:
                problems.append(f"{label}: does not return self")
        if "dtype" in kw_:
            rejecting = [r for r in allres if r["raises"] and any("is_floating_point" in str(c_) for c_, _, _ in r["cond"])]
            guarded = any(e["kind"] == "guard" and "is_floating_point" in str(e.get("cond")) for r in res for e in r["events"])
            if not rejecting and not guarded:
                problems.append("no rejection of non-floating dtypes")
            for r in rejecting:
                if any(e["kind"] in ("obj_setattr", "dict_store") and (e.get("obj") is o or e["kind"] == "dict_store") for e in r["events"]):
                    problems.append("state is changed before the dtype is validated")
            for r in res:  # `if ...: raise` guards are recorded as events on the surviving path: nothing may be stored before them
                kinds = [("guard" if e["kind"] == "guard" and "is_floating_point" in str(e.get("cond")) else e["kind"]) for e in r["events"] if e["kind"] in ("guard", "obj_setattr", "dict_store")]
                if "guard" in kinds and any(k_ in ("obj_setattr", "dict_store") for k_ in kinds[:kinds.index("guard")]):
                    problems.append("state is changed before the dtype is validated")
    problems = sorted(set(problems))
    ok = not problems
    run.oblige("C17.R2", "BasePrimary.to", ok, "; ".join(problems) or "validate -> update declaration -> re-register converted buffers -> return self (4 scenarios)")
    if not ok:
        run.fail(Finding("C17.R2", to.qualname, "; ".join(problems)[:400], "to() does not re-establish 'every buffer has the declared dtype/device'", file=str(prog.modules[to.module].path), line=to.node.lineno))
    pt = prog.lookup_method(BASE, "_parse_to")
    if pt is None:
        raise AnalysisError("anchor vanished: BasePrimary._parse_to")
    other = Obj(BASE, "other", {"dtype": Sym("other.dtype"), "device": Sym("other.device")})
    okp = True
    for args, kw in (([other], {}), ([], {"instrument": other})):
        res = [r for r in interp.explore(pt, list(args), dict(kw)) if not r["raises"]]
        okp = okp and bool(res) and all(isinstance(r["value"], tuple) and [str(x) for x in r["value"][:2]] == ["other.device", "other.dtype"] for r in res)
    run.oblige("C17.R2", "_parse_to(instrument) returns (instrument.device, instrument.dtype)", okp, "")
    if not okp:
        run.fail(Finding("C17.R2", pt.qualname, "return getattr(instrument, 'device'), getattr(instrument, 'dtype')", "to(instrument) must adopt that instrument's device and dtype, in this order", file=str(prog.modules[pt.module].path), line=pt.node.lineno))
    # ---- R3: constructors and simulate
    for cls in primary_classes(prog):
        short = cls.rsplit(".", 1)[-1]
        init = prog.lookup_method(cls, "__init__")
        o = Obj(cls, "stock", tags={"constructing"})
        params = [a.arg for a in init.node.args.args]
        kw = dict(dtype=Sym("dtype0"), device=Sym("device0"))
        if "sigma_fn" in params:
            kw["sigma_fn"] = Sym("sigma_fn", ("callable",))
        res = [r for r in interp.explore(init, [], kw, self_obj=o) if not r["raises"]]
        okc = bool(res)
        for r in res:
            tocalls = [k for k, e in enumerate(r["events"]) if e["kind"] == "call" and e["callee"] == to.qualname and not e.get("prop")]
            sets = [k for k, e in enumerate(r["events"]) if e["kind"] == "obj_setattr" and e["attr"] not in ("dtype", "device", "_buffers")]
            okc = okc and len(tocalls) == 1 and (not sets or max(sets) < tocalls[0])
            if tocalls:
                e = r["events"][tocalls[0]]
                okc = okc and e["kwargs"].get("dtype") == Sym("dtype0") and e["kwargs"].get("device") == Sym("device0")
        run.oblige("C17.R3", f"{short}.__init__ ends with self.to(dtype=dtype, device=device)", okc, "")
        if not okc:
            run.fail(Finding("C17.R3", init.qualname, "self.to(dtype=dtype, device=device) after the fields are set", "the constructor does not declare the requested dtype/device",
                             file=str(prog.modules[init.module].path), line=init.node.lineno))
        sim, facts = simulate_facts(ctx, cls, False)
        oks = bool(facts)
        for f in facts:
            g = f["gen"]
            oks = oks and g is not None and g["kwargs"].get("dtype") == Sym("stock.dtype") and g["kwargs"].get("device") == Sym("stock.device")
        run.oblige("C17.R3", f"{short}.simulate forwards self.dtype / self.device", oks, "")
        if not oks:
            run.fail(Finding("C17.R3", sim.qualname, "dtype=self.dtype, device=self.device", "simulation is not produced in the declared dtype/device", file=str(prog.modules[sim.module].path), line=sim.node.lineno))
    # ---- R4 alias table
    BI = "pfhedge.instruments.base.BaseInstrument"
    for name, dt in ALIASES.items():
        fi = prog.method(f"{BI}.{name}")
        if fi is None:
            raise AnalysisError(f"anchor vanished: BaseInstrument.{name}")
        o = Obj(BASE, "stock")
        res = interp.explore(fi, [], {}, self_obj=o)
        calls = [e for r in res for e in r["events"] if e["kind"] in ("call", "abstract_call") and e["callee"].endswith(".to")]
        args = [str(a) for e in calls for a in e.get("args", [])]
        ok = any(f"torch.{dt}" in a for a in args)
        run.oblige("C17.R4", f"{name}() -> torch.{dt}", ok, f"to{args}")
        if not ok:
            run.fail(Finding("C17.R4", fi.qualname, f"to{args}", f"{name}() must cast to torch.{dt}", file=str(prog.modules[fi.module].path), line=fi.node.lineno))
    for name, target in CHAINS.items():
        fi = prog.method(f"{BI}.{name}")
        if fi is None:
            raise AnalysisError(f"anchor vanished: BaseInstrument.{name}")
        dt = ALIASES[target]
        res = interp.explore(fi, [], {}, self_obj=Obj(BASE, "stock"))
        per_path = [[e for e in r["events"] if e["kind"] in ("call", "abstract_call") and e["callee"].endswith(".to")] for r in res if not r["raises"]]
        args = [str(a) for calls_ in per_path for e in calls_ for a in e.get("args", [])]
        ok = bool(per_path) and all(len(calls_) == 1 and any(f"torch.{dt}" in str(a) for a in calls_[0].get("args", [])) for calls_ in per_path)
        args = sorted(set(args))
        run.oblige("C17.R4", f"{name}() casts like {target}() (torch.{dt})", ok, f"to{args}")
        if not ok:
            run.fail(Finding("C17.R4", fi.qualname, f"to{args}", f"{name}() must cast to torch.{dt}", file=str(prog.modules[fi.module].path), line=fi.node.lineno))
    # ---- R5 derivatives
    BD = "pfhedge.instruments.derivative.base.BaseDerivative"
    for prop_ in ("dtype", "device"):
        fi = prog.method(f"{BD}.{prop_}")
        d = W.option()
        res = [r for r in interp.explore(fi, [], {}, self_obj=d) if not r["raises"]]
        ok = bool(res) and all(str(r["value"]) == f"deriv.ul.{prop_}" for r in res)
        run.oblige("C17.R5", f"BaseDerivative.{prop_} is the underlier's", ok, str([str(r["value"]) for r in res]))
        if not ok:
            run.fail(Finding("C17.R5", fi.qualname, str([str(r['value']) for r in res]), f"a derivative's {prop_} must be its underlier's", file=str(prog.modules[fi.module].path), line=fi.node.lineno))
    fi = prog.method(f"{BD}.to")
    if fi is None:
        raise AnalysisError("anchor vanished: BaseDerivative.to")
    # judged by what it leaves behind (real constructors, real registries): a derivative over two underliers, each request form
    from ..source import FuncInfo
    from ..interp import ClassRef
    opt_q, stock_q = "pfhedge.instruments.derivative.european.EuropeanOption", "pfhedge.instruments.primary.brownian.BrownianStock"
    if opt_q not in prog.classes or stock_q not in prog.classes:
        raise AnalysisError("anchor vanished: EuropeanOption / BrownianStock")
    problems = []
    for label, call_, attr_, want in (("to(dtype=D1)", "d.to(dtype=X)", "dtype", "D1"), ("to(device=V1)", "d.to(device=X)", "device", "V1"), ("to(D1) positionally", "d.to(X)", "dtype", "D1")):
        src = ("def history(cls, stock, X):\n    ua = stock()\n    ub = stock()\n    d = cls(ua)\n    d.register_underlier('second', ub)\n"
               f"    r = {call_}\n    return r, d, ua.{attr_}, ub.{attr_}\n")
        drv = FuncInfo("synthetic.derivative_to", fi.module, ast.parse(src).body[0])
        x_ = Sym(want, ("dtype" if attr_ == "dtype" else "device",))
        try:
            allres = fint.explore(drv, [ClassRef(opt_q), ClassRef(stock_q), x_], {}, max_paths=60)
        except Unsupported as ex:
            raise AnalysisError(f"derivative.{label}: {ex}")
        res = [r for r in allres if not r["raises"]]
        if not res:
            problems.append(f"{label}: every path raises")
        for r in res:
            ret, d_, a_, b_ = r["value"]
            if ret is not d_:
                problems.append(f"{label}: does not return self")
            for who, v_ in (("the first underlier", a_), ("the second underlier", b_)):
                if _tag(v_) != want:
                    problems.append(f"{label}: {who} declares {attr_} {_tag(v_)} afterwards, expected {want}")
    problems = sorted(set(problems))
    ok = not problems
    run.oblige("C17.R5", "derivative.to(...) casts every underlier and returns self (3 request forms, two underliers)", ok, "; ".join(problems)[:200])
    if not ok:
        run.fail(Finding("C17.R5", fi.qualname, "; ".join(problems)[:400], "a derivative's to() must cast every underlier", file=str(prog.modules[fi.module].path), line=fi.node.lineno))
    # ---- R6 results computed from the data are in the data's dtype (term-level provenance under torch's promotion rules)
    from .. import entrypoints as E
    from ..dtypes import DATA, SCALAR, provenance
    n = 0

    def judge(label, owner_fi, value, user_callable_ok=False, events=()):
        nonlocal n
        v, leaves = provenance(value, events)
        n += 1
        ok = v == DATA or (user_callable_ok and v == SCALAR)
        why = "; ".join(f"{w}: {str(t)[:70]}" for t, w in leaves[:2]) or f"provenance {v}"
        run.oblige("C17.R6", label + " is in the data's dtype", ok, "constants are built like the data or cast before they meet it" if ok else why)
        if not ok:
            run.fail(Finding("C17.R6", owner_fi.qualname, f"{label}: {why}"[:300], "constant tensor built in the global default dtype reaches a result without a cast to the data's dtype",
                             file=str(prog.modules[owner_fi.module].path), line=owner_fi.node.lineno, case=label))

    def memo_without_dtype(events):
        """a (key, value) pair remembered on an object (attribute or __dict__ entry) whose value takes its dtype / device from a tensor that the
        key does not record: after a cast the old-dtype value is handed out again"""
        bad = []
        for e in events:
            v_ = e.get("value")
            if e["kind"] in ("obj_setattr", "dict_store") and isinstance(v_, tuple) and len(v_) == 2 and isinstance(v_[0], tuple) and isinstance(v_[1], (Op, Sym)):
                key_, val_ = v_
                have = {c_.args[0] for c_ in key_ if isinstance(c_, Op) and c_.op == "attr_dtype"}
                for t_ in walk(val_):
                    if isinstance(t_, Op) and t_.op == "to" and len(t_.args) == 2 and isinstance(t_.args[1], (Op, Sym)) and t_.args[1] not in have and t_.args[1] not in key_:
                        bad.append(f"the value remembered under {e.get('attr') or e.get('key')} is cast like {str(t_.args[1])[:40]}, whose dtype is not part of the key")
        return sorted(set(bad))

    for label, mode, ts, make in E.feature_runs(ctx):
        if label.startswith("Empty"):
            continue
        f = make()
        get = prog.lookup_method(f.cls, "get")
        for r in interp.explore(get, [ts], {}, self_obj=f):
            if not r["raises"]:
                judge(f"{label}.get({mode})", get, r["value"], user_callable_ok=label.startswith("Spot"))
                for why_ in memo_without_dtype(r["events"]):
                    run.fail(Finding("C17.R6", get.qualname, f"{label}.get({mode}): {why_}"[:300], "a value computed in one dtype is remembered and returned after the instrument was cast to another",
                                     file=str(prog.modules[get.module].path), line=get.node.lineno, case=f"{label}.get({mode}) memo"))
    for pn in E.PAYOFFS + ["european_forward_start_payoff", "realized_variance", "realized_volatility"]:
        fi = E.functional(ctx, pn)
        names = [a.arg for a in fi.node.args.args]
        kw = dict(input=W.tensor("S", "buffer"))
        for k_, v_ in (("strike", W.fl("K")), ("dt", W.fl("dt")), ("start_index", W.integer("i0"))):
            if k_ in names:
                kw[k_] = v_
        for call in ((True, False) if "call" in names else (None,)):
            if call is not None:
                kw["call"] = call
            for r in interp.explore(fi, [], dict(kw)):
                if not r["raises"]:
                    judge(f"{pn}" + (f"[call={call}]" if call is not None else ""), fi, r["value"])
    fi = E.functional(ctx, "pl")
    for r in interp.explore(fi, [], dict(spot=W.tensor("spot"), unit=W.tensor("unit"), cost=[W.fl("c0"), W.fl("c1")], payoff=W.tensor("payoff"))):
        if not r["raises"]:
            judge("pl(spot, unit, cost, payoff)", fi, r["value"])
    ch = prog.lookup_method(W.HEDGER, "compute_hedge")
    for branch, feats in (("vectorised", ["Moneyness"]), ("recurrent", ["Moneyness", "PrevHedge"])):
        hh = W.hedger(prog, [W.feature(c, **({"log": False} if c == "Moneyness" else {})) for c in feats])
        for r in interp.explore(ch, [W.option()], {}, self_obj=hh):
            if not r["raises"]:
                judge(f"Hedger.compute_hedge [{branch}]", ch, r["value"], events=r["events"])
    for fname, kw in (("entropic_risk_measure", dict(a=W.fl("a"))), ("expected_shortfall", dict(p=W.fl("p"), dim=0)), ("value_at_risk", dict(p=W.fl("p"), dim=0)), ("quadratic_cvar", dict(lam=W.fl("lam"), dim=0)),
                      ("exp_utility", dict(a=W.fl("a"))), ("leaky_clamp", dict(min=W.tensor("lo"), max=W.tensor("hi"))), ("clamp", dict(min=W.tensor("lo"), max=W.tensor("hi")))):
        fi = E.functional(ctx, fname)
        for r in interp.explore(fi, [], dict(input=W.tensor("x"), **kw), max_paths=50):
            if not r["raises"]:
                judge(fname, fi, r["value"])
    # the plumbing between the instruments and a result: parameter parsing, automatic Greeks, the averaging helper, the hedger's own results
    # and the criteria's cash amounts (a helper that converts to the global default dtype turns a float64 computation into float32)
    for pname, kws in (("parse_spot", [dict(spot=W.tensor("S")), dict(moneyness=W.tensor("m"), strike=W.tensor("K")), dict(log_moneyness=W.tensor("lm"), strike=W.tensor("K")),
                                       dict(log_moneyness=W.tensor("lm"), strike=W.fl("Kf"))]),
                       ("parse_volatility", [dict(volatility=W.tensor("v")), dict(variance=W.tensor("var"))]), ("parse_time_to_maturity", [dict(time_to_maturity=W.tensor("t"))])):
        fi = prog.functions.get("pfhedge._utils.parse." + pname)
        if fi is None:
            raise AnalysisError(f"anchor vanished: {pname}")
        for kw in kws:
            for r in interp.explore(fi, [], dict(kw)):
                if not r["raises"]:
                    judge(f"{pname}({', '.join(kw)})", fi, r["value"])
    em = prog.functions.get("pfhedge._utils.operations.ensemble_mean")
    if em is None:
        raise AnalysisError("anchor vanished: ensemble_mean")
    for nt in (1, W.integer("n_times")):
        for r in interp.explore(em, [Sym("function", ("callable",))], dict(n_times=nt), max_paths=20):
            if not r["raises"]:
                judge(f"ensemble_mean(n_times={'1' if nt == 1 else 'n'})", em, r["value"], user_callable_ok=True)
    L_ = "pfhedge.nn.modules.loss."
    for meth in ("compute_portfolio", "compute_pl", "compute_loss", "price"):
        mfi = prog.lookup_method(W.HEDGER, meth)
        if mfi is None:
            raise AnalysisError(f"anchor vanished: Hedger.{meth}")
        hh = W.hedger(prog, [W.feature("Moneyness", log=False)])
        hh.attrs["criterion"] = Obj(L_ + "EntropicRiskMeasure", "criterion", dict(a=W.fl("a")))
        kw_ = dict(n_times=W.integer("n_times")) if meth in ("compute_loss", "price") else {}
        for r in interp.explore(mfi, [W.option()], kw_, self_obj=hh, max_paths=60):
            if not r["raises"]:
                judge(f"Hedger.{meth}", mfi, r["value"], events=r["events"])
    for cls_, attrs_ in (("EntropicRiskMeasure", dict(a=W.fl("a"))), ("EntropicLoss", dict(a=W.fl("a"))), ("IsoelasticLoss", dict(a=W.fl("a"))), ("ExpectedShortfall", dict(p=W.fl("p"))),
                         ("QuadraticCVaR", dict(lam=W.fl("lam")))):
        for meth in ("forward", "cash"):
            mfi = prog.lookup_method(L_ + cls_, meth)
            if mfi is None:
                raise AnalysisError(f"anchor vanished: {cls_}.{meth}")
            try:
                rs = [r for r in interp.explore(mfi, [W.tensor("pl"), W.tensor("target")], {}, self_obj=Obj(L_ + cls_, cls_.lower(), dict(attrs_)), max_paths=60) if not r["raises"]]
            except Unsupported as ex:
                raise AnalysisError(f"{cls_}.{meth}: {ex}")
            for r in rs:
                judge(f"{cls_}.{meth}", mfi, r["value"], events=r["events"])
    run.require("C17.R6", 70)


def no_override_rule(ctx, run):
    """R7: the inductive invariant is about BasePrimary's state operations; it covers a concrete instrument only if that class does not
    replace them: to / register_buffer / _parse_to / buffers / named_buffers / get_buffer / spot resolve (through the MRO computed from the
    sources) to BasePrimary for the 8 primaries, and to / dtype / device to BaseDerivative for the derivative classes; no primary class
    keeps tensor state outside `_buffers` (a cached series survives a later to())."""
    import ast
    prog = ctx.prog
    run.require("C17.R7", 8)
    ops = ("to", "register_buffer", "_parse_to", "buffers", "named_buffers", "get_buffer", "spot", "__getattr__", "cpu", "cuda", "double", "float", "half", "bfloat16")
    for cls in primary_classes(prog):
        short = cls.rsplit(".", 1)[-1]
        bad = []
        for m_ in ops:
            fi = prog.lookup_method(cls, m_)
            if fi is not None and not fi.qualname.startswith((BASE + ".", "pfhedge.instruments.base.BaseInstrument.")):
                bad.append(f"{m_} is overridden by {fi.qualname}")
        # tensor state outside the buffer table: self.<name> = <something computed from buffers> in a method other than __init__
        ci = prog.classes[cls]
        for node in ast.walk(ci.node):
            if isinstance(node, ast.FunctionDef) and node.name != "__init__":
                for st in ast.walk(node):
                    if isinstance(st, (ast.Assign, ast.AugAssign, ast.AnnAssign)):
                        tgts = st.targets if isinstance(st, ast.Assign) else [st.target]
                        val = getattr(st, "value", None)
                        # tensor-valued: derived from a buffer / a generator result / a torch call (a float or flag kept for bookkeeping is not state of this kind)
                        tensorish = val is not None and any(
                            (isinstance(n_, ast.Attribute) and n_.attr in ("spot", "variance", "volatility")) or
                            (isinstance(n_, ast.Call) and (ast.unparse(n_.func).startswith(("torch.", "generate_")) or ast.unparse(n_.func).split(".")[-1] in ("get_buffer", "sqrt", "clamp", "exp", "log", "square", "clone", "detach", "to")))
                            for n_ in ast.walk(val))
                        for t_ in tgts:
                            if tensorish and isinstance(t_, ast.Attribute) and isinstance(t_.value, ast.Name) and t_.value.id == "self":
                                bad.append(f"{node.name} stores self.{t_.attr} (tensor state outside _buffers is not re-cast by to())")
        run.oblige("C17.R7", f"{short}: state operations are BasePrimary's, no tensor state outside _buffers", not bad, "; ".join(bad))
        if bad:
            run.fail(Finding("C17.R7", cls, "; ".join(bad)[:300], "this instrument escapes the cast/simulate invariant: something it holds is not re-cast when the instrument is moved",
                             file=str(prog.modules[ci.module].path), line=ci.node.lineno))
    DBASE = "pfhedge.instruments.derivative.base.BaseDerivative"
    for cls in sorted(c for c in prog.subclasses(DBASE) if c.startswith("pfhedge.instruments.derivative.") and c != DBASE):
        bad = []
        for m_ in ("to", "dtype", "device", "cpu", "cuda", "double", "float", "half", "bfloat16"):
            fi = prog.lookup_method(cls, m_)
            if fi is not None and not fi.qualname.startswith((DBASE + ".", "pfhedge.instruments.base.BaseInstrument.")):
                bad.append(f"{m_} is overridden by {fi.qualname}")
        run.oblige("C17.R7", f"{cls.rsplit('.', 1)[-1]}: to/dtype/device are BaseDerivative's", not bad, "; ".join(bad))
        if bad:
            ci = prog.classes[cls]
            run.fail(Finding("C17.R7", cls, "; ".join(bad)[:300], "this derivative replaces the forwarding of casts to its underliers", file=str(prog.modules[ci.module].path), line=ci.node.lineno))


def derived_series_rule(ctx, run):
    """R7 (derived series): the read-only series of every primary (spot, volatility, variance) are recomputed from the buffers on each
    access and leave nothing on the instrument - a memoised tensor keeps the dtype/device it had before a later to()."""
    from ..purity import stores
    prog, interp = ctx.prog, ctx.interp
    for cls in primary_classes(prog):
        short = cls.rsplit(".", 1)[-1]
        for prop_ in ("spot", "volatility", "variance"):
            fi = prog.lookup_method(cls, prop_)
            if fi is None:
                continue
            o = Obj(cls, "stock")
            o.attrs["__buf_spot"] = W.tensor("stock.spot", "buffer")
            o.attrs["__buf_variance"] = W.tensor("stock.variance", "buffer")
            o.attrs["__buf_volatility"] = W.tensor("stock.volatility", "buffer")
            try:
                # read through attribute access (a cached_property stores its first value in the instance dict on access)
                from ..source import FuncInfo as _FI
                drv = _FI("synthetic.read_series", cls.rsplit(".", 1)[0], ast.parse(f"def read_series(s):\n    return s.{prop_}\n").body[0])
                res = interp.explore(drv, [o], {})
            except Unsupported as ex:
                raise AnalysisError(f"{short}.{prop_}: {ex}")
            st = stores(res)
            run.oblige("C17.R7", f"{short}.{prop_} keeps no state on the instrument", not st, "; ".join(st))
            if st:
                run.fail(Finding("C17.R7", fi.qualname, f"{short}.{prop_}: " + "; ".join(st), "a series remembered on the instrument is not re-cast by to(): it keeps the dtype/device it was computed in",
                                 file=str(prog.modules[fi.module].path), line=fi.node.lineno))


_check_before_override = check


def check(ctx, run):  # noqa: F811
    _check_before_override(ctx, run)
    no_override_rule(ctx, run)
    derived_series_rule(ctx, run)
    # R8: the buffer registry itself, exercised by call histories (pfsa/registry.py): every read returns the tensor registered last,
    # converted to the instrument's device and dtype
    from ..registry import primary_histories_rule
    primary_histories_rule(ctx, run, "C17.R8")
    from ..registry import reconfigure_rule
    reconfigure_rule(ctx, run, "C17.R8")
    # R8x: every sequence of at most 2 (thorough: 3, all classes) cast / simulate / register calls, from a new and from a simulated instrument
    from ..registry import cast_histories_rule
    import os as _os
    P_ = "pfhedge.instruments.primary."
    if ctx.tier == "thorough":
        jobs_ = max(1, min(16, _os.cpu_count() or 1))
        cast_histories_rule(ctx, run, "C17.R8x", 3, jobs=jobs_)
        if jobs_ >= 8:  # one level deeper on the one-buffer and the two-buffer instrument
            cast_histories_rule(ctx, run, "C17.R8y", 4, classes=[P_ + "brownian.BrownianStock", P_ + "heston.HestonStock"], jobs=jobs_)
    else:
        cast_histories_rule(ctx, run, "C17.R8x", 2, classes=[P_ + "brownian.BrownianStock", P_ + "heston.HestonStock"])
    from ..ctors import rebinding_rule
    rebinding_rule(ctx, run, "C17.R4", ['pfhedge.instruments'], 20)
