"""C08 - Greeks are the derivatives of the price.
Added after the seeded-defect rounds: R4s automatic Greeks for pricers parameterised by variance / log-moneyness only; R6 precision provenance of the closed-form Greeks and of npdf/ncdf/d1/d2.
Third round: R7 the modules keep call flag, strike and derivative they were created with.
Rounds 4-5: R7 also the re-binding statements of the Black-Scholes modules."""
import sympy as sp

from .. import bsterms as B
from ..report import AnalysisError, Finding
from ..units import ONE, U, UnitChecker

H = sp.Rational(1, 2)
PRICE_UNIT = {"european": U(0, 1), "european_binary": ONE, "american_binary": ONE, "lookback": U(0, 1)}


def greek_unit(price_unit, greek):
    p = price_unit
    return {"price": p, "delta": U(p.t, p.d - 1), "gamma": U(p.t, p.d - 2), "vega": U(p.t + H, p.d), "theta": U(p.t - 1, p.d)}[greek]


DECL = {"s": ONE, "m": ONE, "t": U(1, 0), "v": U(-H, 0), "K": U(0, 1)}


def check(ctx, run):
    prog, interp = ctx.prog, ctx.interp
    run.trusted += ["operator table", "sympy %s (diff, simplify)" % sp.__version__, "torch.autograd for autogreek-based Greeks"]
    run.require("C08.R1", 12)
    run.require("C08.R2", 20)
    families = [("european", dict(call=True), None), ("european_binary", dict(call=True), None), ("american_binary", {}, "below"),
                ("european", dict(call=False), None), ("european_binary", dict(call=False), None)]
    # ---- R1: closed forms are derivatives of the repo's own price term
    for fam, flags, regime in families:
        _, price, _ = B.extract(prog, interp, f"bs_{fam}_price", regime, **flags)
        P = B.concretize(price)
        want = {"delta": sp.diff(P, B.S), "gamma": sp.diff(P, B.S, 2), "vega": sp.diff(P, B.v), "theta": -sp.diff(P, B.t)}
        for greek, target in want.items():
            fname = f"bs_{fam}_{greek}"
            term, g, res = B.extract(prog, interp, fname, regime, **flags)
            run.functions.add(B.F + fname)
            ok, resid = B.is_zero(g - target)
            case = ",".join(f"{k}={v}" for k, v in flags.items()) or "-"
            run.oblige("C08.R1", f"{fname}[{case}]", ok, f"{greek} - d(price) = {str(resid)[:120]}",
                       sample={"rule": "C08.R1", "function": fname, "case": case, "identity": f"{greek} == derivative of bs_{fam}_price", "residual": str(resid)[:200]})
            if not ok:
                fi = prog.functions[B.F + fname]
                run.fail(Finding("C08.R1", B.F + fname, f"{greek} vs derivative of bs_{fam}_price [{case}]",
                                 f"closed form is not the derivative of the price: residual {str(resid)[:220]}",
                                 file=str(prog.modules[fi.module].path), line=fi.node.lineno, case=case))
    # ---- R2: units of all 20 functions
    for fam, punit in PRICE_UNIT.items():
        for greek in ("price", "delta", "gamma", "vega", "theta"):
            fname = f"bs_{fam}_{greek}"
            if fam == "lookback" and greek != "price":
                run.oblige("C08.R2", fname, True, "autogreek of bs_lookback_price (unit follows from the price)")
                continue
            regime = "below" if fam in ("american_binary", "lookback") else None
            flags = dict(call=True) if "call" in [a.arg for a in prog.functions[B.F + fname].node.args.args] else {}
            term, _, res = B.extract(prog, interp, fname, regime, **flags)
            uc = UnitChecker(dict(DECL))
            got = uc.of(term, True)
            want = greek_unit(punit, greek)
            errs = list(dict.fromkeys(m for m, _ in uc.errors))
            ok = not errs and (got == "POLY" or got == want)
            run.oblige("C08.R2", fname, ok, f"unit {got}, declared {want}; {errs[:2]}")
            if not ok:
                fi = prog.functions[B.F + fname]
                run.fail(Finding("C08.R2", B.F + fname, f"unit of result {got} (declared {want})",
                                 "; ".join(errs[:3]) or f"result unit {got} differs from declared {want}",
                                 file=str(prog.modules[fi.module].path), line=fi.node.lineno))


def lookback_functionals(ctx, run):
    """R5: the lookback Greeks have no closed form here; delta and gamma must be the automatic derivative of bs_lookback_price at the
    function's own arguments, vega and theta the gamma relations applied to that gamma with spot = strike * exp(log_moneyness)"""
    from .. import world as W
    from ..equiv import same
    from ..source import FuncInfo
    from ..term import Op, Sym
    prog, interp = ctx.prog, ctx.interp
    run.require("C08.R5", 4)
    for greek in ("delta", "gamma", "vega", "theta"):
        fname = f"bs_lookback_{greek}"
        fi = prog.functions.get(B.F + fname)
        if fi is None:
            raise AnalysisError(f"anchor vanished: {fname}")
        run.functions.add(fi.qualname)
        kw = {a.arg: (W.fl("K") if a.arg == "strike" else W.tensor(a.arg)) for a in fi.node.args.args}
        res = [r for r in interp.explore(fi, [], dict(kw), max_paths=20) if not r["raises"]]
        if len(res) != 1:
            raise AnalysisError(f"{fname}: expected one path")
        own, stack = [], []
        for e in res[0]["events"]:
            if e["kind"] == "enter":
                stack.append(e["callee"])
            elif e["kind"] == "exit":
                stack.pop()
            elif e["kind"] == "call" and len(stack) <= 1:
                own.append(e)
        problems = []

        def forwards_all(e, names):
            k2 = dict(e.get("bound") or e["kwargs"])
            return all(k2.get(n) == kw[n] for n in names)

        everywhere = [e for e in res[0]["events"] if e["kind"] == "call"]  # calls at any depth (a dispatch helper may sit in between)

        names = [n for n in kw]
        if greek in ("delta", "gamma"):
            ag = [e for e in own if e["callee"] == f"pfhedge.autogreek.{greek}"]
            if len(ag) != 1 or len(own) != 1:
                problems.append(f"calls {[e['callee'].rsplit('.', 1)[-1] for e in own]}, expected autogreek.{greek} only")
            else:
                pr = ag[0]["args"][0] if ag[0]["args"] else ag[0]["kwargs"].get("pricer")
                if not (isinstance(pr, FuncInfo) and pr.qualname == B.F + "bs_lookback_price"):
                    problems.append(f"differentiates {getattr(pr, 'qualname', pr)}, not bs_lookback_price")
                if not forwards_all(ag[0], names):
                    problems.append("does not forward all of its own arguments to the pricer")
        else:
            rel = f"_bs_{greek}_gamma_relation"
            g = [e for e in everywhere if e["callee"] == B.F + "bs_lookback_gamma"]
            rc = [e for e in everywhere if e["callee"] == B.F + rel]
            if len(g) != 1 or len(rc) != 1:
                problems.append(f"calls {[e['callee'].rsplit('.', 1)[-1] for e in own]}, expected bs_lookback_gamma and {rel}")
            else:
                if not forwards_all(g[0], names):
                    problems.append("gamma is not evaluated at the function's own arguments")
                rkw = dict(rc[0].get("bound") or rc[0]["kwargs"])
                want_spot = Op("mul", (Op("exp", (kw["log_moneyness"],)), kw["strike"]))
                if not same(rkw.get("spot"), want_spot):
                    problems.append(f"spot handed to {rel} is {str(rkw.get('spot'))[:60]}")
                if rkw.get("volatility") != kw["volatility"] or ("time_to_maturity" in rkw and rkw["time_to_maturity"] != kw["time_to_maturity"]):
                    problems.append("volatility / time to maturity are not the function's own")
                gv = [e2["value"] for e2 in res[0]["events"] if e2["kind"] == "exit" and e2["callee"] == B.F + "bs_lookback_gamma"]
                if not gv or rkw.get("gamma") != gv[0]:
                    problems.append("the relation is not applied to the lookback gamma")
                if res[0]["value"] != [e2["value"] for e2 in res[0]["events"] if e2["kind"] == "exit" and e2["callee"] == B.F + rel][-1]:
                    problems.append("the result of the relation is not what is returned")
        ok = not problems
        run.oblige("C08.R5", fname, ok, "; ".join(problems) or ("autogreek of bs_lookback_price" if greek in ("delta", "gamma") else "gamma relation on bs_lookback_gamma"))
        if not ok:
            run.fail(Finding("C08.R5", fi.qualname, "; ".join(problems), "the lookback Greek is not derived from bs_lookback_price at the function's own arguments",
                             file=str(prog.modules[fi.module].path), line=fi.node.lineno))


# ------------------------------------------------------------------------------------------------ R3 / R4
import ast as _ast

from ..interp import Obj as _Obj
from ..source import FuncInfo as _FuncInfo
from ..term import Op as _Op, Sym as _Sym, walk as _walk
from .. import world as _W

_PRICER_SRC = ("def pricer(spot=None, moneyness=None, log_moneyness=None, strike=None, volatility=None, variance=None, time_to_maturity=None):\n"
               "    return (spot, moneyness, log_moneyness, strike, volatility, variance, time_to_maturity)\n")


def _leaf(t):
    return isinstance(t, _Op) and t.op == "requires_grad_"


def _strip_rg(t):
    while _leaf(t):
        t = t.args[0]
    return t


def _norm(t):
    """the value of a term with the requires_grad_ markers removed"""
    from ..term import subst as _subst
    prev = None
    while prev is not t:
        prev = t
        marks = {x: x.args[0] for x in _walk(t) if _leaf(x)} if isinstance(t, (_Op, _Sym)) else {}
        if marks:
            t = _subst(t, marks)
    return t


def _same(a, b):
    from ..equiv import same
    return same(a, b)


def autogreek_rules(ctx, run):
    prog, interp = ctx.prog, ctx.interp
    pricer = _FuncInfo("synthetic.pricer", "pfhedge.autogreek", _ast.parse(_PRICER_SRC).body[0])
    K = _W.fl("K")
    cases = [
        ("delta", dict(log_moneyness=_W.tensor("lm"), strike=K, volatility=_W.tensor("vol"), time_to_maturity=_W.tensor("ttm")), _Op("mul", (_Op("exp", (_W.tensor("lm"),)), _W.fl("K")))),
        ("delta", dict(moneyness=_W.tensor("mn"), strike=K, volatility=_W.tensor("vol"), time_to_maturity=_W.tensor("ttm")), _Op("mul", (_W.tensor("mn"), _W.fl("K")))),
        ("delta", dict(spot=_W.tensor("S"), strike=K, volatility=_W.tensor("vol"), time_to_maturity=_W.tensor("ttm")), _W.tensor("S")),
        ("gamma", dict(log_moneyness=_W.tensor("lm"), strike=K, volatility=_W.tensor("vol"), time_to_maturity=_W.tensor("ttm")), _Op("mul", (_Op("exp", (_W.tensor("lm"),)), _W.fl("K")))),
        ("vega", dict(spot=_W.tensor("S"), variance=_W.tensor("var"), time_to_maturity=_W.tensor("ttm")), _Op("sqrt", (_Op("relu", (_W.tensor("var"),)),))),
        ("vega", dict(spot=_W.tensor("S"), volatility=_W.tensor("vol"), time_to_maturity=_W.tensor("ttm")), _W.tensor("vol")),
        ("theta", dict(spot=_W.tensor("S"), volatility=_W.tensor("vol"), time_to_maturity=_W.tensor("ttm")), _W.tensor("ttm")),
    ]
    run.require("C08.R4", 7)
    for g, kw, leaf_src in cases:
        fi = prog.functions.get("pfhedge.autogreek." + g)
        if fi is None:
            raise AnalysisError(f"anchor vanished: pfhedge.autogreek.{g}")
        run.functions.add(fi.qualname)
        res = [r for r in interp.explore(fi, [pricer], dict(kw)) if not r["raises"]]
        problems = []
        if len(res) != 1:
            problems.append(f"{len(res)} paths")
        else:
            v = res[0]["value"]
            neg = False
            if g == "theta":
                if not (isinstance(v, _Op) and v.op == "neg"):
                    problems.append("theta is not minus the derivative w.r.t. time to maturity")
                else:
                    v, neg = v.args[0], True
            grads = [s for s in _walk(v) if isinstance(s, _Op) and s.op == "autograd_grad"]
            if not (isinstance(v, _Op) and v.op == "index" and v.args[1] == 0 and grads and v.args[0] is grads[0] or (grads and v.args[0] == grads[0])):
                problems.append("result is not autograd.grad(...)[0]")
            inner = grads[-1] if grads else None  # the innermost grad is the one applied to the pricer's value
            if inner is not None:
                price = inner.args[0]
                leaf = inner.kwd().get("inputs")
                if not _leaf(leaf) or not _same(_norm(leaf), leaf_src):
                    problems.append(f"differentiation leaf is {str(leaf)[:60]}, expected requires_grad_({leaf_src})")
                go = inner.kwd().get("grad_outputs")
                if not (isinstance(go, _Op) and go.op == "ones_like" and go.args[0] == price):
                    problems.append("grad_outputs is not ones_like(price)")
                if isinstance(price, tuple) and len(price) == 7:
                    spot, mny, lmny, strike, vol, var, ttm = price
                    L = leaf

                    def from_leaf(x, want):
                        """x depends on the leaf tensor (same autograd node) and has the value `want` as a function of it"""
                        return isinstance(x, (_Op, _Sym)) and any(y == L for y in _walk(x)) and _same(_norm(x), _norm(want))

                    if g in ("delta", "gamma"):
                        if not from_leaf(spot, L):
                            problems.append("pricer's spot is not the differentiation leaf")
                        if "strike" in kw:
                            if not from_leaf(mny, _Op("div", (L, K))):
                                problems.append("moneyness is not re-derived from the leaf (spot / strike)")
                            if not from_leaf(lmny, _Op("log", (_Op("div", (L, K)),))):
                                problems.append("log_moneyness is not re-derived from the leaf (log(spot / strike))")
                    if g == "vega":
                        if not from_leaf(vol, L):
                            problems.append("pricer's volatility is not the differentiation leaf")
                        if not from_leaf(var, _Op("square", (L,))):
                            problems.append("variance is not re-derived from the leaf (volatility squared)")
                    if g == "theta" and not from_leaf(ttm, L):
                        problems.append("pricer's time_to_maturity is not the differentiation leaf")
                else:
                    problems.append("pricer was not called with the parsed parameters")
                if g == "gamma":
                    outer = grads[0]
                    if len(grads) < 2 or inner.kwd().get("create_graph") is not True:
                        problems.append("gamma does not differentiate delta computed with create_graph=True")
                    elif not _same(_norm(outer.kwd().get("inputs")), _norm(inner.kwd().get("inputs"))) or not any(y == outer.kwd().get("inputs") for y in _walk(inner.kwd().get("inputs"))):
                        problems.append("gamma differentiates w.r.t. a different leaf than delta")
        ok = not problems
        label = f"autogreek.{g}({', '.join(sorted(kw))})"
        run.oblige("C08.R4", label, ok, "; ".join(problems), sample={"rule": "C08.R4", "call": label, "problems": problems})
        if not ok:
            run.fail(Finding("C08.R4", fi.qualname, f"{label}: {'; '.join(problems)}"[:400], "the automatic Greek does not differentiate the pricer w.r.t. the re-parameterised input",
                             file=str(prog.modules[fi.module].path), line=fi.node.lineno))


def module_rules(ctx, run):
    """R3: which Greek each module method computes"""
    prog, interp = ctx.prog, ctx.interp
    MOD = "pfhedge.nn.modules.bs."
    table = {
        "european.BSEuropeanOption": ("european", {"delta", "gamma", "vega", "theta"}),
        "european_binary.BSEuropeanBinaryOption": ("european_binary", {"delta", "gamma", "vega", "theta"}),
        "american_binary.BSAmericanBinaryOption": ("american_binary", {"delta"}),
        "lookback.BSLookbackOption": ("lookback", set()),
    }
    run.require("C08.R3", 16)
    for mq, (fam, explicit) in table.items():
        cq = MOD + mq
        if cq not in prog.classes:
            raise AnalysisError(f"anchor vanished: {cq}")
        for g in ("delta", "gamma", "vega", "theta"):
            m = prog.lookup_method(cq, g)
            names = [a.arg for a in m.node.args.args[1:] if a.arg != "create_graph"]
            o = _Obj(cq, "bs", {"call": _Sym("bs.call", ("bool",)), "strike": _W.fl("bs.strike"), "derivative": None})
            args = {n: _W.tensor(n) for n in names}
            try:
                res = [r for r in interp.explore(m, [], args, self_obj=o, max_paths=60) if not r["raises"]]
            except Exception as ex:  # autogreek inside: analysed through its events only
                res = []
            calls_f = [e for r in res for e in r["events"] if e["kind"] == "call" and e["callee"] == B.F + f"bs_{fam}_{g}"]
            calls_a = [e for r in res for e in r["events"] if e["kind"] == "call" and e["callee"] == f"pfhedge.autogreek.{g}"]
            problems = []
            if g in explicit:
                if not calls_f:
                    problems.append(f"does not call bs_{fam}_{g}")
                fparams = [a.arg for a in prog.functions[B.F + f"bs_{fam}_{g}"].node.args.args]
                for e in calls_f:
                    kw = dict(e.get("bound") or e["kwargs"])   # arguments by parameter name, however they were passed
                    for n in names:
                        if kw.get(n) != _W.tensor(n):
                            problems.append(f"{n} not forwarded")
                    if "strike" in fparams and kw.get("strike") != _W.fl("bs.strike"):
                        problems.append("strike is not self.strike")
                    if "call" in fparams and kw.get("call") != _Sym("bs.call", ("bool",)):
                        problems.append("call is not self.call")
            else:
                if not calls_a:
                    problems.append(f"does not reach autogreek.{g}")
                for e in calls_a:
                    pr = e["args"][0] if e["args"] else e["kwargs"].get("pricer")
                    if not (hasattr(pr, "fi") and pr.fi.qualname == prog.lookup_method(cq, "price").qualname):
                        problems.append("autogreek is not applied to this module's own price")
                    if e["kwargs"].get("strike") != _W.fl("bs.strike"):
                        problems.append("strike=self.strike is not passed to autogreek")
            problems = sorted(set(problems))
            ok = not problems
            run.oblige("C08.R3", f"{mq.split('.')[-1]}.{g}", ok, "; ".join(problems))
            if not ok:
                run.fail(Finding("C08.R3", m.qualname, "; ".join(problems), f"the module's {g} is not the {g} of its own price", file=str(prog.modules[m.module].path), line=m.node.lineno))


_check_r12 = check


def module_level(ctx, run):
    """thorough tier: every Greek *method* of the pricing modules that is a closed form, interpreted end to end at the module's own
    strike and call flag, is the same function as the functional form (whose identity with the derivative of the price is R1)"""
    prog, interp = ctx.prog, ctx.interp
    from ..interp import Unsupported
    MOD = "pfhedge.nn.modules.bs."
    mods = {"european.BSEuropeanOption": "european", "european_binary.BSEuropeanBinaryOption": "european_binary", "american_binary.BSAmericanBinaryOption": "american_binary"}
    n = 0
    for mq, fam in mods.items():
        cq = MOD + mq
        has_call = "call" in [a.arg for a in prog.functions[B.F + f"bs_{fam}_price"].node.args.args]
        regime = "below" if fam == "american_binary" else None
        for greek in ("delta", "gamma", "vega", "theta"):
            gm = prog.lookup_method(cq, greek)
            if gm is None:
                raise AnalysisError(f"anchor vanished: {cq}.{greek}")
            for call in ((True, False) if has_call else (None,)):
                flags = {"call": call} if has_call else {}
                probe = _Obj(cq, "bs", {"derivative": None, "strike": B.K_, **({"call": call} if has_call else {})})
                try:
                    term, em, _ = B.extract_fi(prog, interp, gm, regime, probe)
                except (Unsupported, NotImplementedError):
                    continue  # automatic differentiation of self.price: R3 / R4
                if any(isinstance(x, _Op) and x.op.startswith("autograd") for x in _walk(term)):
                    continue
                _, ef, _ = B.extract(prog, interp, f"bs_{fam}_{greek}", regime, **flags)
                ok, resid = B.is_zero(em - ef)
                label = f"{mq.split('.')[-1]}.{greek}[{'call' if call else 'put' if call is not None else '-'}]"
                n += 1
                run.oblige("C08.R3", label + " == functional form", ok, f"residual {str(resid)[:80]}")
                if not ok:
                    run.fail(Finding("C08.R3", gm.qualname, f"{label}: residual {str(resid)[:200]}", "the module's Greek differs from the functional form at its own strike / call flag",
                                     file=str(prog.modules[gm.module].path), line=gm.node.lineno, case=label))
    if n < 12:
        raise AnalysisError(f"module-level tier covered only {n} Greek methods")


def check(ctx, run):  # noqa: F811
    _check_r12(ctx, run)
    lookback_functionals(ctx, run)
    B.default_call_is_call(ctx.prog, ctx.interp, run, "C08.R3", [f"bs_{fam}_{g}" for fam in ("european", "european_binary") for g in ("delta", "gamma", "vega", "theta")])
    autogreek_rules(ctx, run)
    module_rules(ctx, run)
    if ctx.tier == "thorough":
        module_level(ctx, run)


def autogreek_signature_rule(ctx, run):
    """R4 (pricer signatures): vega is dP/d(volatility) whatever the pricer is parameterised by.  Probed with pricers that accept only
    `variance`, only `volatility`, and the spot family one name at a time: the differentiation leaf is the volatility (resp. the spot) and the
    argument the pricer does accept is re-derived from that leaf (variance = leaf^2, moneyness = leaf / strike, ...)."""
    prog, interp = ctx.prog, ctx.interp
    run.require("C08.R4s", 3)
    K = _W.fl("K")
    probes = [
        ("vega", "def pricer_var(spot=None, variance=None, time_to_maturity=None):\n    return (spot, variance, time_to_maturity)\n",
         dict(spot=_W.tensor("S"), variance=_W.tensor("var"), time_to_maturity=_W.tensor("ttm")), _Op("sqrt", (_Op("relu", (_W.tensor("var"),)),)), 1, lambda L: _Op("square", (L,)), "variance = volatility^2"),
        ("vega", "def pricer_var(spot=None, variance=None, time_to_maturity=None):\n    return (spot, variance, time_to_maturity)\n",
         dict(spot=_W.tensor("S"), volatility=_W.tensor("vol"), time_to_maturity=_W.tensor("ttm")), _W.tensor("vol"), 1, lambda L: _Op("square", (L,)), "variance = volatility^2"),
        ("delta", "def pricer_lm(log_moneyness=None, volatility=None, time_to_maturity=None):\n    return (log_moneyness, volatility, time_to_maturity)\n",
         dict(spot=_W.tensor("S"), strike=K, volatility=_W.tensor("vol"), time_to_maturity=_W.tensor("ttm")), _W.tensor("S"), 0, lambda L: _Op("log", (_Op("div", (L, K)),)), "log_moneyness = log(spot / strike)"),
    ]
    for g, src, kw, leaf_src, pos, derived, what in probes:
        fi = prog.functions.get("pfhedge.autogreek." + g)
        if fi is None:
            raise AnalysisError(f"anchor vanished: pfhedge.autogreek.{g}")
        pricer = _FuncInfo("synthetic." + src.split("(")[0][4:], "pfhedge.autogreek", _ast.parse(src).body[0])
        res = [r for r in interp.explore(fi, [pricer], dict(kw)) if not r["raises"]]
        problems = []
        if len(res) != 1:
            problems.append(f"{len(res)} paths")
        else:
            grads = [s for s in _walk(res[0]["value"]) if isinstance(s, _Op) and s.op == "autograd_grad"]
            inner = grads[-1] if grads else None
            if inner is None:
                problems.append("no autograd.grad")
            else:
                leaf = inner.kwd().get("inputs")
                if not _leaf(leaf) or not _same(_norm(leaf), leaf_src):
                    problems.append(f"differentiation leaf is {str(_norm(leaf))[:60]}, expected {leaf_src}: the result is not d price / d {'volatility' if g == 'vega' else 'spot'}")
                price = inner.args[0]
                if isinstance(price, tuple) and len(price) == 3:
                    x = price[pos]
                    if not (isinstance(x, (_Op, _Sym)) and any(y == leaf for y in _walk(x)) and _same(_norm(x), _norm(derived(leaf)))):
                        problems.append(f"the pricer's argument is not re-derived from the leaf ({what})")
                else:
                    problems.append("pricer was not called with the parameters it accepts")
        label = f"autogreek.{g} with a pricer({', '.join(a.arg for a in pricer.node.args.args)}) given {', '.join(sorted(kw))}"
        ok = not problems
        run.oblige("C08.R4s", label, ok, "; ".join(problems))
        if not ok:
            run.fail(Finding("C08.R4s", fi.qualname, f"{label}: {'; '.join(problems)}"[:400], "the automatic Greek must be the derivative w.r.t. volatility / spot for every pricer parameterisation",
                             file=str(prog.modules[fi.module].path), line=fi.node.lineno))


_check_before_precision = check


def check(ctx, run):  # noqa: F811
    _check_before_precision(ctx, run)
    autogreek_signature_rule(ctx, run)
    from ..precision import closed_form_precision_rule
    run.require("C08.R6", 12)
    closed_form_precision_rule(ctx, run, "C08.R6", ["npdf", "ncdf", "d1", "d2"] + [f"bs_{fam}_{g}" for fam in ("european", "european_binary", "american_binary") for g in ("delta", "gamma", "vega", "theta")],
                               "float parameters and constants reach the closed-form Greek unrounded")


_check_before_ctors = check


def check(ctx, run):  # noqa: F811
    """R7: the Black-Scholes modules keep the call flag, strike and derivative they were created with"""
    _check_before_ctors(ctx, run)
    from ..ctors import ctor_rule
    N_ = "pfhedge.nn.modules.bs."
    ctor_rule(ctx, run, "C08.R7", [N_ + c for c in ("european.BSEuropeanOption", "lookback.BSLookbackOption", "american_binary.BSAmericanBinaryOption", "european_binary.BSEuropeanBinaryOption")], None,
              "the module prices / differentiates another contract than the one it was created for")
    from ..ctors import rebinding_rule
    rebinding_rule(ctx, run, "C08.R7", ["pfhedge.nn.modules.bs"], 8)
