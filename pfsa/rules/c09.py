"""C09 - Black-Scholes prices respect no-arbitrage structure.
R1 put-call parity and binary complement (identities between two flag cases of the repo's own code); R2 barrier constant and
continuity of the lookback price where the running maximum crosses the strike; R3 signs of the European Greeks on the open
domain (monotone/convex in spot, non-decreasing in volatility and time to maturity), range of binary prices; R4 the ordering clauses (call between intrinsic value and
spot, one-touch between the European binary and 1, lookback above the European call and above the locked-in payoff) by sign
certificates: positivity by structure, or a signed derivative plus a boundary value / limit.
Third round: R5 the prices are computed in the dtype of their inputs (the inequalities are facts about the formulas; float32 noise breaks them at double resolution)."""
import sympy as sp

from .. import bsterms as B
from ..extreal import ExtReal, fin
from ..algebra import ncdf as ncdf_, npdf as npdf_
from ..report import AnalysisError, Finding

tS, vS, KS = sp.Symbol("t", positive=True), sp.Symbol("v", positive=True), sp.Symbol("K", positive=True)


def check(ctx, run):
    prog, interp = ctx.prog, ctx.interp
    run.trusted += ["sympy simplify", "a function whose first (second) derivative is positive is increasing (convex); C08 ties the Greek terms to the price's derivatives"]
    run.require("C09.R1", 2)
    run.require("C09.R3", 5)
    fi = prog.functions.get(B.F + "bs_european_price")
    _, call, _ = B.extract(prog, interp, "bs_european_price", None, call=True)
    _, put, _ = B.extract(prog, interp, "bs_european_price", None, call=False)
    resid = sp.simplify(B.concretize(call - put) - (B.S - B.K))
    ok = resid == 0
    run.oblige("C09.R1", "european call - put == S - K", ok, str(resid)[:100], sample={"rule": "C09.R1", "identity": "call - put = S - K", "residual": str(resid)[:100]})
    if not ok:
        run.fail(Finding("C09.R1", fi.qualname, f"call - put - (S - K) = {str(resid)[:160]}", "put-call parity fails", file=str(prog.modules[fi.module].path), line=fi.node.lineno))
    fi = prog.functions.get(B.F + "bs_european_binary_price")
    _, bc, _ = B.extract(prog, interp, "bs_european_binary_price", None, call=True)
    _, bp, _ = B.extract(prog, interp, "bs_european_binary_price", None, call=False)
    resid = sp.simplify(B.concretize(bc + bp) - 1)
    ok = resid == 0
    run.oblige("C09.R1", "binary call + binary put == 1", ok, str(resid)[:100])
    if not ok:
        run.fail(Finding("C09.R1", fi.qualname, f"call + put - 1 = {str(resid)[:160]}", "the binary call and put do not add up to one", file=str(prog.modules[fi.module].path), line=fi.node.lineno))
    # ---- R2
    fi = prog.functions.get(B.F + "bs_american_binary_price")
    _, above, _ = B.extract(prog, interp, "bs_american_binary_price", "above")
    ok = sp.simplify(above - 1) == 0
    run.oblige("C09.R2", "one-touch == 1 once the barrier has been reached", ok, str(above)[:60])
    if not ok:
        run.fail(Finding("C09.R2", fi.qualname, f"value for max_log_moneyness > 0: {str(above)[:120]}", "after the barrier is hit the option is worth exactly one", file=str(prog.modules[fi.module].path), line=fi.node.lineno))
    # the barrier counts as reached when the running maximum *equals* the strike; from then on price 1, delta and gamma 0
    for fname, want in (("bs_american_binary_price", 1), ("bs_american_binary_delta", 0), ("bs_american_binary_gamma", 0)):
        fi2 = prog.functions.get(B.F + fname)
        if fi2 is None:
            raise AnalysisError(f"anchor vanished: {fname}")
        for regime in ("at", "above"):
            _, val, _ = B.extract(prog, interp, fname, regime)
            val = B.resolve_piecewise(val, {})
            okb = sp.simplify(val - want) == 0
            run.oblige("C09.R2", f"{fname} == {want} when the running maximum is {'at' if regime == 'at' else 'above'} the strike", okb, str(val)[:60])
            if not okb:
                run.fail(Finding("C09.R2", fi2.qualname, f"max_log_moneyness {'= 0' if regime == 'at' else '> 0'}: {str(val)[:120]}", f"once the barrier is reached (running maximum >= strike) the one-touch {fname.rsplit('_', 1)[-1]} is exactly {want}",
                                 file=str(prog.modules[fi2.module].path), line=fi2.node.lineno, case=regime))
    fi = prog.functions.get(B.F + "bs_lookback_price")
    _, p0, _ = B.extract(prog, interp, "bs_lookback_price", "below")
    _, p1, _ = B.extract(prog, interp, "bs_lookback_price", "above")
    if not any(s.name in ("m", "M") for s in p0.free_symbols) and p1.has(B.M):
        cont = sp.simplify(B.concretize(p1.subs(B.M, B.K) - p0))
        ok = cont == 0
        detail = str(cont)[:100]
    else:
        ok, detail = False, "regime formulas are selected the wrong way round"
    run.oblige("C09.R2", "lookback price is continuous where the running maximum crosses the strike", ok, detail)
    if not ok:
        run.fail(Finding("C09.R2", fi.qualname, f"price_1(M=K) - price_0: {detail}", "the lookback price jumps at M = K", file=str(prog.modules[fi.module].path), line=fi.node.lineno))
    # ---- R3 signs on the interior
    want = {"bs_european_delta": (1, "call delta in (0,1): increasing in spot"), "bs_european_gamma": (1, "gamma > 0: convex in spot"),
            "bs_european_vega": (1, "vega > 0: non-decreasing in volatility"), "bs_european_theta": (-1, "theta < 0: non-decreasing in time to maturity")}
    for fname, (sign, why) in want.items():
        fi = prog.functions.get(B.F + fname)
        term, _, _ = B.extract(prog, interp, fname, None, **({"call": True} if fname.endswith("delta") else {}))
        bad = []
        for sn, sv in (("s<0", fin(-1, sp.Symbol("s", negative=True))), ("s>0", fin(1, sp.Symbol("s", positive=True)))):
            val = ExtReal({"s": sv, "t": fin(1, tS), "v": fin(1, vS), "K": fin(1, KS)}).ev(term)
            if not (val.kind == "fin" and val.sign == sign):
                bad.append(f"{sn}: {val}")
        ok = not bad
        run.oblige("C09.R3", f"{fname}: {why}", ok, "; ".join(bad) or "sign decided from ncdf in (0,1), npdf > 0 and positive factors")
        if not ok:
            run.fail(Finding("C09.R3", fi.qualname, "; ".join(bad), f"sign of the Greek is not established ({why})", file=str(prog.modules[fi.module].path), line=fi.node.lineno))
    for fname in ("bs_european_binary_price",):
        fi = prog.functions.get(B.F + fname)
        term, e, _ = B.extract(prog, interp, fname, None, call=True)
        ok = e.func == B.ncdf
        run.oblige("C09.R3", f"{fname} in [0,1]", ok, str(e)[:60])
        if not ok:
            run.fail(Finding("C09.R3", fi.qualname, str(e)[:100], "the binary call price is not a normal cdf value", file=str(prog.modules[fi.module].path), line=fi.node.lineno))
    inequalities_rule(ctx, run)


def inequalities_rule(ctx, run):
    """R4: the ordering clauses of the statement, each by a sign certificate on the repo's own price terms (signcert.py):
    (a) (S-K)+ <= call <= S; (b) one-touch >= European binary call; (c) one-touch <= 1 below the barrier;
    (d) lookback >= European call in the regime M < K; (e) lookback >= locked-in payoff M-K in the regime M >= K;
    (f) lookback >= European call in the regime M >= K (non-decreasing in M, continuous at M = K)."""
    from .. import signcert as SC
    prog, interp = ctx.prog, ctx.interp
    run.require("C09.R4", 8)
    run.trusted += ["lemma: a differentiable function with a signed derivative on an interval is monotone there, so its sign follows from its value at the end of the interval",
                    "Phi in (0,1), phi > 0, Phi' = phi, phi'(x) = -x phi(x)"]
    S, K, t, v, M = B.S, B.K, B.t, B.v, B.M
    w = v * sp.sqrt(t)
    fe = prog.functions.get(B.F + "bs_european_price")
    fa = prog.functions.get(B.F + "bs_american_binary_price")
    fl_ = prog.functions.get(B.F + "bs_lookback_price")

    def ob(label, ok, detail, fi, why):
        run.oblige("C09.R4", label, bool(ok), str(detail)[:200], sample={"rule": "C09.R4", "inequality": label, "certificate": str(detail)[:200]})
        if not ok:
            run.fail(Finding("C09.R4", fi.qualname, f"{label}: {str(detail)[:200]}", why, file=str(prog.modules[fi.module].path), line=fi.node.lineno))

    # ---- (a) European call between intrinsic value and spot
    _, call, _ = B.extract(prog, interp, "bs_european_price", None, call=True)
    cc = B.concretize(call)
    dct = sp.simplify(sp.diff(cc, t))
    ob("european call is increasing in time to maturity (d price / d tau > 0)", dct.is_positive, dct, fe, "the call price must increase with time to maturity")
    Q = sp.Symbol("Q", positive=True)
    lim_itm = sp.simplify(sp.limit(cc.subs(S, K * (1 + Q)), t, 0, "+") - K * Q)
    lim_otm = sp.simplify(sp.limit(cc.subs(S, K / (1 + Q)), t, 0, "+"))
    lim_inf = sp.simplify(sp.limit(cc, t, sp.oo) - S)
    ob("european call >= (S-K)+ : increasing in tau from the limit (S-K)+ at tau -> 0+", lim_itm == 0 and lim_otm == 0, f"limits minus payoff: {lim_itm}, {lim_otm}", fe, "the call is worth at least its intrinsic value")
    ob("european call <= S : increasing in tau towards the limit S at tau -> oo", lim_inf == 0, f"limit minus S: {lim_inf}", fe, "the call is worth at most the spot")
    # ---- (b), (c) one-touch
    _, ab, _ = B.extract(prog, interp, "bs_american_binary_price", "below")
    _, eb, _ = B.extract(prog, interp, "bs_european_binary_price", None, call=True)
    diff_ab = sp.simplify(ab - eb)
    ob("one-touch >= european binary call below the barrier", SC.positive(diff_ab), diff_ab, fa, "touching the barrier at any time is at least as likely as ending above it")
    d_ab = sp.diff(SC.lift(ab), S)
    at_k = sp.simplify(B.concretize(ab).subs(S, K) - 1)
    ob("one-touch <= 1 below the barrier: increasing in spot and equal to 1 at S = K", SC.positive(d_ab) and at_k == 0, f"d/dS = {d_ab}; value at S=K minus 1 = {at_k}", fa, "a one-touch option is worth at most one")
    # ---- (d), (e), (f) lookback
    _, p0, _ = B.extract(prog, interp, "bs_lookback_price", "below")
    _, p1, _ = B.extract(prog, interp, "bs_lookback_price", "above")
    x = sp.Symbol("x", real=True)
    G = B.concretize(npdf_(x) + x * ncdf_(x))
    lemma = sp.simplify(sp.diff(G, x) - B.concretize(ncdf_(x))) == 0 and sp.limit(G, x, -sp.oo) == 0
    ob("lemma g(d) = phi(d) + d Phi(d) > 0: g' = Phi > 0 and g(-oo) = 0", lemma, "decided by differentiation and a limit", fl_, "auxiliary lemma of the lookback inequalities")
    d1 = (sp.log(S / K) + w ** 2 / 2) / w
    r0 = sp.simplify(sp.expand_log(B.concretize(p0 - call - S * w * (npdf_(d1) + d1 * ncdf_(d1))), force=True))
    ob("lookback >= european call (running maximum below the strike): difference == S w g(d1)", r0 == 0 and lemma, f"residual {r0}", fl_, "a lookback call is worth at least the European call")
    m1 = (sp.log(S / M) + w ** 2 / 2) / w
    m2 = m1 - w
    call_m = S * ncdf_(m1) - M * ncdf_(m2)
    r1 = sp.simplify(sp.expand_log(B.concretize(p1 - (M - K) - call_m - S * w * (npdf_(m1) + m1 * ncdf_(m1))), force=True))
    same_fn = sp.simplify(sp.expand_log(B.concretize(call_m - call.subs(K, M)), force=True))
    ob("lookback >= locked-in payoff M-K (running maximum above the strike): difference == call(S; strike M) + S w g(m1)", r1 == 0 and same_fn == 0 and lemma, f"residuals {r1}, {same_fn}", fl_,
       "once the running maximum exceeds the strike the lookback is worth at least max - strike")
    # monotone in M on S <= M:  M dp1/dM == h := M Phi(-m2) - S Phi(m1);  dh/dS < 0 and h(S=M) = 0  =>  h >= 0 for S <= M
    h = M * SC.Ncdf(-m2) - S * SC.Ncdf(m1)
    rh = sp.simplify(sp.expand_log(SC.lower(M * sp.diff(SC.lift(p1), M) - h), force=True))
    dh = sp.diff(h, S)
    h_at = sp.simplify(SC.lower(h).subs(S, M))
    ob("lookback price is non-decreasing in the running maximum (M dP/dM == M Phi(-m2) - S Phi(m1) >= 0 on S <= M)", rh == 0 and SC.negative(dh) and h_at == 0,
       f"residual {rh}; d/dS = {dh}; value at S=M: {h_at}", fl_, "a higher running maximum cannot lower the lookback price")




_check_bounds = check


def check(ctx, run):  # noqa: F811
    """R5: the inequalities above are facts about the formulas; they carry over to float64 results only if the formulas are evaluated in the
    dtype of their inputs.  A helper that computes in float32 and reports float64 adds noise of 1e-8 times the strike to every price - enough
    to put a call below its intrinsic value at double resolution."""
    _check_bounds(ctx, run)
    from ..precision import closed_form_precision_rule
    run.require("C09.R5", 6)
    closed_form_precision_rule(ctx, run, "C09.R5", ["ncdf", "npdf", "d1", "d2", "bs_european_price", "bs_european_binary_price", "bs_american_binary_price", "bs_lookback_price"],
                               "the price is computed in the dtype of its inputs")
