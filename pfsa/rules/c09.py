"""C09 - Black-Scholes prices respect no-arbitrage structure.
R1 put-call parity and binary complement (identities between two flag cases of the repo's own code); R2 barrier constant and
continuity of the lookback price where the running maximum crosses the strike; R3 signs of the European Greeks on the open
domain (monotone/convex in spot, non-decreasing in volatility and time to maturity), range of binary prices."""
import sympy as sp

from .. import bsterms as B
from ..extreal import ExtReal, fin
from ..report import AnalysisError, Finding

tS, vS, KS = sp.Symbol("t", positive=True), sp.Symbol("v", positive=True), sp.Symbol("K", positive=True)


def check(ctx, run):
    prog, interp = ctx.prog, ctx.interp
    run.trusted += ["sympy simplify", "a function whose first (second) derivative is positive is increasing (convex); C08 ties the Greek terms to the price's derivatives"]
    run.require("C09.R1", 2)
    run.require("C09.R3", 5)
    fi = prog.functions.get(B.F + "bs_european_price")
    _, call, _ = B.extract(prog, interp, "bs_european_price", None, call=True)
    _, put, _ = B.extract(prog, interp, "bs_european_price", None, call=False)
    resid = sp.simplify(B.concretize(call - put) - (B.S - B.K))
    ok = resid == 0
    run.oblige("C09.R1", "european call - put == S - K", ok, str(resid)[:100], sample={"rule": "C09.R1", "identity": "call - put = S - K", "residual": str(resid)[:100]})
    if not ok:
        run.fail(Finding("C09.R1", fi.qualname, f"call - put - (S - K) = {str(resid)[:160]}", "put-call parity fails", file=str(prog.modules[fi.module].path), line=fi.node.lineno))
    fi = prog.functions.get(B.F + "bs_european_binary_price")
    _, bc, _ = B.extract(prog, interp, "bs_european_binary_price", None, call=True)
    _, bp, _ = B.extract(prog, interp, "bs_european_binary_price", None, call=False)
    resid = sp.simplify(B.concretize(bc + bp) - 1)
    ok = resid == 0
    run.oblige("C09.R1", "binary call + binary put == 1", ok, str(resid)[:100])
    if not ok:
        run.fail(Finding("C09.R1", fi.qualname, f"call + put - 1 = {str(resid)[:160]}", "the binary call and put do not add up to one", file=str(prog.modules[fi.module].path), line=fi.node.lineno))
    # ---- R2
    fi = prog.functions.get(B.F + "bs_american_binary_price")
    _, above, _ = B.extract(prog, interp, "bs_american_binary_price", "above")
    ok = sp.simplify(above - 1) == 0
    run.oblige("C09.R2", "one-touch == 1 once the barrier has been reached", ok, str(above)[:60])
    if not ok:
        run.fail(Finding("C09.R2", fi.qualname, f"value for max_log_moneyness > 0: {str(above)[:120]}", "after the barrier is hit the option is worth exactly one", file=str(prog.modules[fi.module].path), line=fi.node.lineno))
    # the barrier counts as reached when the running maximum *equals* the strike; from then on price 1, delta and gamma 0
    for fname, want in (("bs_american_binary_price", 1), ("bs_american_binary_delta", 0), ("bs_american_binary_gamma", 0)):
        fi2 = prog.functions.get(B.F + fname)
        if fi2 is None:
            raise AnalysisError(f"anchor vanished: {fname}")
        for regime in ("at", "above"):
            _, val, _ = B.extract(prog, interp, fname, regime)
            val = B.resolve_piecewise(val, {})
            okb = sp.simplify(val - want) == 0
            run.oblige("C09.R2", f"{fname} == {want} when the running maximum is {'at' if regime == 'at' else 'above'} the strike", okb, str(val)[:60])
            if not okb:
                run.fail(Finding("C09.R2", fi2.qualname, f"max_log_moneyness {'= 0' if regime == 'at' else '> 0'}: {str(val)[:120]}", f"once the barrier is reached (running maximum >= strike) the one-touch {fname.rsplit('_', 1)[-1]} is exactly {want}",
                                 file=str(prog.modules[fi2.module].path), line=fi2.node.lineno, case=regime))
    fi = prog.functions.get(B.F + "bs_lookback_price")
    _, p0, _ = B.extract(prog, interp, "bs_lookback_price", "below")
    _, p1, _ = B.extract(prog, interp, "bs_lookback_price", "above")
    if not any(s.name in ("m", "M") for s in p0.free_symbols) and p1.has(B.M):
        cont = sp.simplify(B.concretize(p1.subs(B.M, B.K) - p0))
        ok = cont == 0
        detail = str(cont)[:100]
    else:
        ok, detail = False, "regime formulas are selected the wrong way round"
    run.oblige("C09.R2", "lookback price is continuous where the running maximum crosses the strike", ok, detail)
    if not ok:
        run.fail(Finding("C09.R2", fi.qualname, f"price_1(M=K) - price_0: {detail}", "the lookback price jumps at M = K", file=str(prog.modules[fi.module].path), line=fi.node.lineno))
    # ---- R3 signs on the interior
    want = {"bs_european_delta": (1, "call delta in (0,1): increasing in spot"), "bs_european_gamma": (1, "gamma > 0: convex in spot"),
            "bs_european_vega": (1, "vega > 0: non-decreasing in volatility"), "bs_european_theta": (-1, "theta < 0: non-decreasing in time to maturity")}
    for fname, (sign, why) in want.items():
        fi = prog.functions.get(B.F + fname)
        term, _, _ = B.extract(prog, interp, fname, None, **({"call": True} if fname.endswith("delta") else {}))
        bad = []
        for sn, sv in (("s<0", fin(-1, sp.Symbol("s", negative=True))), ("s>0", fin(1, sp.Symbol("s", positive=True)))):
            val = ExtReal({"s": sv, "t": fin(1, tS), "v": fin(1, vS), "K": fin(1, KS)}).ev(term)
            if not (val.kind == "fin" and val.sign == sign):
                bad.append(f"{sn}: {val}")
        ok = not bad
        run.oblige("C09.R3", f"{fname}: {why}", ok, "; ".join(bad) or "sign decided from ncdf in (0,1), npdf > 0 and positive factors")
        if not ok:
            run.fail(Finding("C09.R3", fi.qualname, "; ".join(bad), f"sign of the Greek is not established ({why})", file=str(prog.modules[fi.module].path), line=fi.node.lineno))
    for fname in ("bs_european_binary_price",):
        fi = prog.functions.get(B.F + fname)
        term, e, _ = B.extract(prog, interp, fname, None, call=True)
        ok = e.func == B.ncdf
        run.oblige("C09.R3", f"{fname} in [0,1]", ok, str(e)[:60])
        if not ok:
            run.fail(Finding("C09.R3", fi.qualname, str(e)[:100], "the binary call price is not a normal cdf value", file=str(prog.modules[fi.module].path), line=fi.node.lineno))
