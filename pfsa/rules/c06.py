"""C06 - cash() is the certainty equivalent and price() the indifference price.
R1 closed-form cash overrides are certainty equivalents of their own forward; R2 the default search brackets on [min, max];
R3 Hedger.price = -criterion.cash(portfolio, target=payoff) on one simulated batch, averaged, no grad by default;
R4 cash responds to a shift of its input by the same shift; R5 with the entropic risk measure price == loss.
Added after the seeded-defect rounds: R1t closed-form cash(input, target) == cash(input - target); R2 default search per column (level, bracket ends by value/axis/shape, constant-sample evaluations, degenerate bracket = known finding KF4); R2b the bisect invariants the search relies on (C19.R1-R3).
Third round: R6 precision of cash() (scalar target, sample count); R5 compares up to x - 0.0 = x.
Round 7: R2 the empty bracket for a constant sample is found wherever the search validates its bracket; R3 sees through value-preserving wrappers."""
import re

import sympy as sp

from .. import entrypoints as E
from .. import world as W
from ..dcp import DCP
from ..interp import Obj, Unsupported
from ..report import AnalysisError, Finding, single
from ..rules.c15 import events_of
from ..samplealg import MEAN, Nn, SampleAlgebra, linearize, xi
from ..term import Op, Sym, walk

L = "pfhedge.nn.modules.loss."


def term_of(ctx, cls, meth, attrs, args):
    fi = ctx.prog.lookup_method(L + cls, meth)
    if fi is None:
        raise AnalysisError(f"anchor vanished: {cls}.{meth}")
    res = [r for r in ctx.interp.explore(fi, args, {}, self_obj=Obj(L + cls, cls.lower(), attrs)) if not r["raises"]]
    if not res:
        raise AnalysisError(f"{cls}.{meth}: no path")
    return fi, res


def check(ctx, run):
    prog, interp = ctx.prog, ctx.interp
    run.trusted += ["reductions of a constant sample (mean, k-smallest mean, logsumexp = c + log N)", "sympy simplify"]
    x = W.tensor("x")
    a_, p_, lam_ = W.fl("a"), W.fl("p"), W.fl("lam")
    run.require("C06.R1", 4)
    c = sp.Symbol("c", real=True)
    for cls, attrs in (("EntropicRiskMeasure", dict(a=a_)), ("ExpectedShortfall", dict(p=p_)), ("EntropicLoss", dict(a=a_))):
        ffi, fres = term_of(ctx, cls, "forward", attrs, [x, 0.0])
        cfi, cres = term_of(ctx, cls, "cash", attrs, [x, 0.0])
        run.functions.update({ffi.qualname, cfi.qualname})
        A = SampleAlgebra(assume_positive={"a", "p"})
        fwd_x = linearize(A.conv(fres[0]["value"]))
        cash_x = linearize(A.conv(cres[0]["value"]))
        Ac = SampleAlgebra(const=c, assume_positive={"a", "p"})
        fwd_c = Ac.conv(fres[0]["value"])
        lhs = sp.simplify(sp.expand_log(fwd_c.subs(c, cash_x), force=True))
        rhs = sp.simplify(sp.expand_log(fwd_x, force=True))
        ok = sp.simplify(lhs - rhs) == 0
        run.oblige("C06.R1", f"{cls}: forward(const(cash(x))) == forward(x)", ok, f"forward(const c) = {sp.simplify(fwd_c)}; cash(x) = {cash_x}",
                   sample={"rule": "C06.R1", "class": cls, "forward_of_constant": str(sp.simplify(fwd_c)), "cash": str(cash_x)})
        if not ok:
            run.fail(Finding("C06.R1", cfi.qualname, f"forward(const(cash)) = {lhs} vs forward(x) = {rhs}", "the closed-form cash amount is not the certainty equivalent of the criterion",
                             file=str(prog.modules[cfi.module].path), line=cfi.node.lineno))
    # quadratic CVaR: cash == -forward (the statement's special case)
    cfi, cres = term_of(ctx, "QuadraticCVaR", "cash", dict(lam=lam_), [x, W.tensor("target")])
    v = cres[0]["value"]
    calls = [e for r in cres for e in r["events"] if e["kind"] == "call" and e["callee"] == E.F + "quadratic_cvar"]
    Aq = SampleAlgebra()

    def _is_pl(t):
        try:
            return sp.simplify(Aq.conv(t) - (xi - Aq.sym("target"))) == 0
        except NotImplementedError:
            return False

    ok = isinstance(v, Op) and v.op == "neg" and bool(calls) and _is_pl(calls[0]["args"][0] if calls[0]["args"] else calls[0]["kwargs"].get("input"))
    run.oblige("C06.R1", "QuadraticCVaR.cash == -forward(input - target)", ok, str(v)[:80])
    if not ok:
        run.fail(Finding("C06.R1", cfi.qualname, str(v)[:120], "for quadratic CVaR the cash amount is minus the risk", file=str(prog.modules[cfi.module].path), line=cfi.node.lineno))
    # ---- R2 default search
    dfi = prog.method(L + "HedgeLoss.cash")
    if dfi is None:
        raise AnalysisError("anchor vanished: HedgeLoss.cash")
    default_search_rule(ctx, run, dfi)
    # ---- R4 shift response of cash
    run.require("C06.R4", 4)
    for cls, attrs, signs in (("EntropicRiskMeasure", dict(a=a_), {"a": 1}), ("ExpectedShortfall", dict(p=p_), {"p": 1}), ("EntropicLoss", dict(a=a_), {"a": 1}), ("QuadraticCVaR", dict(lam=lam_), {"lam": 1})):
        cfi, cres = term_of(ctx, cls, "cash", attrs, [x, 0.0])
        for r in cres:
            d = DCP("x", signs)
            cv = d.of(r["value"])
            ok = cv.shift != "?" and cv.shift[0] == "add" and sp.simplify(cv.shift[1] - 1) == 0
            run.oblige("C06.R4", f"{cls}.cash shifts with its input", ok, str(cv))
            if not ok:
                run.fail(Finding("C06.R4", cfi.qualname, f"response to a shift: {cv.shift}", "adding a constant to the P&L must add the same constant to the cash amount (payoff + k => price + k)",
                                 file=str(prog.modules[cfi.module].path), line=cfi.node.lineno))
    # ---- R3 Hedger.price
    price = prog.lookup_method(W.HEDGER, "price")
    if price is None:
        raise AnalysisError("anchor vanished: Hedger.price")
    crit = Obj(L + "HedgeLoss", "criterion")
    hh = W.hedger(prog, [W.feature("Moneyness", log=False)], criterion=Sym("criterion", ("callable",)))
    hh.attrs["criterion"] = Obj("user.Criterion", "criterion")
    given = [Obj(W.PRIMARY, "hA"), Obj(W.PRIMARY, "hB")]
    for nt in (1, 3):
        res = [r for r in interp.explore(price, [W.option()], dict(n_paths=W.integer("n_paths"), n_times=nt, init_state=Sym("init_state"), hedge=given), self_obj=hh) if not r["raises"]]
        if not res:
            raise AnalysisError("Hedger.price: no analysable path")
        problems = []
        for r in res:  # every path through helpers that branch (training flag, cost shortcuts, ...) must price the same way
            ev = events_of(r, prog)
            cash_calls = [e for e in r["events"] if e["kind"] == "opaque_call" and isinstance(e["callee"], Sym) and e["callee"].name == "criterion.cash"]
            s = " ".join(k for k, _ in ev if k in ("grad{", "}", "simulate", "portfolio"))
            if not re.fullmatch(r"grad\{ (simulate portfolio ){%d}\}" % nt, s):
                problems.append(f"trace '{s}'")
            modes = [getattr(c_, "attrs", {}).get("arg") for k, e in ev if k == "grad{" for c_ in e["ctx"]]
            if modes != [False]:
                problems.append(f"grad mode {modes} (default must be off)")
            if len(cash_calls) != nt:
                problems.append(f"{len(cash_calls)} cash evaluations")
            for k, e in ev:
                if k == "simulate" and not (e.get("fn") or "").startswith("pfhedge.instruments"):   # the hedger's own request, from whichever helper
                    kw = dict(e["kwargs"])
                    for kk, vv in zip(("n_paths", "init_state"), e["args"]):
                        kw[kk] = vv
                    if not (kw.get("n_paths") == W.integer("n_paths") and kw.get("init_state") == Sym("init_state")):
                        problems.append(f"simulate({', '.join(f'{a}={b}' for a, b in kw.items())}) ignores the requested n_paths / init_state")
                if k == "portfolio":
                    kw = dict(e["kwargs"])
                    for kk, vv in zip(("derivative", "hedge"), e["args"]):
                        kw[kk] = vv
                    if kw.get("hedge") is not given:
                        problems.append("compute_portfolio does not receive the requested hedge")
            for e in cash_calls:
                tgt = e["kwargs"].get("target", e["args"][1] if len(e["args"]) > 1 else None)
                inp = e["args"][0] if e["args"] else e["kwargs"].get("input")
                # cash(P, target=Z) and cash(P - Z) are the same request: the effective P&L is input - target
                if tgt is None and isinstance(inp, Op) and inp.op == "sub":
                    inp, tgt = inp.args
                is_payoff = lambda q_: q_ is not None and any(isinstance(q, Op) and q.op == "abstract" and "payoff_fn" in str(q.args[0]) for q in walk(q_))
                has_model = lambda q_: isinstance(q_, Op) and any(isinstance(q, Op) and q.op == "call" and str(q.args[0]) == "model" for q in walk(q_))
                if not is_payoff(tgt) or has_model(tgt):
                    problems.append("the P&L handed to cash() is not portfolio minus derivative.payoff()")
                if not has_model(inp) or is_payoff(inp):
                    problems.append("input is not the portfolio value")
            def same_values(t_):
                # wrappers that keep every entry (the dtype they produce is C17's business)
                while isinstance(t_, Op) and t_.op in ("to", "clone", "contiguous", "float", "double") and t_.args and isinstance(t_.args[0], (Op, Sym)):
                    t_ = t_.args[0]
                return t_

            v = same_values(r["value"])
            core = v
            if nt > 1:
                if not (isinstance(v, Op) and v.op == "mean"):
                    problems.append("n_times evaluations are not averaged")
                else:
                    st = same_values(v.args[0])
                    core = same_values(st.args[0][0]) if isinstance(st, Op) and st.op == "stack" else v
            if not (isinstance(core, Op) and core.op == "neg" and isinstance(core.args[0], Op) and core.args[0].op == "call" and str(core.args[0].args[0]) == "criterion.cash"):
                problems.append(f"value is {str(core)[:60]}, expected -criterion.cash(...)")
        problems = sorted(set(problems))
        ok = not problems
        run.oblige("C06.R3", f"Hedger.price[n_times={nt}]", ok, "; ".join(problems) or s, sample={"rule": "C06.R3", "n_times": nt, "trace": s})
        if not ok:
            run.fail(Finding("C06.R3", price.qualname, "; ".join(problems)[:300], "price must be minus the cash amount of (portfolio - payoff) on one simulated batch per evaluation, without gradients by default",
                             file=str(prog.modules[price.module].path), line=price.node.lineno, case=f"n_times={nt}"))
    # ---- R5 price == loss for the entropic risk measure
    erm = Obj(L + "EntropicRiskMeasure", "criterion", dict(a=a_))
    h1 = W.hedger(prog, [W.feature("Moneyness", log=False)])
    h1.attrs["criterion"] = erm
    pv = single(interp.explore(price, [W.option()], dict(n_paths=W.integer("n_paths"), n_times=1), self_obj=h1))["value"]
    h2 = W.hedger(prog, [W.feature("Moneyness", log=False)])
    h2.attrs["criterion"] = Obj(L + "EntropicRiskMeasure", "criterion", dict(a=a_))
    cl = prog.lookup_method(W.HEDGER, "compute_loss")
    lv = single(interp.explore(cl, [W.option()], dict(n_paths=W.integer("n_paths"), n_times=1), self_obj=h2))["value"]
    from ..termination import simp
    def unit(t):
        """x - 0.0, x + 0.0 -> x (the default target), bottom-up"""
        if isinstance(t, Op):
            t = Op(t.op, tuple(unit(x) if isinstance(x, (Op, Sym)) else x for x in t.args), tuple((k_, unit(v_) if isinstance(v_, (Op, Sym)) else v_) for k_, v_ in t.kw))
            if t.op in ("sub", "add") and len(t.args) == 2 and t.args[1] in (0, 0.0) and not isinstance(t.args[1], bool):
                return t.args[0]
        return t
    ok = str(unit(simp(pv))) == str(unit(simp(lv)))  # symbolic objects differ by identity between the two runs; the printed term is canonical
    run.oblige("C06.R5", "EntropicRiskMeasure: price == loss (same term)", ok, "")
    if not ok:
        run.fail(Finding("C06.R5", price.qualname, "price vs compute_loss with EntropicRiskMeasure", "for the entropic risk measure the quoted price must equal the loss", file=str(prog.modules[price.module].path), line=price.node.lineno))


def default_search_rule(ctx, run, dfi):
    """R2: HedgeLoss.cash solves, COLUMN BY COLUMN of an (N, *) sample, criterion(constant sample at c) = criterion(pl), pl = input - target, on
    the bracket [min, max] of that column:  (a) the level handed to bisect is self(pl);  (b) both ends are reductions of pl along the path
    axis only (value MINR / MAXR, shape (*));  (c) every evaluation of the criterion inside the search is on a tensor of the sample's shape
    (N, *) whose entries are the search variable (a constant sample per column), never on the bare variable;  (d) the bracket is accepted
    for every admissible sample, including a constant one (min == max)."""
    from ..interp import BoundMethod, Closure
    from ..samplealg import MAXR, MINR
    from ..shape import N as Nn, ShapeError, Unknown, shape_of
    from .c19 import _is_cmp
    prog, interp = ctx.prog, ctx.interp
    x, a_ = W.tensor("x"), W.fl("a")
    o = Obj(L + "IsoelasticLoss", "iso", dict(a=a_))
    res = [r for r in interp.explore(dfi, [x, W.tensor("target")], {}, self_obj=o, max_paths=200)]
    bis = [e for r in res for e in r["events"] if e["kind"] == "call" and e["callee"].endswith("bisect.bisect") and e["fn"].endswith("HedgeLoss.cash")]
    problems, degenerate = [], None
    if not bis:
        problems.append("no call to bisect")
    else:
        args = list(bis[0]["args"]) + [None] * 4
        kw = bis[0]["kwargs"]
        fn_, level, lo, hi = [kw.get(k, v) for k, v in zip(("fn", "target", "lower", "upper"), args[:4])]
        A = SampleAlgebra(assume_positive={"a"})
        plx = xi - A.sym("target")
        Ms = sp.Symbol("M", integer=True, positive=True)
        env = {"x": (Nn, Ms), "target": (Nn, Ms)}
        # (a) level
        own = [c_ for r in res for c_ in r["events"] if c_["kind"] == "module_call" and c_["recv"] is o and c_["fn"].endswith("HedgeLoss.cash")]
        try:
            if not (own and isinstance(level, Op) and len(own[0]["args"]) == 1 and not own[0]["kwargs"] and sp.simplify(A.conv(own[0]["args"][0]) - plx) == 0):
                problems.append("the level to match is not criterion(input - target)")
        except (NotImplementedError, TypeError):
            problems.append("the level to match is not criterion(input - target)")
        # (b) bracket ends
        for nm, end, RED in (("lower", lo, MINR), ("upper", hi, MAXR)):
            try:
                A.dims_seen.clear()
                v = A.conv(end)
                if sp.simplify(v - RED(plx)) != 0:
                    problems.append(f"{nm} end is {v}, expected the {'minimum' if RED is MINR else 'maximum'} of input - target")
                elif any(d != 0 for op_, d in A.dims_seen if op_ in ("min", "max", "amin", "amax")):
                    problems.append(f"{nm} end is the {'minimum' if RED is MINR else 'maximum'} over ALL entries of the sample, not per column (reduce along dim 0)")
                else:
                    sh = shape_of(end, env)
                    if tuple(sh) != (Ms,):
                        problems.append(f"{nm} end has shape {tuple(str(d) for d in sh)} for an (N, M) sample, expected (M)")
            except (NotImplementedError, TypeError, Unknown, ShapeError) as ex:
                problems.append(f"{nm} end {str(end)[:60]} is not a reduction of input - target ({ex})")
        # (c) evaluations of the criterion inside the search
        inner = [c_ for r in res for c_ in r["events"] if not (c_.get("fn") or "").endswith("HedgeLoss.cash") and c_.get("recv") is o
                 and (c_["kind"] == "module_call" or (c_["kind"] == "call" and c_["callee"].endswith((".forward", ".__call__"))))]
        if not inner:
            problems.append("the criterion is never evaluated inside the search")
        for c_ in inner[:6]:
            arg = c_["args"][0] if c_["args"] else None
            try:
                sh = shape_of(arg, env)
            except (Unknown, ShapeError) as ex:
                problems.append(f"criterion evaluated on {str(arg)[:60]} ({ex})")
                continue
            if tuple(sh) != (Nn, Ms):
                problems.append(f"criterion evaluated on a tensor of shape {tuple(str(d) for d in sh)} (the bare search variable) instead of a constant sample of shape (N, M): columns are mixed")
                break
            # the sample may enter only through the bracket ends (the search points are built from them) or as a shape donor
            bad = False

            def visit(t, donor=False):
                nonlocal bad
                if t == lo or t == hi:
                    return
                if t == x and not donor:
                    bad = True
                if isinstance(t, Op):
                    for k, s_ in enumerate(t.args):
                        if isinstance(s_, (Op, Sym)):
                            visit(s_, donor or (t.op in ("expand_as", "view_as", "reshape_as") and k == 1) or (t.op in ("zeros_like", "ones_like", "full_like", "size", "empty_like") and k == 0))
            visit(arg)
            if bad:
                problems.append("the tensor the criterion is evaluated on inside the search depends on the sample values")
                break
        # (d) degenerate bracket
        guards = [g for r in res for g in r["events"] if g["kind"] == "guard"]   # wherever the search validates its bracket (bisect itself or a helper)
        strict = any(_is_cmp(g["cond"], lo, hi, {"lt"}, negated=True) for g in guards)
        plain = False
        try:
            plain = sp.simplify(A.conv(lo) - MINR(plx)) == 0 and sp.simplify(A.conv(hi) - MAXR(plx)) == 0
        except (NotImplementedError, TypeError):
            pass
        if strict and plain:
            degenerate = "bracket [min(pl), max(pl)] is empty for a constant sample and bisect demands lower < upper"
    ok = not problems
    run.oblige("C06.R2", "HedgeLoss.cash: per column, bisect(c -> criterion(constant sample c), criterion(pl), min(pl), max(pl)), pl = input - target", ok, "; ".join(problems) or "level, bracket ends (shape (*)) and constant-sample evaluations agree")
    if not ok:
        run.fail(Finding("C06.R2", dfi.qualname, "; ".join(problems)[:300], "the default certainty-equivalent search must solve criterion(constant c) = criterion(pl) per column between the worst and the best outcome of that column",
                         file=str(prog.modules[dfi.module].path), line=dfi.node.lineno))
    run.oblige("C06.R2", "HedgeLoss.cash: the search accepts every admissible sample, including a constant one", degenerate is None, degenerate or "bracket is never degenerate / bisect accepts lower == upper")
    if degenerate:
        run.fail(Finding("C06.R2", dfi.qualname, "degenerate bracket for a constant sample", degenerate + ": cash() raises ValueError although the certainty equivalent of a constant sample is that constant",
                         file=str(prog.modules[dfi.module].path), line=dfi.node.lineno, witness="IsoelasticLoss(0.5).cash(torch.full((10,), 1.3)) raises ValueError"))


def target_rule(ctx, run):
    """R1 (target): every closed-form cash(input, target) is the cash amount of the P&L input - target: as a term over the generic element,
    cash(x, target) == cash(x, 0) with x replaced by x - target (ERM, ES, EntropicLoss, QuadraticCVaR)."""
    prog = ctx.prog
    run.require("C06.R1t", 4)
    x, t_ = W.tensor("x"), W.tensor("target")
    for cls, attrs in (("EntropicRiskMeasure", dict(a=W.fl("a"))), ("ExpectedShortfall", dict(p=W.fl("p"))), ("EntropicLoss", dict(a=W.fl("a"))), ("QuadraticCVaR", dict(lam=W.fl("lam")))):
        cfi, with_t = term_of(ctx, cls, "cash", attrs, [x, t_])
        _, without = term_of(ctx, cls, "cash", attrs, [x, 0.0])
        ok, detail = True, ""
        if cls == "QuadraticCVaR":
            # the value is an implicit minimiser: compare the argument handed to the functional
            def arg_of(res):
                calls = [e for r in res for e in r["events"] if e["kind"] == "call" and e["callee"] == E.F + "quadratic_cvar"]
                return calls[0]["args"][0] if calls and calls[0]["args"] else (calls[0]["kwargs"].get("input") if calls else None)
            A = SampleAlgebra()
            try:
                a1, a0 = A.conv(arg_of(with_t)), A.conv(arg_of(without))
                ok = sp.simplify(a1 - a0.subs(xi, xi - A.sym("target"))) == 0
                detail = f"quadratic_cvar is evaluated on {a1}"
            except (TypeError, NotImplementedError, AttributeError) as ex:
                ok, detail = False, f"argument of quadratic_cvar not analysable ({ex})"
        else:
            A = SampleAlgebra(assume_positive={"a", "p"})
            try:
                e1 = linearize(A.conv(with_t[0]["value"]))
                e0 = linearize(A.conv(without[0]["value"]))
                want = linearize(sp.expand(e0.subs(xi, xi - A.sym("target"))))
                e1 = linearize(sp.expand(e1))
                ok = sp.simplify(sp.expand_log(sp.expand(e1) - sp.expand(want), force=True)) == 0
                detail = f"cash(x, target) = {e1}"
            except (TypeError, NotImplementedError) as ex:
                ok, detail = False, f"not analysable ({ex})"
        run.oblige("C06.R1t", f"{cls}.cash(input, target) == cash(input - target)", ok, detail)
        if not ok:
            run.fail(Finding("C06.R1t", cfi.qualname, detail[:300], "the target must be subtracted from the input before the cash amount is computed",
                             file=str(prog.modules[cfi.module].path), line=cfi.node.lineno))


_check_before_target = check


def check(ctx, run):  # noqa: F811
    _check_before_target(ctx, run)
    target_rule(ctx, run)
    bisect_dependency(ctx, run)
    # R6: the certainty equivalent is computed at the precision of the sample (scalar targets and levels are not rounded to float32 on the way)
    from .c05 import precision_rule
    precision_rule(ctx, run, rule="C06.R6", methods=("cash",))


def bisect_dependency(ctx, run):
    """R2 (search engine): the default search is only as good as bisect: its bracket invariant, orientation handling and bound (C19.R1-R3)
    are obligations of this property too - a bisect that walks the wrong way returns a bracket end as the 'certainty equivalent'."""
    from ..report import Run
    from . import c19
    sub = Run("C19", run.tier, "other", "")
    c19.check(ctx, sub)
    run.require("C06.R2b", 3)
    for r, inst, ok, detail in sub.obligations:
        if r in ("C19.R1", "C19.R2", "C19.R3"):
            run.oblige("C06.R2b", f"[{r}] {inst}", ok, detail)
    for f in sub.findings:
        if f.rule in ("C19.R1", "C19.R2", "C19.R3"):
            run.fail(Finding("C06.R2b", f.function, f"[{f.rule}] {f.construct}", "the default certainty-equivalent search relies on bisect: " + f.message, file=f.file, line=f.line, case=f.case))
