"""C19 - bisection and implied volatility invert monotone functions to precision.
R1 loop invariant of bisect (complementary element-wise updates from one midpoint, orientation), returned end; R2 orientation
detection and terminating recursion on (-fn, -target); R3 bounded loop; R4 wiring of find_implied_volatility and the modules;
R5 the European price is increasing in volatility.
Added after the seeded-defect rounds: R1 also: no extra exit of the search loop except an exact hit; R4 also: the direction of the pricer in the volatility is a live decision on the implied-volatility path.
Third round: R4 also: a module created from a derivative resolves in implied_volatility() what price() resolves; R8 the inverted function and the bracket are computed in the dtype of the inputs.
Rounds 4-5: R8 also: find_implied_volatility hands bisect a bracket in the dtype of the price.
Round 7: R1-R3 independent of the form of the search (decisions classified by what they compare; recursion or the same loop on the mirror image; while or for/break over a generator of brackets bounded by islice); R4 judges the search that is actually run: exit test against the caller's precision, bracket from the caller's bounds, budget = the caller's max_iter."""
import ast

import sympy as sp

from .. import bsterms as B
from .. import termination as TM
from .. import world as W
from ..equiv import same
from ..extreal import ExtReal, fin
from ..interp import Obj, Unsupported
from ..report import AnalysisError, Finding
from ..term import Op, Sym, walk

MOD = "pfhedge.nn.modules.bs."


def _search_rules(ctx, run):
    """R1-R3: the search itself"""
    prog, interp = ctx.prog, ctx.interp
    run.trusted += ["a bracket with fn(lower) <= target <= fn(upper) for a continuous monotone fn contains a root; halving preserves it"]
    bis = prog.functions.get("pfhedge._utils.bisect.bisect")
    if bis is None:
        raise AnalysisError("anchor vanished: bisect")
    run.functions.add(bis.qualname)
    fn, tg, lo, hi = Sym("fn", ("callable",)), W.tensor("target"), W.tensor("lo"), W.tensor("hi")
    res = interp.explore(bis, [], dict(fn=fn, target=tg, lower=lo, upper=hi, precision=W.fl("precision"), max_iter=W.integer("max_iter")))
    f_lo0, f_hi0 = Op("call", (fn, lo)), Op("call", (fn, hi))

    def kind_of(c_x):
        """what a data-dependent decision on the way is: the orientation test, the width test on the initial bracket (a loop that tests
        before its first step, run on its own), a test of the iteration budget, an exact hit - or something else"""
        cx = c_x
        while isinstance(cx, Op) and cx.op in ("all", "any", "not", "py_bool") and cx.args:
            cx = cx.args[0]
        if _is_cmp(c_x, f_lo0, f_hi0, set(FLIP)) or _is_cmp(c_x, f_lo0, f_hi0, set(FLIP), negated=True):
            return "orientation"   # whichever way it compares the two ends: R2 judges the direction
        if isinstance(cx, Op) and cx.op == "eq" and any(isinstance(a_, Op) and a_.op == "call" and a_.args[0] == fn for a_ in cx.args) and any(a_ == tg for a_ in cx.args):
            return "exact"
        if isinstance(cx, Op) and cx.op in FLIP and len(cx.args) == 2:
            for w_, p_ in (cx.args, cx.args[::-1]):
                if isinstance(w_, Op) and w_.op in ("max", "amax") and len(w_.args) == 1 and p_ == W.fl("precision"):
                    d_ = w_.args[0]
                    if isinstance(d_, Op) and d_.op == "sub" and _strip(d_.args[0]) == hi and _strip(d_.args[1]) == lo:
                        return "width0"
            names_ = {x_.name for x_ in walk(cx) if isinstance(x_, Sym)}
            if names_ == {"max_iter"}:
                return "budget"
        return "other"

    def orientation(r_):
        o_ = [d_ for c_, d_, _ in r_["cond"] if kind_of(c_) == "orientation"]
        if not o_ and not any(kind_of(c_) == "orientation" for r2_ in res for c_, _, _ in r2_["cond"]):
            # no path compares the two ends at all: the first data-dependent decision stands in for the orientation test (R2 judges it)
            o_ = [d_ for c_, d_, _ in r_["cond"] if kind_of(c_) in ("other", "exact")][:1]
        return o_[0] if o_ else None

    inc_all = [r for r in res if not r["raises"] and orientation(r) is False]
    inc = [r for r in inc_all if any(e["kind"] == "loop_end" for e in r["events"]) and not any(d and kind_of(c) in ("other", "exact") for c, d, _ in r["cond"])]
    if not inc:
        raise AnalysisError("bisect: cannot isolate the increasing-orientation path")
    # several looping paths differ in decisions about the iteration budget only (max_iter infinite or not, clipped at 0): each is judged
    problems = []
    # further data-dependent decisions on the way (an early exit from the search): the only one that keeps "within precision of the root
    # in the ARGUMENT" is an exact hit fn(m) == target; closeness of the function VALUE says nothing about the argument where fn is flat
    for r_x in inc_all:
        for c_x, d_x, _ in r_x["cond"]:
            if kind_of(c_x) == "other":
                msg = f"additional exit/decision in the search: {str(c_x)[:120]}"
                if msg not in problems:
                    problems.append(msg)
    mids = []
    for r in inc:
        le_ = [e for e in r["events"] if e["kind"] == "loop_end"]
        guards = [e for e in r["events"] if e["kind"] == "guard"]
        if not any(_is_cmp(g["cond"], lo, hi, {"lt"}, negated=True) for g in guards):
            problems.append("lower < upper is not validated before the search")
        if len(le_) != 1:
            problems.append("no single search loop")
        else:
            ups = {init: (sym, upd) for _, sym, init, upd in le_[0]["updates"] if init in (lo, hi)}
            if set(ups) != {lo, hi}:
                problems.append("the loop does not carry both ends of the bracket")
            else:
                (Ls, updL), (Us, updU) = ups[lo], ups[hi]
                conv = _affine(Ls, Us)
                # one evaluation of fn per iteration, at a point strictly inside the bracket
                body_calls = [e for e in r["events"] if e["kind"] == "opaque_call" and e["callee"] == fn and any(x in (Ls, Us) for a_ in e["args"] for x in walk(a_))]
                pts = {e["args"][0] for e in body_calls if e["args"]}
                mids = [str(p_) for p_ in pts]
                if len(pts) != 1:
                    problems.append(f"fn is evaluated at {len(pts)} points per iteration")
                else:
                    M = next(iter(pts))
                    ab = conv(M)
                    if ab is None or not (sp.simplify(ab[0] + ab[1] - 1) == 0 and ab[0] == sp.Rational(1, 2)):
                        problems.append(f"evaluation point {str(M)[:60]} is not the midpoint of the bracket")
                    moves = {}
                    for name, sym, upd in (("lower", Ls, updL), ("upper", Us, updU)):
                        mv = _moves_when(upd, sym, M, fn, tg)
                        if mv is None:
                            problems.append(f"{name} is not updated by a where() that keeps the old end or takes the midpoint on a comparison of fn(midpoint) with the target")
                        else:
                            moves[name] = mv
                    if len(moves) == 2:
                        if moves["lower"] not in ("lt", "le"):
                            problems.append(f"orientation: lower moves to the midpoint when fn(m) {moves['lower']} target (must be when fn(m) < target)")
                        elif moves["upper"] not in ("gt", "ge"):
                            problems.append(f"orientation: upper moves to the midpoint when fn(m) {moves['upper']} target (must be when fn(m) >= target)")
                        elif (moves["lower"], moves["upper"]) == ("lt", "gt"):
                            problems.append("neither end moves when fn(m) == target, so the bracket stops shrinking")
                # loop condition: the widest bracket is still wider than the precision
                tests = [e for e in r["events"] if e["kind"] == "while_test"]
                okt = False
                for e in tests[-1:]:
                    c = e["cond"]
                    if isinstance(c, Op) and c.op in ("gt", "ge", "lt", "le") and len(c.args) == 2:
                        wide, prec = (c.args if c.op in ("gt", "ge") else c.args[::-1])
                        if isinstance(wide, Op) and wide.op in ("max", "amax") and len(wide.args) == 1 and not wide.kw and prec == W.fl("precision"):
                            ab = conv(wide.args[0])
                            okt = ab is not None and ab == (-1, 1)
                            # `for bracket in brackets: if not wide(bracket): break` tests the bracket this iteration has just produced
                            okt = okt or wide.args[0] == Op("sub", (updU, updL))
                if not okt:
                    problems.append(f"loop condition is {str(tests[-1]['cond'])[:60] if tests else None}, expected max(upper - lower) > precision")
                # returned value lies in the final bracket
                val = r["value"]
                finals = {}
                for s_ in walk(val):
                    if isinstance(s_, Op) and s_.op == "loop" and s_.args[3] in (Ls, Us):
                        finals[s_] = s_.args[3]
                from ..term import subst
                ab = conv(subst(val, finals)) if finals else None
                if ab is None or not (sp.simplify(ab[0] + ab[1] - 1) == 0 and ab[0] >= 0 and ab[1] >= 0):
                    problems.append("returned value is not a point of the final bracket")
    ok = not problems
    run.oblige("C19.R1", "bisect: invariant fn(lower) <= target <= fn(upper) preserved by complementary where-updates from one midpoint", ok, "; ".join(problems),
               sample={"rule": "C19.R1", "midpoint": mids[0] if mids else None, "problems": problems})
    if not ok:
        run.fail(Finding("C19.R1", bis.qualname, "; ".join(problems)[:300], "the bisection step does not keep the root inside a bracket that halves each iteration", file=str(prog.modules[bis.module].path), line=bis.node.lineno))
    # ---- R2 orientation + termination
    dec = [r2 for r2 in res if orientation(r2) is True and not TM.contradictory(r2["cond"])]
    f_lo, f_hi = Op("call", (fn, lo)), Op("call", (fn, hi))
    okr = bool(dec) and all(_is_cmp(next((c_ for c_, _, _ in r2["cond"] if kind_of(c_) == "orientation"), None), f_lo, f_hi, {"gt", "ge"}) for r2 in dec)
    recs = [[e for e in r2["events"] if e["kind"] == "call" and e["callee"] == bis.qualname][:1] for r2 in dec]
    recs = [e for l in recs for e in l]
    by_recursion = bool(recs) and all(same(e["bound"].get("target"), Op("neg", (tg,))) and [e["bound"].get("lower"), e["bound"].get("upper")] == [lo, hi]
                                      and e["bound"].get("precision") == W.fl("precision") and e["bound"].get("max_iter") == W.integer("max_iter") for e in recs)
    # ... or without recursion: the decreasing case runs the same loop on the mirror image (-fn, -target): same bracket, same exit test, and
    # the ends move under the mirrored comparisons (lower takes the midpoint when fn(m) > target, upper when fn(m) <= target)
    by_mirror = False
    dec_loop = [r2 for r2 in dec if not r2["raises"] and any(e["kind"] == "loop_end" for e in r2["events"]) and not any(kind_of(c_) == "other" for c_, _, _ in r2["cond"])]
    if not recs and dec_loop:
        by_mirror = True
        for r2 in dec_loop:
            le2 = [e for e in r2["events"] if e["kind"] == "loop_end"]
            ups2 = {init: (sym, upd) for _, sym, init, upd in le2[0]["updates"] if init in (lo, hi)} if len(le2) == 1 else {}
            if set(ups2) != {lo, hi}:
                by_mirror = False
                continue
            (Ls2, uL2), (Us2, uU2) = ups2[lo], ups2[hi]
            pts2 = {e["args"][0] for e in r2["events"] if e["kind"] == "opaque_call" and e["callee"] == fn and e["args"] and any(x in (Ls2, Us2) for x in walk(e["args"][0]))}
            if len(pts2) != 1:
                by_mirror = False
                continue
            M2 = next(iter(pts2))
            mv = {n_: _moves_when(_unmirror(u_), s_, M2, fn, tg) for n_, s_, u_ in (("lower", Ls2, uL2), ("upper", Us2, uU2))}
            by_mirror = by_mirror and mv["lower"] in ("gt", "ge") and mv["upper"] in ("lt", "le") and (mv["lower"], mv["upper"]) != ("gt", "lt")
            tests2 = [e["cond"] for e in r2["events"] if e["kind"] == "while_test"]
            by_mirror = by_mirror and bool(tests2) and any(x_ == W.fl("precision") for x_ in walk(tests2[-1]))
    okr = okr and (by_recursion or by_mirror)
    run.oblige("C19.R2", "decreasing fn: recurse on (-fn, -target) with the same bracket, precision and bound", okr, "")
    if not okr:
        run.fail(Finding("C19.R2", bis.qualname, "bisect(mf, -target, lower, upper, precision=precision, max_iter=max_iter) when fn(lower) > fn(upper)", "a decreasing function is not reduced to the increasing case", file=str(prog.modules[bis.module].path), line=bis.node.lineno))
    TM.check_recursion(ctx, run, "C19.R2", bis, dict(fn=fn, target=tg, lower=lo, upper=hi))
    TM.check_while_bounded(prog, run, "C19.R3")


def _wiring_rules(ctx, run):
    """R4-R5: what find_implied_volatility and the modules hand to the search"""
    prog, interp = ctx.prog, ctx.interp
    bis = prog.functions.get("pfhedge._utils.bisect.bisect")
    if bis is None:
        raise AnalysisError("anchor vanished: bisect")
    # ---- R4 wiring
    fiv = prog.functions.get("pfhedge._utils.bisect.find_implied_volatility")
    if fiv is None:
        raise AnalysisError("anchor vanished: find_implied_volatility")
    pr = Sym("pricer", ("callable",))
    ivlo, ivhi = W.tensor("iv_lower"), W.tensor("iv_upper")
    res = interp.explore(fiv, [pr, W.tensor("price")], dict(lower=ivlo, upper=ivhi, precision=W.fl("precision"), max_iter=W.integer("max_iter"), log_moneyness=W.tensor("s")), max_paths=50)
    calls = [e for r2 in res for e in r2["events"] if e["kind"] == "call" and e["callee"] == bis.qualname and e["fn"].endswith("find_implied_volatility")]
    # judged on the search that is actually run, however it is reached (bisect itself, a private helper, a generator of brackets): on every
    # path with a search loop the exit test compares the width of the bracket with the CALLER's precision, the bracket starts at the caller's
    # bounds and the iteration budget is the caller's max_iter
    ok, why_w = True, []
    looping = [r2 for r2 in res if not r2["raises"] and any(e["kind"] == "loop_begin" for e in r2["events"])]
    if not looping:
        raise AnalysisError("find_implied_volatility: no path with a search loop")
    for r2 in looping:
        conds = [e["cond"] for e in r2["events"] if e["kind"] in ("while_test", "guard")] + [c_ for c_, _, _ in r2["cond"]]
        widths, budget = [], False
        for c_ in conds:
            budget = budget or any(x_ == W.integer("max_iter") for x_ in walk(c_))
            while isinstance(c_, Op) and c_.op in ("not", "all", "any", "py_bool") and c_.args:
                c_ = c_.args[0]
            if isinstance(c_, Op) and c_.op in ("gt", "ge", "lt", "le") and len(c_.args) == 2:
                for w_, p_ in (c_.args, c_.args[::-1]):
                    if isinstance(w_, Op) and w_.op in ("max", "amax") and not isinstance(p_, Op):
                        widths.append(p_)
        for e in r2["events"]:
            if e["kind"] == "loop_begin":
                budget = budget or any(x_ == W.integer("max_iter") for x_ in walk(list(e["over"])))
        inits = {_strip(b_) for e in r2["events"] if e["kind"] == "loop_begin" for _, b_ in e.get("carried", [])}
        if not widths:
            why_w.append("no exit test on the width of the bracket")
        elif any(p_ != W.fl("precision") for p_ in widths):
            why_w.append(f"the search stops at precision {[str(p_) for p_ in widths if p_ != W.fl('precision')][0]}, not at the requested one")
        if not {ivlo, ivhi} <= inits:
            why_w.append("the bracket does not start at the requested lower / upper bound")
        if not budget:
            why_w.append("the iteration budget is not the requested max_iter")
    ok = not why_w
    for e in calls[:1]:
        a = e["args"]
        kw_ = dict(e["kwargs"])
        for k_, v_ in zip(("fn", "target", "lower", "upper", "precision", "max_iter"), a):
            kw_[k_] = v_
        ok = ok and kw_.get("target") == W.tensor("price") and _strip(kw_.get("lower")) == ivlo and _strip(kw_.get("upper")) == ivhi
        ok = ok and kw_.get("precision") == W.fl("precision") and kw_.get("max_iter") == W.integer("max_iter")
    # the orientation of the price in the volatility is detected, not presumed: binary and barrier prices decrease in volatility in the
    # money, so on the way through bisect the comparison fn(lower) vs fn(upper) must be a live decision (both outcomes explored)
    def _orient(c):
        while isinstance(c, Op) and c.op in ("all", "any", "py_bool") and c.args:
            c = c.args[0]
        if not (isinstance(c, Op) and c.op in ("gt", "ge", "lt", "le")):
            return False
        syms = {x for x in walk(c) if isinstance(x, Sym)}
        return pr in syms and ivlo in syms and ivhi in syms
    outcomes = {d for r2 in res if not TM.contradictory(r2["cond"]) for c, d, _ in r2["cond"][:1] if _orient(c)}
    oko = outcomes == {True, False}
    run.oblige("C19.R4", "find_implied_volatility: the direction of the pricer in the volatility is detected (fn(lower) vs fn(upper)), not presumed", oko, f"outcomes explored: {sorted(outcomes)}")
    if not oko:
        run.fail(Finding("C19.R4", fiv.qualname, "orientation of pricer(volatility=.) is not decided from fn(lower) > fn(upper)", "prices that decrease in volatility (in-the-money binaries) are inverted in the wrong direction",
                         file=str(prog.modules[fiv.module].path), line=fiv.node.lineno))
    pc = [e for r2 in res for e in r2["events"] if e["kind"] == "opaque_call" and e["callee"] == pr]
    ok = ok and bool(pc) and all("volatility" in e["kwargs"] and e["kwargs"].get("log_moneyness") == W.tensor("s") for e in pc)
    run.oblige("C19.R4", "find_implied_volatility: bisect(pricer(volatility=., **params), price, lower, upper, precision, max_iter)", ok, "")
    if not ok:
        run.fail(Finding("C19.R4", fiv.qualname, ("; ".join(sorted(set(why_w))) + "; " if why_w else "") + "expected bisect(fn, price, lower.to(price), upper.to(price), precision, max_iter) with fn(v) = pricer(volatility=v, **params)", "implied volatility wiring", file=str(prog.modules[fiv.module].path), line=fiv.node.lineno))
    for mq in ("european.BSEuropeanOption", "european_binary.BSEuropeanBinaryOption", "american_binary.BSAmericanBinaryOption", "lookback.BSLookbackOption"):
        cq = MOD + mq
        iv = prog.lookup_method(cq, "implied_volatility")
        if iv is None:
            raise AnalysisError(f"anchor vanished: {cq}.implied_volatility")
        from ..interp import BoundMethod
        names = [a.arg for a in iv.node.args.args[1:]]
        probe = Obj(cq, "bs", {"derivative": None, "strike": W.fl("bs.strike"), "call": Sym("bs.call", ("bool",))})
        kw = {n: (W.fl(n) if n == "precision" else W.tensor(n)) for n in names}
        try:
            resm = [r2 for r2 in interp.explore(iv, [], kw, self_obj=probe, max_paths=50) if not r2["raises"]]
        except Unsupported as ex:
            raise AnalysisError(f"{cq}.implied_volatility: {ex}")
        fcalls = [e for r2 in resm for e in r2["events"] if e["kind"] == "call" and e["callee"].endswith("find_implied_volatility")]  # from the method or a helper it delegates to
        ok = bool(fcalls)
        for e in fcalls:
            kwf = dict(e.get("bound") or e["kwargs"])
            kwf = {k_: v_ for k_, v_ in kwf.items() if not (v_ is None and k_ not in names)}
            pricer = kwf.pop("pricer", None)
            ok = ok and isinstance(pricer, BoundMethod) and pricer.obj is probe and pricer.fi.qualname.endswith(".price")
            ok = ok and set(kwf) == set(names) and all(kwf[n] == kw[n] for n in names)
        run.oblige("C19.R4", f"{mq.split('.')[-1]}.implied_volatility", ok, "")
        if not ok:
            run.fail(Finding("C19.R4", iv.qualname, "find_implied_volatility(self.price, price=price, <own parameters>, precision=precision)", "the module must invert its own price with all its parameters", file=str(prog.modules[iv.module].path), line=iv.node.lineno))
    # a module created from a derivative: implied_volatility() and price() must resolve the parameters the caller left out the same way -
    # what implied_volatility hands on is either left open (the pricer resolves it itself) or the value price() would use
    for mq in ("european.BSEuropeanOption", "european_binary.BSEuropeanBinaryOption", "american_binary.BSAmericanBinaryOption", "lookback.BSLookbackOption"):
        cq = MOD + mq
        iv, pm = prog.lookup_method(cq, "implied_volatility"), prog.lookup_method(cq, "price")
        if pm is None:
            raise AnalysisError(f"anchor vanished: {cq}.price")
        names = [a.arg for a in iv.node.args.args[1:]]
        d = W.option()
        probe = Obj(cq, "bs", {"derivative": d, "strike": W.fl("bs.strike"), "call": Sym("bs.call", ("bool",))})
        kw = {n: (W.fl(n) if n == "precision" else W.tensor(n) if n == "price" else None) for n in names}
        try:
            resm = [r2 for r2 in interp.explore(iv, [], kw, self_obj=probe, max_paths=50) if not r2["raises"]]
            resp = [r2 for r2 in interp.explore(pm, [], {}, self_obj=probe, max_paths=50) if not r2["raises"]]
        except Unsupported as ex:
            raise AnalysisError(f"{cq} bound to a derivative: {ex}")
        if not resm or not resp:
            raise AnalysisError(f"{cq} bound to a derivative: no analysable path")
        used = {}
        for r2 in resp:
            for e in r2["events"]:
                if e["kind"] == "call" and e["callee"].startswith(B.F + "bs_") and e["callee"].endswith("_price"):
                    params_ = [a.arg for a in prog.functions[e["callee"]].node.args.args]
                    kwp = dict(e["kwargs"])
                    for k_, v_ in zip(params_, e["args"]):
                        kwp[k_] = v_
                    for k_, v_ in kwp.items():
                        used.setdefault(k_, []).append(v_)
        if not used:
            raise AnalysisError(f"{cq}.price bound to a derivative: the closed form it evaluates was not found")
        bad = []
        for r2 in resm:
            for e in r2["events"]:
                if e["kind"] == "call" and e["callee"].endswith("find_implied_volatility"):
                    for k_, v_ in e["kwargs"].items():
                        if k_ in ("price", "precision", "pricer") or v_ is None or k_ not in used:
                            continue
                        if not all(v_ == u_ for u_ in used[k_]):
                            bad.append(f"{k_}: implied_volatility hands on {str(v_)[:60]}, price() evaluates {str(used[k_][0])[:60]}")
        bad = sorted(set(bad))
        run.oblige("C19.R4", f"{mq.split('.')[-1]} created from a derivative: implied_volatility inverts the price() of the same state", not bad, "; ".join(bad))
        if bad:
            run.fail(Finding("C19.R4", iv.qualname, "; ".join(bad)[:300], "the bisection inverts the pricing formula of another state than the one price() evaluates: "
                             "implied_volatility(price()) does not return the generating volatility", file=str(prog.modules[iv.module].path), line=iv.node.lineno, case="derivative-bound"))
    # ---- R5
    term, _, _ = B.extract(prog, interp, "bs_european_vega", None)
    bad = []
    for sn, sv in (("s<0", fin(-1, sp.Symbol("s", negative=True))), ("s>0", fin(1, sp.Symbol("s", positive=True)))):
        val = ExtReal({"s": sv, "t": fin(1, sp.Symbol("t", positive=True)), "v": fin(1, sp.Symbol("v", positive=True)), "K": fin(1, sp.Symbol("K", positive=True))}).ev(term)
        if not (val.kind == "fin" and val.sign == 1):
            bad.append(f"{sn}: {val}")
    run.oblige("C19.R5", "European price is increasing in volatility (vega > 0)", not bad, "; ".join(bad))
    if bad:
        fi = prog.functions[B.F + "bs_european_vega"]
        run.fail(Finding("C19.R5", fi.qualname, "; ".join(bad), "the European price is not shown monotone in volatility", file=str(prog.modules[fi.module].path), line=fi.node.lineno))


def check(ctx, run):
    deferred = None
    try:
        _search_rules(ctx, run)
    except AnalysisError as ex:   # the wiring is judged all the same; the incomplete analysis of the search is reported at the end
        deferred = ex
    _wiring_rules(ctx, run)
    if deferred is not None:
        raise deferred


FLIP = {"lt": "gt", "le": "ge", "gt": "lt", "ge": "le"}
NEG = {"lt": "ge", "le": "gt", "gt": "le", "ge": "lt"}


def _strip(t):
    while isinstance(t, Op) and t.op in ("as_tensor", "to") and t.args and isinstance(t.args[0], (Op, Sym)):
        t = t.args[0]
    return t


def _is_cmp(c, a, b, ops, negated=False):
    """c is (possibly all(...) of) `a <op> b` with op in ops, under an optional not()"""
    neg = False
    while isinstance(c, Op) and c.op in ("not", "all") and len(c.args) == 1:
        neg ^= c.op == "not"
        c = c.args[0]
    if not (isinstance(c, Op) and c.op in FLIP and len(c.args) == 2) or neg != negated:
        return False
    x, y = _strip(c.args[0]), _strip(c.args[1])
    return (x == a and y == b and c.op in ops) or (x == b and y == a and FLIP[c.op] in ops)


def _affine(Ls, Us):
    """t == a*Ls + b*Us with constant a, b  ->  (a, b)"""
    from ..algebra import ToSympy
    l_, u_ = sp.Symbol("L_", real=True), sp.Symbol("U_", real=True)

    def hook(ts, t):
        return l_ if t == Ls else u_ if t == Us else None

    def conv(t):
        try:
            e = sp.expand(ToSympy(hooks=[hook]).conv(t))
        except (NotImplementedError, ValueError, TypeError):
            return None
        a, b = sp.diff(e, l_), sp.diff(e, u_)
        if a.free_symbols or b.free_symbols or sp.simplify(e - a * l_ - b * u_) != 0:
            return None
        return (a, b)

    return conv


def _moves_when(upd, sym, M, fn, tg):
    """upd = where(c, sym, M) | where(c, M, sym) with c a comparison of fn(M) and the target -> relation under which the end moves to M"""
    if not (isinstance(upd, Op) and upd.op == "where" and len(upd.args) == 3):
        return None
    c, x, y = upd.args
    if x == sym and y == M:
        moves_on_true = False
    elif x == M and y == sym:
        moves_on_true = True
    else:
        return None
    neg = False
    while isinstance(c, Op) and c.op == "not" and len(c.args) == 1:
        neg, c = not neg, c.args[0]
    if not (isinstance(c, Op) and c.op in FLIP and len(c.args) == 2):
        return None
    fm = Op("call", (fn, M))
    p_, q_ = c.args
    if p_ == fm and q_ == tg:
        rel = c.op
    elif p_ == tg and q_ == fm:
        rel = FLIP[c.op]
    else:
        return None
    if neg:
        rel = NEG[rel]
    return rel if moves_on_true else NEG[rel]


def _unmirror(upd):
    """where(-a <op> -b, x, y)  ->  where(b <op> a, x, y) i.e. the comparison written for the un-negated quantities"""
    if not (isinstance(upd, Op) and upd.op == "where" and len(upd.args) == 3):
        return upd
    c, x, y = upd.args
    neg = 0
    while isinstance(c, Op) and c.op == "not" and len(c.args) == 1:
        neg, c = neg + 1, c.args[0]
    if isinstance(c, Op) and c.op in FLIP and len(c.args) == 2 and all(isinstance(a_, Op) and a_.op == "neg" for a_ in c.args):
        c = Op(FLIP[c.op], (c.args[0].args[0], c.args[1].args[0]))
    for _ in range(neg):
        c = Op("not", (c,))
    return Op("where", (c, x, y))


def where_parts(v, end):
    """<end>.where(<a> <op> <b>, m)  or  torch.where(<a> <op> <b>, <end>, m)  ->  (op, a, b)"""
    if not isinstance(v, ast.Call):
        return None
    f = v.func
    if isinstance(f, ast.Attribute) and f.attr == "where" and isinstance(f.value, ast.Name) and f.value.id == end and len(v.args) == 2:
        c, other = v.args
    elif isinstance(f, ast.Attribute) and f.attr == "where" and ast.unparse(f.value) == "torch" and len(v.args) == 3 and ast.unparse(v.args[1]) == end:
        c, other = v.args[0], v.args[2]
    else:
        return None
    if ast.unparse(other) != "m" or not (isinstance(c, ast.Compare) and len(c.ops) == 1):
        return None
    return type(c.ops[0]).__name__, ast.unparse(c.left), ast.unparse(c.comparators[0])


_check_main = check


def check(ctx, run):  # noqa: F811
    """R8: the function the bisection inverts is evaluated at the precision of its inputs - a closed form that drops to float32 on the way is a
    step function of the volatility at float32 resolution, and no bracket narrower than a step can be located to the requested precision."""
    _check_main(ctx, run)
    from ..precision import closed_form_precision_rule
    run.require("C19.R8", 6)
    closed_form_precision_rule(ctx, run, "C19.R8", ["ncdf", "npdf", "d1", "d2", "bs_european_price", "bs_european_binary_price", "bs_american_binary_price", "bs_lookback_price"],
                               "the inverted price is computed in the dtype of its inputs")
    # the bracket ends and the midpoint stay in the dtype of the target
    from ..dtypes import DATA, Provenance
    prog, interp = ctx.prog, ctx.interp
    bis = prog.functions["pfhedge._utils.bisect.bisect"]
    fn, tg, lo, hi = Sym("fn", ("callable",)), W.tensor("target"), W.tensor("lo"), W.tensor("hi")
    res = [r for r in interp.explore(bis, [], dict(fn=fn, target=tg, lower=lo, upper=hi, precision=W.fl("precision"), max_iter=W.integer("max_iter"))) if not r["raises"]]
    bad = []
    for r in res:
        pv = Provenance()
        got = pv.of(r["value"])
        if got != DATA:
            bad.append(f"the returned end has a {got} dtype ({'; '.join(sorted({w for _, w in pv.leaves}))})")
        bad += [f"{str(t.args[0])[:80]} is computed in a {v} dtype and converted afterwards" for t, v in pv.narrowed]
    bad = sorted(set(bad))
    run.oblige("C19.R8", "bisect: the bracket is carried in the dtype of its ends", not bad, "; ".join(bad))
    if bad:
        run.fail(Finding("C19.R8", bis.qualname, "; ".join(bad)[:300], "the bracket is narrowed at another precision than the one of the inputs", file=str(prog.modules[bis.module].path), line=bis.node.lineno))
    # ... and find_implied_volatility hands bisect a bracket in the dtype of the price (bounds given as Python numbers are converted to it)
    fiv = prog.functions.get("pfhedge._utils.bisect.find_implied_volatility") or prog.functions.get("pfhedge.nn.functional.find_implied_volatility")
    if fiv is None:
        cands = [q for q in prog.functions if q.endswith(".find_implied_volatility")]
        fiv = prog.functions[cands[0]] if cands else None
    if fiv is None:
        raise AnalysisError("anchor vanished: find_implied_volatility")
    pr = Sym("pricer", ("callable",))
    res = [r for r in interp.explore(fiv, [pr, W.tensor("price")], dict(precision=W.fl("precision"), log_moneyness=W.tensor("s")), max_paths=60) if not r["raises"]]
    if not res:
        raise AnalysisError("find_implied_volatility: no analysable path")
    bad = []
    for r in res:
        for e in r["events"]:
            if e["kind"] == "call" and e["callee"].endswith("bisect.bisect"):
                kwb = dict(e["kwargs"])
                for k_, v_ in zip(("fn", "target", "lower", "upper"), e["args"]):
                    kwb[k_] = v_
                for end in ("lower", "upper"):
                    pv = Provenance()
                    got = pv.of(kwb.get(end))
                    if got != DATA:
                        bad.append(f"the {end} end of the bracket has a {got} dtype ({'; '.join(sorted({w for _, w in pv.leaves}))[:100] or 'a Python number packed into a tensor without the dtype of the price'})")
    bad = sorted(set(bad))
    run.oblige("C19.R8", "find_implied_volatility: the bracket is in the dtype of the price", not bad, "; ".join(bad))
    if bad:
        run.fail(Finding("C19.R8", fiv.qualname, "; ".join(bad)[:300], "the search runs at float32 resolution for float64 prices: a precision below 3e-8 cannot be met and the result comes back in another dtype",
                         file=str(prog.modules[fiv.module].path), line=fiv.node.lineno))
