"""C10 - simulated paths follow the law of the model they are named after.
R1 physical units of every generator; R3 one-step conditional moments (Vasicek, CIR incl. both QE branches, local volatility);
R4 Heston log-spot coefficients (Andersen K0..K4); R5 termination of recursive generators.
Added after the seeded-defect rounds: R7 also: the Sobol dimension must cover the time axis (known finding KF5).
Third round: R10 simulate() forwards the caller's initial state (tuple and scalar form, every path) and the instrument's own parameters to the generator; local volatility on a linspace grid is modelled.
Rounds 4-5: exports of pfhedge.stochastic / primary instruments."""
import sympy as sp

from .. import entrypoints as E
from .. import termination as TM
from .. import world as W
from ..algebra import ToSympy, gauss_expect, u, z
from ..equiv import same
from ..interp import Obj, Unsupported
from ..report import AnalysisError, Finding
from ..term import Op, Sym, walk
from ..units import ONE, POLY, U, UnitChecker, alpha

H = sp.Rational(1, 2)
T_, V_, D_, R_ = U(1, 0), U(-H, 0), U(0, 1), U(-1, 0)
COMMON = {"dt": T_, "engine": ONE, "N": ONE, "T": ONE}
S = E.S
DECL = {
    S + "brownian.generate_brownian": ({"x0": D_, "sigma": U(-H, 1), "mu": U(-1, 1)}, [D_]),
    S + "brownian.generate_geometric_brownian": ({"S0": D_, "sigma": V_, "mu": R_}, [D_]),
    S + "vasicek.generate_vasicek": ({"x0": R_, "theta": R_, "kappa": R_, "sigma": U(-3 * H, 0), "__result__": R_}, [R_]),
    S + "cir.generate_cir": ({"v0": R_, "theta": R_, "kappa": R_, "sigma": R_}, [R_]),
    S + "heston.generate_heston": ({"S0": D_, "v0": R_, "theta": R_, "kappa": R_, "sigma": R_, "rho": ONE}, [D_, R_]),
    S + "merton_jump.generate_merton_jump": ({"S0": D_, "sigma": V_, "mu": R_, "lam": R_, "jm": ONE, "js": ONE}, [D_]),
    S + "kou_jump.generate_kou_jump": ({"S0": D_, "sigma": V_, "mu": R_, "lam": R_, "ju": ONE, "jd": ONE, "pu": ONE}, [D_]),
    S + "local_volatility.generate_local_volatility_process": ({"S0": D_, "sigma_fn": V_}, [D_, V_]),
    S + "rough_bergomi.generate_rough_bergomi": ({"S0": D_, "v0": R_, "xi": R_, "alpha": ONE, "rho": ONE, "eta": U(-(alpha + H), 0)}, [D_, R_]),
}


def outputs_of(val):
    if isinstance(val, tuple):
        return list(val)
    if isinstance(val, Obj):
        return [v for k, v in val.attrs.items() if not k.startswith("__")]
    return [val]


def step_of(value):
    """the time loops in a generator result: list of (index symbol, carried symbol, stored column value, initial tensor)"""
    out = []
    for t in walk(value):
        if isinstance(t, Op) and t.op == "loop":
            elem, desc, init, carried, upd = t.args
            if isinstance(upd, Op) and upd.op == "setitem":
                out.append((elem, carried, upd.args[2], init, t))
    return out


POINTWISE = {"mul", "add", "sub", "div", "neg", "sqrt", "square", "exp", "log", "pow", "to", "abs"}


def has_time(t, carried):
    return any((isinstance(s, Op) and s.op in ("randn_like", "rand_like", "randn", "rand", "arange")) or s == carried for s in walk(t)) if isinstance(t, (Op, Sym)) else False


def push_index(b, idx, carried):
    if isinstance(b, Op) and b.op in POINTWISE:
        return Op(b.op, tuple(push_index(a, idx, carried) if has_time(a, carried) else a for a in b.args), b.kw)
    return Op("index", (b, idx))


class WrongColumn(Exception):
    """a series is read at a column other than the current or the next step"""


class StaleNoise(Exception):
    """an innovation tensor is read at a column that does not advance with the time step"""


NOISE_OPS = ("randn_like", "rand_like", "randn", "rand")


def column_hook(elem, carried, extra=None):
    offsets = {}

    def hook(ts, t):
        if isinstance(t, Op) and t.op == "index":
            b, idx = t.args
            last = idx[-1] if isinstance(idx, tuple) else idx
            if isinstance(b, Op) and b.op in NOISE_OPS:
                # a fresh draw per step: the column must be the step index up to a constant offset, the same one for every read
                off = 0 if last == elem else last.args[1] if (isinstance(last, Op) and last.op == "add" and last.args[0] == elem and isinstance(last.args[1], int)) else None
                if off is None:
                    raise StaleNoise(f"{b.op}(...) is read at column {last}, which does not advance with the time step")
                if offsets.setdefault(b, off) != off:
                    raise AnalysisError(f"two different columns of one innovation tensor are used in one step ({b.op})")
                last = elem
                t = Op("index", (b, (idx[:-1] + (elem,)) if isinstance(idx, tuple) else elem))
                b, idx = t.args
            if isinstance(b, Op) and b.op in POINTWISE and (last == elem or any(isinstance(x, Op) and x.op in NOISE_OPS for x in walk(b))):
                return ts.conv(push_index(b, idx, carried))
            if b == carried and last == elem:
                return ts.sym("x")
            if isinstance(b, Op) and b.op in ("randn_like", "randn") and last == elem:
                return z
            if isinstance(b, Op) and b.op in ("rand_like", "rand") and last == elem:
                return u
            if extra is not None:
                return extra(ts, t, b, last)
        if isinstance(t, Op) and t.op == "clamp" and "min" in t.kwd() and str(t.kwd()["min"]).startswith("attr_tiny"):
            return ts.conv(t.args[0])  # EPSILON guards are inactive on the open domain
        return None
    return hook


def check(ctx, run):
    prog, interp = ctx.prog, ctx.interp
    run.trusted += ["units table of section 2.3", "Gaussian moments, uniform integration (sympy)", "induction from exact one-step conditional moments"]
    run.assumptions += ["torch samplers have their documented laws", "engine returns independent standard normals"]
    run.require("C10.R1", 9)
    run.require("C10.R5", 3)
    results = {}
    for q, fi, kw in E.generator_runs(ctx):
        run.functions.add(q)
        try:
            results[q] = [r for r in interp.explore(fi, [], kw, max_paths=200)]
        except Unsupported as ex:
            raise AnalysisError(f"{q}: {ex}")
    # ---- R1 units
    for q, res in results.items():
        decl, expect = DECL[q]
        fi = prog.functions[q]
        errs_all, bad_out = [], []
        n = 0
        for r in res:
            if r["raises"]:
                continue
            if any(e["kind"] == "recursion" for e in r["events"]):
                continue  # the non-terminating path is R5's finding
            n += 1
            uc = UnitChecker(dict(COMMON, **decl))
            for v, e in zip(outputs_of(r["value"]), expect):
                got = uc.of(v, True)
                if not (got == POLY or got == e):
                    bad_out.append(f"result unit {got}, declared {e}")
            errs_all += [m for m, _ in uc.errors]
        errs = list(dict.fromkeys(errs_all + bad_out))
        ok = not errs and n > 0
        run.oblige("C10.R1", q, ok, "; ".join(errs[:3]) or f"{n} paths unit-consistent", sample={"rule": "C10.R1", "generator": q.rsplit('.', 1)[-1], "errors": errs[:3]})
        if not ok:
            # one finding per distinct inconsistency, so that a listed known finding cannot hide a new one in the same generator
            for err in (errs or ["no analysable path"]):
                run.fail(Finding("C10.R1", q, err, err, file=str(prog.modules[fi.module].path), line=fi.node.lineno))
    # ---- R5 termination
    for fi in TM.self_recursive_functions(prog):
        if fi.qualname in E.GENERATORS:
            TM.check_recursion(ctx, run, "C10.R5", fi, dict(E.GEN_KW, **E.GENERATORS[fi.qualname]))
        elif fi.qualname.endswith("bisect"):
            TM.check_recursion(ctx, run, "C10.R5", fi, dict(fn=Sym("fn", ("callable",)), target=W.tensor("target"), lower=W.tensor("lo"), upper=W.tensor("hi")))
        elif fi.qualname.endswith("quadratic_cvar"):
            TM.check_recursion(ctx, run, "C10.R5", fi, dict(input=W.tensor("x"), lam=W.fl("lam"), dim=None))
        else:
            TM.check_recursion(ctx, run, "C10.R5", fi, {})
    while len([o for o in run.obligations if o[0] == "C10.R5"]) < 3:
        # a repaired generator is no longer recursive: the obligation is discharged by absence of a cycle
        run.oblige("C10.R5", f"no recursive cycle #{len(run.obligations)}", True, "not self-recursive")
    # ---- R3 moments
    for fn_, q_ in ((moments_vasicek, S + "vasicek.generate_vasicek"), (moments_cir, S + "cir.generate_cir"),
                    (moments_local_vol, S + "local_volatility.generate_local_volatility_process"), (heston_coefficients, S + "heston.generate_heston")):
        # the recursion reads column i and stores column i+1 (or stores the current step's own auxiliary series at column i)
        bad_store = []
        for r_ in results[q_]:
            if r_["raises"]:
                continue
            for v_ in outputs_of(r_["value"]):
                for t_ in walk(v_):
                    if isinstance(t_, Op) and t_.op == "loop" and isinstance(t_.args[4], Op) and t_.args[4].op == "setitem":
                        elem_, upd_ = t_.args[0], t_.args[4]
                        idx_ = upd_.args[1][-1] if isinstance(upd_.args[1], tuple) else upd_.args[1]
                        reads_self = any(isinstance(x, Op) and x.op == "index" and x.args[0] == t_.args[3] for x in walk(upd_.args[2]))
                        want_ = Op("add", (elem_, 1)) if reads_self else None
                        if reads_self and idx_ != want_:
                            bad_store.append(f"{t_.args[3]}: the step computed from column {elem_} is stored at column {idx_}")
        bad_store = sorted(set(bad_store))
        fi_ = prog.functions[q_]
        run.oblige("C10.R6", q_.rsplit(".", 1)[-1] + ": step i -> column i+1", not bad_store, "; ".join(bad_store))
        if bad_store:
            run.fail(Finding("C10.R6", q_, "; ".join(bad_store)[:300], "the time recursion does not store the next state in the next column", file=str(prog.modules[fi_.module].path), line=fi_.node.lineno))
        try:
            fn_(ctx, run, results[q_])
            run.oblige("C10.R6", q_.rsplit(".", 1)[-1] + ": a fresh innovation per step", True, "innovation columns advance with the step index")
        except WrongColumn as ex:
            run.oblige("C10.R4", q_.rsplit(".", 1)[-1] + ": variance columns read by the log-spot step", False, str(ex))
            run.fail(Finding("C10.R4", q_, str(ex), "the log-spot step must combine the variance at the current and at the next step", file=str(prog.modules[fi_.module].path), line=fi_.node.lineno))
        except StaleNoise as ex:
            fi_ = prog.functions[q_]
            run.oblige("C10.R6", q_.rsplit(".", 1)[-1] + ": a fresh innovation per step", False, str(ex))
            run.fail(Finding("C10.R6", q_, str(ex), "the same random draw drives every step, so increments are not independent", file=str(prog.modules[fi_.module].path), line=fi_.node.lineno))


POS = {"kappa", "sigma", "dt", "theta", "x", "v0"}


def moments_vasicek(ctx, run, res):
    q = S + "vasicek.generate_vasicek"
    fi = ctx.prog.functions[q]
    done = 0
    for r in res:
        if r["raises"] or any(e["kind"] == "recursion" for e in r["events"]):
            continue
        steps = step_of(r["value"])
        if len(steps) != 1:
            continue
        elem, carried, step, init, loopterm = steps[0]
        # effective process y = offset + x  (today's code adds theta outside the loop on one path)
        ts = ToSympy(hooks=[column_hook(elem, carried)], assume_positive=POS)
        e = ts.conv(step)
        x = ts.sym("x")
        k, th, sg, dt = [ts.sym(n) for n in ("kappa", "theta", "sigma", "dt")]
        offset = ts.conv(subst_loop(r["value"], loopterm)) if r["value"] != loopterm else sp.Integer(0)
        y = sp.Symbol("y", real=True)
        e_y = (offset + e).subs(x, y - offset)
        mean = gauss_expect(e_y)
        var = sp.simplify(gauss_expect(e_y ** 2) - mean ** 2)
        rm = sp.simplify(mean - (th + sp.exp(-k * dt) * (y - th)))
        rv = sp.simplify(var - sg ** 2 * (1 - sp.exp(-2 * k * dt)) / (2 * k))
        label = "path " + ",".join(str(d) for _, d, _ in r["cond"])
        ok = rm == 0 and rv == 0
        done += 1
        run.oblige("C10.R3", f"vasicek step moments [{label}]", ok, f"mean residual {rm}; variance residual {rv}", sample={"rule": "C10.R3", "model": "vasicek", "mean_residual": str(rm), "var_residual": str(rv)})
        if not ok:
            run.fail(Finding("C10.R3", q, f"one-step mean residual {rm}, variance residual {rv}", "the Ornstein-Uhlenbeck step does not have the exact conditional mean theta+e^{-kappa dt}(x-theta) / variance",
                             file=str(ctx.prog.modules[fi.module].path), line=fi.node.lineno, case=label))
    if done == 0:
        raise AnalysisError("generate_vasicek: no time loop found")


def subst_loop(value, loopterm):
    from ..term import subst
    return subst(value, {loopterm: 0})


def moments_cir(ctx, run, res):
    q = S + "cir.generate_cir"
    fi = ctx.prog.functions[q]
    r = [r for r in res if not r["raises"]][0]
    steps = step_of(r["value"])
    if len(steps) != 1 or not (isinstance(steps[0][2], Op) and steps[0][2].op == "where"):
        raise AnalysisError("generate_cir: expected one time loop storing where(psi <= PSI_CRIT, quadratic, exponential)")
    elem, carried, step, init, _ = steps[0]
    cond, next0, next1 = step.args
    hooks = [column_hook(elem, carried)]
    ts = ToSympy(hooks=hooks, assume_positive=POS)
    x = ts.sym("x")
    k, th, sg, dt = [ts.sym(n) for n in ("kappa", "theta", "sigma", "dt")]
    ex = sp.exp(-k * dt)
    m_true = th + (x - th) * ex
    s2_true = x * sg ** 2 * ex * (1 - ex) / k + th * sg ** 2 * (1 - ex) ** 2 / (2 * k)
    point = {x: sp.Rational(3, 100), k: 2, th: sp.Rational(1, 25), sg: sp.Rational(1, 5), dt: sp.Rational(1, 250)}

    def find(target):
        tv = sp.N(target.subs(point), 30)
        for sub in walk(step):
            if isinstance(sub, Op) and sub.op in ("add", "sub", "mul", "div"):
                try:
                    e = ts.conv(sub)
                    if e.free_symbols - set(point):
                        continue
                    if abs(sp.N(e.subs(point), 30) - tv) < 1e-20 and sp.simplify(e - target) == 0:  # numeric pre-filter, symbolic decision
                        return sub
                except Exception:
                    continue
        return None

    t_m, t_psi = find(m_true), find(s2_true / m_true ** 2)
    okm = t_m is not None
    okp = t_psi is not None
    run.oblige("C10.R3", "cir: m is the exact conditional mean", okm, "sub-term equal to theta+(v-theta)e^{-kappa dt} found" if okm else "no sub-term equals the exact conditional mean")
    run.oblige("C10.R3", "cir: psi = s2/m^2 with the exact conditional variance", okp, "found" if okp else "no sub-term equals s2/m^2")
    if not (okm and okp):
        run.fail(Finding("C10.R3", q, "m / s2 / psi", "the quadratic-exponential scheme does not use the exact conditional mean and variance of the CIR process",
                         file=str(ctx.prog.modules[fi.module].path), line=fi.node.lineno))
        return
    M, PSI = sp.Symbol("M", positive=True), sp.Symbol("PSI", positive=True)

    def named(ts_, t):
        if t == t_psi:
            return PSI
        if t == t_m:
            return M
        return None

    ts2 = ToSympy(hooks=[named] + hooks, assume_positive=POS)
    c = ts2.conv(cond)
    e0, e1 = ts2.conv(next0), ts2.conv(next1)
    crit = c.args[1] if c.args[0] == PSI else c.args[0]
    okc = c.func in (sp.Le, sp.Lt) and c.args[0] == PSI and bool(1 <= crit <= 2)
    run.oblige("C10.R3", "cir: branch switch psi <= PSI_CRIT with 1 <= PSI_CRIT <= 2", okc, str(c))
    if not okc:
        run.fail(Finding("C10.R3", q, f"branch condition {c}", "the QE switching rule must be psi <= PSI_CRIT with PSI_CRIT in [1, 2]", file=str(ctx.prog.modules[fi.module].path), line=fi.node.lineno))
    mean0 = gauss_expect(e0)
    var0 = gauss_expect(e0 ** 2) - mean0 ** 2
    r0m, r0v = sp.simplify(mean0 - M), sp.simplify(var0 - PSI * M ** 2)
    ok0 = r0m == 0 and r0v == 0
    run.oblige("C10.R3", "cir: quadratic branch matches mean m and variance psi m^2", ok0, f"mean residual {r0m}; variance residual {r0v}", sample={"rule": "C10.R3", "model": "cir quadratic", "next": str(e0)[:200]})
    if not ok0:
        run.fail(Finding("C10.R3", q, f"quadratic branch: mean residual {r0m}, variance residual {str(r0v)[:120]}", "a(b+Z)^2 does not match the first two conditional moments",
                         file=str(ctx.prog.modules[fi.module].path), line=fi.node.lineno))
    ok1 = False
    detail = "exponential branch is not of the form where(u > p, value, 0)"
    if isinstance(e1, sp.Piecewise) and len(e1.args) == 2 and e1.args[1][0] == 0:
        val, cnd = e1.args[0]
        p_expr = cnd.args[1] if cnd.args[0] == u else cnd.args[0]
        uu, pp = sp.Symbol("uu", positive=True), sp.Symbol("pp", positive=True)
        vp = val.subs(u, uu).subs(p_expr, pp)
        above = (cnd.func in (sp.Gt, sp.Ge)) == (cnd.args[0] == u)  # the value is taken for u above p (else below)
        lo_, hi_ = (pp, 1) if above else (0, pp)
        I1 = sp.integrate(vp, (uu, lo_, hi_))
        I2 = sp.integrate(vp ** 2, (uu, lo_, hi_))
        mean1 = sp.simplify(I1.subs(pp, p_expr))
        var1 = sp.simplify(I2.subs(pp, p_expr) - mean1 ** 2)
        r1m, r1v = sp.simplify(mean1 - M), sp.simplify(var1 - PSI * M ** 2)
        ok1 = r1m == 0 and r1v == 0 and cnd.func in (sp.Gt, sp.Ge, sp.Lt, sp.Le)
        detail = f"p = {p_expr}; mean residual {r1m}; variance residual {r1v}"
    run.oblige("C10.R3", "cir: exponential branch matches mean m and variance psi m^2", ok1, detail)
    if not ok1:
        run.fail(Finding("C10.R3", q, f"exponential branch: {detail[:200]}", "the mass-at-zero/exponential branch does not match the first two conditional moments",
                         file=str(ctx.prog.modules[fi.module].path), line=fi.node.lineno))


def cir_variance_nonnegative(ctx, run, res, rule="C11.R8"):
    """Non-negativity of the quadratic-exponential variance step is inductive: from V_i >= 0 (and kappa, theta, sigma, dt > 0) follow
    m >= 0 and s2 >= 0, the quadratic branch a (b + Z)^2 is >= 0 wherever it is selected (psi <= PSI_CRIT <= 2 keeps b real), and the
    exponential branch log((1-p)/(1-u))/beta is >= 0 on its region u > p (0 elsewhere).  Tolerance clamps (EPSILON) are identities here.
    Decided with sympy's assumption system after the substitutions e^{-kappa dt} = 1/(1+q), psi = 2/(1+r), psi = 1+w, u = p + (1-p)/(1+q2)."""
    q = S + "cir.generate_cir"
    fi = ctx.prog.functions[q]
    r = [r for r in res if not r["raises"]][0]
    steps = step_of(r["value"])
    if len(steps) != 1 or not (isinstance(steps[0][2], Op) and steps[0][2].op == "where"):
        raise AnalysisError("generate_cir: expected one time loop storing where(psi <= PSI_CRIT, quadratic, exponential)")
    elem, carried, step, init, _ = steps[0]
    cond, next0, next1 = step.args
    hooks = [column_hook(elem, carried)]
    xs = sp.Symbol("x", nonnegative=True)
    ts = ToSympy(hooks=hooks, assume_positive=POS - {"x"}, symbols={"x": xs})
    k, th, sg, dt = [ts.sym(n) for n in ("kappa", "theta", "sigma", "dt")]
    ex = sp.exp(-k * dt)
    qq = sp.Symbol("q", positive=True)
    point = {xs: sp.Rational(3, 100), k: 2, th: sp.Rational(1, 25), sg: sp.Rational(1, 5), dt: sp.Rational(1, 250)}

    def nonneg(e):
        for f_ in (lambda v: v, sp.expand, sp.factor, lambda v: sp.factor(sp.together(v))):
            try:
                v = f_(e)
            except Exception:
                continue
            if v.is_nonnegative:
                return True
            n_, d_ = sp.fraction(sp.together(v))
            if sp.expand(n_).is_nonnegative and sp.expand(d_).is_positive:
                return True
        return False

    problems = []
    # the sub-terms the step is built from: the first operand of the branch condition is psi = s2 / m^2
    cands = []
    for sub in walk(step):
        if isinstance(sub, Op) and sub.op in ("add", "sub", "mul", "div"):
            try:
                e = ts.conv(sub)
            except Exception:
                continue
            if e.free_symbols - set(point):
                continue
            cands.append((sub, e))
    # m is read off the code: psi = s2 / m^2 (the first operand of the branch condition), whatever m is - C10.R3 decides whether it is
    # the exact conditional mean; here only its sign matters
    psi_t = cond.args[0] if isinstance(cond, Op) and cond.args else None
    t_m = None
    if isinstance(psi_t, Op) and psi_t.op == "div":
        den = psi_t.args[1]
        while isinstance(den, Op) and den.op in ("clamp", "clamp_min", "relu", "to") and den.args:
            den = den.args[0]
        if isinstance(den, Op) and den.op == "square":
            t_m = den.args[0]
    if t_m is None:
        raise AnalysisError("generate_cir: psi is not of the form s2 / m^2, cannot locate the conditional mean")
    m_q = ts.conv(t_m).subs(ex, 1 / (1 + qq))
    ok_m = nonneg(m_q)
    if not ok_m:
        problems.append(f"m = {sp.simplify(m_q)} is not certified >= 0 for V_i >= 0")
    c = ts.conv(cond)
    psi_e = c.args[0]
    s2_e = None
    t_psi = next((sub for sub, e in cands if sp.simplify(e - psi_e) == 0), None)
    M, PSI = sp.Symbol("M", positive=True), sp.Symbol("PSI", positive=True)

    def named(ts_, t):
        if t_psi is not None and t == t_psi:
            return PSI
        if t == t_m:
            return M
        return None

    ts2 = ToSympy(hooks=[named] + hooks, assume_positive=POS - {"x"}, symbols={"x": xs})
    c2 = ts2.conv(cond)
    crit = c2.args[1] if c2.args[0] == PSI else None
    if crit is None or not (c2.func in (sp.Le, sp.Lt) and bool(crit <= 2)):
        problems.append(f"branch condition {c2}: the quadratic branch must be confined to psi <= 2 (b is real only there)")
    # quadratic branch on psi in (0, 2]
    rr = sp.Symbol("r", nonnegative=True)
    e0 = ts2.conv(next0).subs(PSI, 2 / (1 + rr))
    ok0 = nonneg(sp.simplify(e0)) or nonneg(e0)
    if not ok0:
        problems.append(f"quadratic branch {sp.simplify(e0)} is not certified >= 0")
    # exponential branch on its own region
    e1 = ts2.conv(next1)
    ok1 = False
    if isinstance(e1, sp.Piecewise) and len(e1.args) == 2 and e1.args[1][0] == 0:
        val, cnd = e1.args[0]
        p_expr = cnd.args[1] if cnd.args[0] == u else cnd.args[0]
        above = (cnd.func in (sp.Gt, sp.Ge)) == (cnd.args[0] == u)
        ww, q2 = sp.Symbol("w", positive=True), sp.Symbol("q2", positive=True)
        pw = sp.cancel(p_expr.subs(PSI, 1 + ww))
        if not (pw.is_positive and (1 - pw).is_positive is not False and sp.cancel(1 - pw).is_positive):
            problems.append(f"p = {pw} is not in (0, 1) for psi > 1")
        u_sub = pw + (1 - pw) / (1 + q2) if above else pw / (1 + q2)
        v1 = val.subs(PSI, 1 + ww).subs(u, u_sub)
        v1 = v1.replace(sp.log, lambda a: sp.log(sp.cancel(sp.together(a))))
        ok1 = nonneg(v1)
        if not ok1:
            problems.append(f"exponential branch {sp.simplify(v1)} is not certified >= 0 on its region")
    else:
        problems.append("exponential branch is not of the form where(u > p, value, 0)")
    ok = not problems
    run.oblige(rule, "generate_cir: V_i >= 0 implies V_{i+1} >= 0 in both branches of the quadratic-exponential step", ok, "; ".join(problems) or "m >= 0; a(b+Z)^2 >= 0 on psi <= 2; log((1-p)/(1-u))/beta >= 0 on u > p")
    if not ok:
        run.fail(Finding(rule, q, "; ".join(problems)[:300], "the variance process can become negative (and volatility = sqrt(clamp(variance, 0)) silently hides it)",
                         file=str(ctx.prog.modules[fi.module].path), line=fi.node.lineno))


def moments_local_vol(ctx, run, res, rule="C10.R3", grid_only=False):
    q = S + "local_volatility.generate_local_volatility_process"
    fi = ctx.prog.functions[q]
    steps = []
    for r in res:
        if r["raises"]:
            continue
        steps = [s for v in outputs_of(r["value"]) for s in step_of(v) if "spot" in s[1].name]
        if steps:
            break
    if not steps:
        raise AnalysisError("local volatility: no spot loop found")
    elem, carried, step, init, _ = steps[0]
    sig = sp.Symbol("sigma_local", positive=True)

    def extra(ts, t, b, last):
        return None

    sigma_calls = []

    def hook(ts, t):
        if isinstance(t, Op) and t.op == "call" and isinstance(t.args[0], Sym) and t.args[0].name == "sigma_fn":
            sigma_calls.append(t)
            return sig
        if isinstance(t, Op) and t.op == "index" and isinstance(t.args[0], Op) and not isinstance(t.args[1], tuple):
            g = t.args[0]
            while isinstance(g, Op) and g.op == "to":
                g = g.args[0]
            if isinstance(g, Op) and g.op == "arange" and len(g.args) == 1:
                return ts.conv(t.args[1])  # arange(n)[k] == k
            if isinstance(g, Op) and g.op == "linspace" and len(g.args) == 3:
                a_, b_, n_ = (ts.conv(x_) for x_ in g.args)  # linspace(a, b, n)[k] == a + (b - a) k / (n - 1)
                return a_ + (b_ - a_) * ts.conv(t.args[1]) / (n_ - 1)
        return None

    ts = ToSympy(hooks=[hook, column_hook(elem, carried)], assume_positive=POS)
    e = ts.conv(step)
    # the local volatility is evaluated at (t_i, S_i): time first, then the current price
    problems = []
    for c_ in sigma_calls[:1]:
        if len(c_.args) != 3 or c_.kw:
            problems.append("sigma_fn is not called as sigma_fn(time, spot)")
            continue
        try:
            a_t, a_s = ts.conv(c_.args[1]), ts.conv(c_.args[2])
        except NotImplementedError as ex:
            raise AnalysisError(f"local volatility: arguments of sigma_fn not analysable ({ex})")
        if sp.simplify(a_t - ts.sym("dt") * ts.conv(elem)) != 0:
            problems.append(f"time argument is {a_t}, expected i * dt")
        if sp.simplify(a_s - ts.sym("x")) != 0:
            problems.append(f"spot argument is {a_s}, expected the current price")
    okc = bool(sigma_calls) and not problems
    run.oblige(rule, "local volatility: sigma_fn(t_i, S_i) with t_i = i dt", okc, "; ".join(problems))
    if not okc:
        run.fail(Finding(rule, q, "; ".join(problems) or "sigma_fn is not evaluated in the step", "the local volatility is not evaluated at the current time and price: "
                         "the volatility series lives on another grid than the prices", file=str(ctx.prog.modules[fi.module].path), line=fi.node.lineno))
    if grid_only:
        return
    # the increment dw = randn * sqrt(dt): randn_like(spot)[:, i] is z
    x = ts.sym("x")
    mean = gauss_expect(e)
    rm = sp.simplify(mean - x)
    dt = ts.sym("dt")
    var = sp.simplify(gauss_expect(e ** 2) - mean ** 2 - (x * sig) ** 2 * dt)
    ok = rm == 0 and var == 0
    run.oblige("C10.R3", "local volatility: Euler step is a martingale with variance (S sigma)^2 dt", ok, f"mean residual {rm}; variance residual {var}")
    if not ok:
        run.fail(Finding("C10.R3", q, f"step mean residual {rm}, variance residual {var}", "the Euler step is not S(1 + sigma dW)", file=str(ctx.prog.modules[fi.module].path), line=fi.node.lineno))


def heston_coefficients(ctx, run, res):
    q = S + "heston.generate_heston"
    fi = ctx.prog.functions[q]
    r = [r for r in res if not r["raises"]][0]
    spot = outputs_of(r["value"])[0]
    steps = [s for s in step_of(spot) if "log_spot" in s[1].name]
    if not steps:
        raise AnalysisError("heston: no log-spot loop found")
    elem, carried, step, init, _ = steps[0]
    V0, V1 = sp.Symbol("V0", positive=True), sp.Symbol("V1", positive=True)

    def hook(ts, t):
        if isinstance(t, Op) and t.op == "index":
            b, idx = t.args
            last = idx[-1] if isinstance(idx, tuple) else idx
            if isinstance(b, Op) and b.op == "loop":  # the variance path produced by generate_cir
                if last == elem:
                    return V0
                if isinstance(last, Op) and last.op == "add" and last.args[0] == elem and last.args[1] == 1:
                    return V1
                raise WrongColumn(f"the variance path is read at column {last} in the step from {elem} to {elem}+1")
        return None

    ts = ToSympy(hooks=[hook, column_hook(elem, carried)], assume_positive=POS | {"rho_abs"})
    e = sp.expand(ts.conv(step))
    x = ts.sym("x")
    k, th, sg, dt = [ts.sym(n) for n in ("kappa", "theta", "sigma", "dt")]
    rho = ts.sym("rho")
    det = sp.expand(e.subs(z, 0))
    k0 = sp.simplify(det.subs({V0: 0, V1: 0}) - x)
    k1 = sp.simplify(sp.diff(det, V0))
    k2 = sp.simplify(sp.diff(det, V1))
    noise2 = sp.simplify((sp.diff(e, z)) ** 2)
    k3 = sp.simplify(sp.diff(noise2, V0))
    k4 = sp.simplify(sp.diff(noise2, V1))
    g1 = sp.simplify(k3 / (dt * (1 - rho ** 2)))
    g2 = sp.simplify(k4 / (dt * (1 - rho ** 2)))
    checks = {
        "gamma1 + gamma2 = 1": sp.simplify(g1 + g2 - 1),
        "K0 = -rho kappa theta dt / sigma": sp.simplify(k0 + rho * k * th * dt / sg),
        "K1 = gamma1 dt (kappa rho/sigma - 1/2) - rho/sigma": sp.simplify(k1 - (g1 * dt * (k * rho / sg - sp.Rational(1, 2)) - rho / sg)),
        "K2 = gamma2 dt (kappa rho/sigma - 1/2) + rho/sigma": sp.simplify(k2 - (g2 * dt * (k * rho / sg - sp.Rational(1, 2)) + rho / sg)),
    }
    for name, resid in checks.items():
        ok = resid == 0
        run.oblige("C10.R4", "heston: " + name, ok, f"residual {resid}", sample={"rule": "C10.R4", "coefficient": name, "residual": str(resid)})
        if not ok:
            run.fail(Finding("C10.R4", q, f"{name}: residual {resid}", "log-spot update differs from Andersen's quadratic-exponential scheme", file=str(ctx.prog.modules[fi.module].path), line=fi.node.lineno))


# ------------------------------------------------------------------------------------------------ drift compensators, antithetic
def _find(term, pred):
    return [x for x in walk(term) if pred(x)]


def compensators(ctx, run, results):
    prog = ctx.prog
    J, Wsym, JUMP = sp.Symbol("J", positive=True), sp.Symbol("W", real=True), sp.Symbol("JUMPS", real=True)
    # ---- Merton
    q = S + "merton_jump.generate_merton_jump"
    fi = prog.functions[q]
    r = [r for r in results[q] if not r["raises"]][0]
    val = outputs_of(r["value"])[0]
    exps = _find(val, lambda x: isinstance(x, Op) and x.op == "exp")
    if not exps:
        raise AnalysisError("merton: no exponential found")

    def mhook(ts, t):
        if isinstance(t, Op) and t.op == "arange":
            return J
        if isinstance(t, Op) and t.op == "cumsum":
            inner = t.args[0]
            if any(isinstance(x, Op) and x.op == "cat" for x in walk(inner)):
                return JUMP
            return Wsym
        return None

    ts = ToSympy(hooks=[mhook], assume_positive={"sigma", "dt", "lam", "js"})
    e = ts.conv(exps[0].args[0])
    mu, sg, lam, jm, js, dt = [ts.sym(n) for n in ("mu", "sigma", "lam", "jm", "js", "dt")]
    rate = sp.simplify(sp.diff(e, J) / dt)
    want = mu - sg ** 2 / 2 - lam * (sp.exp(jm + js ** 2 / 2) - 1)
    resid = sp.simplify(rate - want)
    okd = resid == 0 and sp.simplify(sp.diff(e, Wsym) - sg * sp.sqrt(dt)) == 0 and sp.diff(e, JUMP) == 1
    run.oblige("C10.R3", "merton: drift = mu - sigma^2/2 - lambda (E[e^Y] - 1), diffusion sigma sqrt(dt) W, plus the jump sum", okd, f"drift rate {rate}",
               sample={"rule": "C10.R3", "model": "merton", "drift_rate": str(rate)})
    if not okd:
        run.fail(Finding("C10.R3", q, f"drift rate {rate} (required {want})", "the jump compensator / Ito correction in the Merton drift is wrong: the price is not a martingale for mu = 0",
                         file=str(prog.modules[fi.module].path), line=fi.node.lineno))
    # mark law: jump = m*n + delta*sqrt(n)*z with n ~ Poisson(lambda dt)
    cats = _find(val, lambda x: isinstance(x, Op) and x.op == "cat")
    jump = cats[0].args[0][1] if cats and isinstance(cats[0].args[0], (list, tuple)) and len(cats[0].args[0]) == 2 else None
    nS, zS = sp.Symbol("n", positive=True), sp.Symbol("z1", real=True)

    def jhook(ts_, t):
        if isinstance(t, Op) and t.op == "sample":
            d = t.args[0]
            if isinstance(d, Op) and d.op == "dist" and d.args[0] == "Poisson":
                ratek = d.kwd().get("rate", d.args[1] if len(d.args) > 1 else None)
                jhook.rate = ts_.conv(ratek)
                return nS
        if isinstance(t, Op) and t.op == "call" and isinstance(t.args[0], Sym) and t.args[0].name == "engine":
            return zS
        return None

    okm = False
    detail = "jump term not found"
    if jump is not None:
        ts2 = ToSympy(hooks=[jhook], assume_positive={"sigma", "dt", "lam", "js"})
        je = ts2.conv(jump)
        jm2, js2, lam2, dt2 = ts2.sym("jm"), ts2.sym("js"), ts2.sym("lam"), ts2.sym("dt")
        okm = sp.simplify(je - (jm2 * nS + zS * js2 * sp.sqrt(nS))) == 0 and sp.simplify(getattr(jhook, "rate", 0) - lam2 * dt2) == 0
        detail = f"step mark {je}, Poisson rate {getattr(jhook, 'rate', None)}"
    run.oblige("C10.R3", "merton: step mark is m n + delta sqrt(n) z with n ~ Poisson(lambda dt)", okm, detail)
    if not okm:
        run.fail(Finding("C10.R3", q, detail, "the sampled jump marks are not the ones the compensator is computed for", file=str(prog.modules[fi.module].path), line=fi.node.lineno))
    # ---- Kou
    q = S + "kou_jump.generate_kou_jump"
    fi = prog.functions[q]
    rr = [r for r in results[q] if not r["raises"]]
    r = max(rr, key=lambda x: len(str(x["value"])))
    val = outputs_of(r["value"])[0]
    exps = [x for x in _find(val, lambda x: isinstance(x, Op) and x.op == "exp") if any(isinstance(y, Sym) and y.name == "mu" for y in walk(x))]
    if not exps:
        raise AnalysisError("kou: drift exponential not found")
    tS = sp.Symbol("tt", positive=True)

    def khook(ts_, t):
        if isinstance(t, Op) and t.op == "cumsum":
            return Wsym
        if isinstance(t, Op) and t.op == "mul" and any(isinstance(x, Op) and x.op == "arange" for x in walk(t)) and not any(isinstance(x, Sym) and x.name in ("mu", "sigma", "lam") for x in walk(t)):
            return tS  # t = dt * arange(n_steps)
        return None

    ts3 = ToSympy(hooks=[khook], assume_positive={"sigma", "dt", "lam", "ju", "jd", "pu"})
    e = ts3.conv(exps[0].args[0])
    mu, sg, lam, ju, jd, pu = [ts3.sym(n) for n in ("mu", "sigma", "lam", "ju", "jd", "pu")]
    eu, ed = 1 / ju, 1 / jd
    m_true = (1 - pu) * ed / (ed + 1) + pu * eu / (eu - 1) - 1
    rate = sp.simplify(sp.diff(e, tS))
    want = mu - lam * m_true - sg ** 2 / 2
    resid = sp.simplify(rate - want)
    ok = resid == 0
    run.oblige("C10.R3", "kou: drift = mu - lambda (E[e^Y] - 1) - sigma^2/2 with E[e^Y] = p eta_u/(eta_u-1) + (1-p) eta_d/(eta_d+1)", ok, f"residual {resid}")
    if not ok:
        run.fail(Finding("C10.R3", q, f"drift rate {rate}: residual {resid}", "the jump compensator / Ito correction in the Kou drift is wrong", file=str(prog.modules[fi.module].path), line=fi.node.lineno))
    wh = _find(val, lambda x: isinstance(x, Op) and x.op == "where" and any(isinstance(y, Op) and y.op == "dist" and y.args[0] == "Uniform" for y in walk(x)))
    okk = False
    detail = "direction/magnitude sampling not found"
    if wh:
        c, a_, b_ = wh[0].args
        def dist_of(x):
            ds = [y for y in walk(x) if isinstance(y, Op) and y.op == "dist"]
            return ds[0] if ds else None
        dc, da, db = dist_of(c), dist_of(a_), dist_of(b_)
        okk = (isinstance(c, Op) and c.op == "lt" and c.args[1] == Sym("pu") and dc is not None and dc.args[0] == "Uniform" and tuple(dc.args[1:3]) in ((0.0, 1.0), (0, 1))
               and da is not None and da.args[0] == "Exponential" and same(da.kwd().get("rate"), Op("div", (1, Sym("ju")))) and not (isinstance(a_, Op) and a_.op == "neg")
               and db is not None and db.args[0] == "Exponential" and same(db.kwd().get("rate"), Op("div", (1, Sym("jd")))) and isinstance(b_, Op) and b_.op == "neg")
        detail = f"where({str(c)[:40]}, {str(a_)[:40]}, {str(b_)[:40]})"
    run.oblige("C10.R3", "kou: marks are +Exp(1/mean_up) with probability p (U < p) and -Exp(1/mean_down) otherwise", okk, detail)
    if not okk:
        run.fail(Finding("C10.R3", q, detail, "the sampled jump marks are not the ones the compensator is computed for", file=str(prog.modules[fi.module].path), line=fi.node.lineno))
    # ---- exactly n marks per step are aggregated: columns [0 | mark_1 .. mark_max], entries k > n are reset to exp(0)
    def strip_cast(t):
        while isinstance(t, Op) and t.op in ("to", "as_tensor") and t.args and isinstance(t.args[0], (Op, Sym)):
            t = t.args[0]
        return t

    masks = [t for t in walk(val) if isinstance(t, Op) and t.op == "setitem" and isinstance(t.args[1], Op) and t.args[1].op in ("gt", "ge", "lt", "le")]
    okm, detail_m = False, "no masked reset of the per-step mark table found"
    if masks:
        st = masks[0]
        base, mask, fill = st.args
        a0, a1 = strip_cast(mask.args[0]), strip_cast(mask.args[1])
        rel = mask.op
        if isinstance(a1, Op) and a1.op == "arange":  # n < k  spelling
            a0, a1, rel = a1, a0, {"gt": "lt", "lt": "gt", "ge": "le", "le": "ge"}[rel]
        cat_ = next((x for x in walk(base) if isinstance(x, Op) and x.op == "cat"), None)
        parts = list(cat_.args[0]) if cat_ is not None and isinstance(cat_.args[0], (list, tuple)) else []
        first_zero = bool(parts) and isinstance(strip_cast(parts[0]), Op) and strip_cast(parts[0]).op in ("zeros", "zeros_like") and (not isinstance(strip_cast(parts[0]).args[-1], int) or strip_cast(parts[0]).args[-1] == 1)
        n_marks = None
        for x in walk(parts[1]) if len(parts) == 2 else ():
            if isinstance(x, Op) and x.op == "sample" and len(x.args) > 1 and isinstance(x.args[1], (tuple, list)) and len(x.args[1]) == 3:
                n_marks = x.args[1][2]
        okm = (isinstance(a0, Op) and a0.op == "arange" and len(a0.args) == 1 and n_marks is not None and same(a0.args[0], Op("add", (n_marks, 1)))
               and rel == "gt" and first_zero and fill in (1, 1.0) and isinstance(base, Op) and base.op == "exp"
               and any(isinstance(x, Op) and x.op == "sample" and isinstance(x.args[0], Op) and x.args[0].op == "dist" and x.args[0].args[0] == "Poisson" for x in walk(a1)))
        detail_m = f"reset where arange({str(a0.args[0])[:30] if isinstance(a0, Op) and a0.args else '?'}) {rel} n_jumps; first column zero: {first_zero}"
    run.oblige("C10.R3", "kou: exactly n marks per step are aggregated (columns k > n of [0 | marks] are reset to exp(0))", okm, detail_m)
    if not okm:
        run.fail(Finding("C10.R3", q, detail_m, "the number of jump marks aggregated in a step is not the sampled Poisson count", file=str(prog.modules[fi.module].path), line=fi.node.lineno))
    antithetic_rule(ctx, run)


def antithetic_rule(ctx, run, rule="C10.R6"):
    """randn_antithetic(N, T) is cat(z, -z)[:N] with z of ceil(N/2) rows: N rows for even and odd N alike"""
    prog = ctx.prog
    fa = prog.functions.get("pfhedge.stochastic.random.randn_antithetic")
    if fa is None:
        raise AnalysisError("anchor vanished: randn_antithetic")
    res = [r for r in ctx.interp.explore(fa, [W.integer("N"), W.integer("T")], dict(dtype=Sym("dtype"), device=Sym("device"), shuffle=False)) if not r["raises"]]
    ok = False
    why = "not of the form torch.cat((z, -z), dim=0)[:N]"
    if res:
        v = res[0]["value"]
        cats = _find(v, lambda x: isinstance(x, Op) and x.op == "cat")
        if cats and isinstance(cats[0].args[0], (list, tuple)) and len(cats[0].args[0]) == 2:
            a_, b_ = cats[0].args[0]
            ok = isinstance(b_, Op) and b_.op == "neg" and b_.args[0] == a_ and cats[0].kwd().get("dim") == 0
            # sizes: z has ceil(N/2) rows and the other extents unchanged; the result is cut to N rows
            if ok and isinstance(a_, Op) and a_.op == "randn":
                dims = list(a_.args[0]) if len(a_.args) == 1 and isinstance(a_.args[0], (list, tuple)) else list(a_.args)
                tsz = ToSympy()
                kk = sp.Symbol("k", integer=True, nonnegative=True)
                try:
                    rows = tsz.conv(dims[0])
                    Nsym = tsz.sym("N")
                    even, odd = sp.simplify(rows.subs(Nsym, 2 * kk)), sp.simplify(rows.subs(Nsym, 2 * kk + 1))
                    ok = even == kk and odd == kk + 1 and len(dims) == 2 and dims[1] == W.integer("T")
                    if not ok:
                        why = f"z has {even} rows for N = 2k and {odd} for N = 2k+1 (ceil(N/2) needed: cat(z, -z)[:N] has fewer than N rows otherwise)"
                except (NotImplementedError, TypeError, IndexError):
                    ok = False
                ok = ok and isinstance(v, Op) and v.op == "index" and v.args[1] in (slice(None, W.integer("N"), None), (slice(None, W.integer("N"), None),))
            else:
                ok = False
    run.oblige(rule, "randn_antithetic == cat(z, -z)[:N] along dim 0 with z of ceil(N/2) rows", ok, "")
    if not ok:
        run.fail(Finding(rule, fa.qualname, why, "the antithetic sample must be N rows, the second half the negative of the first", file=str(prog.modules[fa.module].path), line=fa.node.lineno))


def exact_solutions(ctx, run):
    """R2: with the caller's normals, (geometric) Brownian paths are the exact solution of their SDE"""
    prog, interp = ctx.prog, ctx.interp
    J, Wsym = sp.Symbol("J", positive=True), sp.Symbol("W", real=True)

    def hook(ts, t):
        if isinstance(t, Op) and t.op == "arange":
            return J
        if isinstance(t, Op) and t.op == "cumsum":
            inner = t.args[0]
            zeroed = isinstance(inner, Op) and inner.op == "setitem" and (inner.args[1][-1] if isinstance(inner.args[1], tuple) else inner.args[1]) == 0 and inner.args[2] in (0, 0.0)
            hook.zeroed = hook.zeroed and zeroed
            return Wsym
        return None

    for q, kind in ((S + "brownian.generate_brownian", "arith"), (S + "brownian.generate_geometric_brownian", "geom")):
        fi = prog.functions[q]
        kw = dict(E.GEN_KW, **E.GENERATORS[q])
        r = [r for r in interp.explore(fi, [], kw) if not r["raises"]][0]
        hook.zeroed = True
        ts = ToSympy(hooks=[hook], assume_positive={"sigma", "dt"})
        e = ts.conv(r["value"])
        mu, sg, dt = ts.sym("mu"), ts.sym("sigma"), ts.sym("dt")
        if kind == "arith":
            want = ts.sym("x0") + mu * dt * J + sg * sp.sqrt(dt) * Wsym
        else:
            want = ts.sym("S0") * sp.exp((mu - sg ** 2 / 2) * dt * J + sg * sp.sqrt(dt) * Wsym)
        resid = sp.simplify(sp.expand_log(sp.log(e / want), force=True)) if kind == "geom" else sp.simplify(e - want)
        ok = resid == 0 and hook.zeroed
        detail = f"residual {resid}" + ("" if hook.zeroed else "; the first normal is not zeroed, so W_0 != 0")
        run.oblige("C10.R2", q.rsplit(".", 1)[-1] + " is the exact solution at the grid times (W_j = sqrt(dt) * sum of the supplied normals 1..j)", ok, detail,
                   sample={"rule": "C10.R2", "generator": q.rsplit(".", 1)[-1], "value_at_column_J": str(e)[:200]})
        if not ok:
            run.fail(Finding("C10.R2", q, detail[:300], "the path is not the exact solution of the (geometric) Brownian SDE driven by the supplied normals", file=str(prog.modules[fi.module].path), line=fi.node.lineno))


_check_main = check


def rough_bergomi_rules(ctx, run):
    """R8: the pieces of the rough Bergomi scheme that have closed-form laws: the joint law of (dW, int s^alpha dW) over one step,
    the price Brownian motion dB, the variance compensator and the martingale form of the log-price increments.
    (The convolution kernel itself is rule R1 / the known finding.)"""
    prog, interp = ctx.prog, ctx.interp
    q = S + "rough_bergomi.generate_rough_bergomi"
    fi = prog.functions.get(q)
    if fi is None:
        raise AnalysisError("anchor vanished: generate_rough_bergomi")
    kw = dict(E.GEN_KW, **E.GENERATORS[q])
    res = [r for r in interp.explore(fi, [], kw, max_paths=50) if not r["raises"]]
    if len(res) != 1:
        raise AnalysisError("rough Bergomi: expected one path")
    outs = outputs_of(res[0]["value"])
    if len(outs) != 2:
        raise AnalysisError("rough Bergomi: expected (spot, variance)")
    price, variance = outs
    where = dict(file=str(prog.modules[fi.module].path), line=fi.node.lineno)
    mvn = [t for o_ in outs for t in walk(o_) if isinstance(t, Op) and t.op == "dist" and t.args and t.args[0] == "MultivariateNormal"]
    if not mvn:
        raise AnalysisError("rough Bergomi: the bivariate normal of the hybrid scheme was not found")
    ts0 = ToSympy(assume_positive={"dt", "alpha_p"})
    dt, al = ts0.sym("dt"), ts0.sym("alpha")
    cm = mvn[0].kwd().get("covariance_matrix")
    while isinstance(cm, Op) and cm.op in ("as_tensor", "tensor", "to"):
        cm = cm.args[0]
    ssym = sp.Symbol("s_", positive=True)
    ap = sp.Symbol("alpha_p", positive=True)  # alpha + 1/2 > 0 is the model's domain; integrate with a = alpha_p - 1/2
    want = [[dt, sp.integrate(ssym ** (ap - sp.Rational(1, 2)), (ssym, 0, dt))], [None, sp.integrate(ssym ** (2 * ap - 1), (ssym, 0, dt))]]
    want[1][0] = want[0][1]
    problems = []
    try:
        got = [[ts0.conv(x) for x in row] for row in cm]
        for i_ in range(2):
            for j_ in range(2):
                w_ = sp.simplify(want[i_][j_].subs(ap, al + sp.Rational(1, 2)))
                if sp.simplify(sp.powsimp(got[i_][j_] - w_, force=True)) != 0:
                    problems.append(f"covariance[{i_}][{j_}] = {got[i_][j_]}, expected {w_}")
    except (TypeError, NotImplementedError, IndexError) as ex:
        raise AnalysisError(f"rough Bergomi: covariance matrix not analysable ({ex})")
    loc = mvn[0].kwd().get("loc")
    while isinstance(loc, Op) and loc.op in ("as_tensor", "tensor", "to"):
        loc = loc.args[0]
    try:
        if not (isinstance(loc, (list, tuple)) and len(loc) == 2 and all(sp.simplify(ts0.conv(x)) == 0 for x in loc)):
            problems.append(f"mean of the Gaussian pair is {loc}, expected (0, 0)")
    except (TypeError, NotImplementedError):
        problems.append(f"mean of the Gaussian pair is {str(loc)[:40]}, expected (0, 0)")
    ok = not problems
    run.oblige("C10.R8", "rough Bergomi: one-step law of (dW, int_0^dt s^alpha dW)", ok, "; ".join(problems) or "covariance [[dt, dt^(a+1)/(a+1)], [., dt^(2a+1)/(2a+1)]]")
    if not ok:
        run.fail(Finding("C10.R8", q, "; ".join(problems)[:300], "the Gaussian pair driving the hybrid scheme does not have the covariance of (dW, int s^alpha dW)", **where))
    m00 = got[0][0]
    # ---- price increments
    cs = [t for t in walk(price) if isinstance(t, Op) and t.op == "cumsum"]
    if not cs:
        raise AnalysisError("rough Bergomi: cumulative sum of log-returns not found")
    incr = cs[0].args[0]
    W0, Z2, V = sp.Symbol("W0", real=True), sp.Symbol("Z2", real=True), sp.Symbol("V", positive=True)

    def hook(ts, t):
        if isinstance(t, Op) and t.op == "index" and isinstance(t.args[0], Op):
            b, idx = t.args
            if b.op == "sample" and b.args and b.args[0] == mvn[0] and isinstance(idx, tuple) and idx[-1] in (0, 1) and all(i_ == slice(None) for i_ in idx[:-1]):
                return W0 if idx[-1] == 0 else sp.Symbol("W1", real=True)
            if b == variance and isinstance(idx, tuple) and idx[-1] == slice(None, -1, None):
                return V
        if isinstance(t, Op) and t.op == "randn":
            return Z2
        return None

    ts = ToSympy(hooks=[hook], assume_positive={"dt"})
    try:
        inc = sp.expand(ts.conv(incr))
    except (NotImplementedError, TypeError) as ex:
        raise AnalysisError(f"rough Bergomi: log-return increment not analysable ({ex})")
    dts, rho = ts.sym("dt"), ts.sym("rho")
    a0, a2 = sp.diff(inc, W0), sp.diff(inc, Z2)
    const = sp.simplify(inc - a0 * W0 - a2 * Z2)
    m00s = m00.subs(ts0.sym("dt"), dts)
    var = sp.simplify(a0 ** 2 * m00s + a2 ** 2)
    cov = sp.simplify(a0 * m00s)
    problems = []
    if {W0, Z2} & const.free_symbols:
        problems.append("the increment is not linear in the Gaussian draws")
    else:
        if sp.simplify(var - V * dts) != 0:
            problems.append(f"conditional variance of the log-return is {var}, expected V dt")
        if sp.simplify(const + var / 2) != 0:
            problems.append(f"drift of the log-return is {const}, expected minus half its variance ({sp.simplify(-var / 2)})")
        if sp.simplify(cov - rho * sp.sqrt(V) * dts) != 0:
            problems.append(f"covariance with the variance driver is {cov}, expected rho sqrt(V) dt")
    ok = not problems
    run.oblige("C10.R8", "rough Bergomi: d log S = sqrt(V) dB - V dt / 2 with dB = rho dW + sqrt(1 - rho^2) dW'", ok, "; ".join(problems) or str(inc))
    if not ok:
        run.fail(Finding("C10.R8", q, "; ".join(problems)[:300], "the price is not the exponential martingale driven by the correlated Brownian motion", **where))
    # ---- variance compensator
    Yr, J = sp.Symbol("Yraw", real=True), sp.Symbol("J", positive=True)
    ex = [t for t in walk(variance) if isinstance(t, Op) and t.op == "exp"]
    if not ex:
        raise AnalysisError("rough Bergomi: variance is not of exponential form")

    def yhook(ts_, t):
        if isinstance(t, Op) and t.op == "add" and all(any(x == mvn[0] for x in walk(a_)) for a_ in t.args if isinstance(a_, (Op, Sym))) and any(isinstance(x, Op) and x.op == "conv1d" for x in walk(t)):
            return Yr
        if isinstance(t, Op) and t.op == "arange" and len(t.args) == 1:
            return J
        return None

    ts2 = ToSympy(hooks=[yhook], assume_positive={"dt"})
    try:
        e_ = sp.expand(ts2.conv(ex[0].args[0]))
    except (NotImplementedError, TypeError) as ex_:
        raise AnalysisError(f"rough Bergomi: variance exponent not analysable ({ex_})")
    c_ = sp.diff(e_, Yr)
    d_ = sp.simplify(e_ - c_ * Yr)
    al2, dt2 = ts2.sym("alpha"), ts2.sym("dt")
    var_y = (J * dt2) ** (2 * al2 + 1) / (2 * al2 + 1)  # Var int_0^t (t-s)^alpha dW_s
    resid = sp.simplify(sp.powsimp(sp.expand_power_base(d_ + c_ ** 2 * var_y / 2, force=True), force=True))
    ok = Yr not in d_.free_symbols and c_ != 0 and resid == 0
    run.oblige("C10.R8", "rough Bergomi: variance = xi exp(c Y - c^2 Var(Y) / 2) (mean xi at every time)", ok, f"c = {c_}; residual {resid}")
    if not ok:
        run.fail(Finding("C10.R8", q, f"exponent {e_}: residual {resid}", "the forward-variance compensator does not make the variance process have mean xi", **where))
    # first variance / price column carries the initial state
    run.require("C10.R8", 3)


def sobol_engine_rule(ctx, run):
    """R7: RandnSobolBoxMuller draws enough two-dimensional Sobol points, feeds the two *different* coordinates to box_muller,
    concatenates both outputs, keeps exactly the requested number and gives them the requested shape, dtype and device.  Decided on what
    `engine(N, T, dtype=, device=)` returns, whatever helper methods the class splits the work into."""
    prog, interp = ctx.prog, ctx.interp
    EQ = "pfhedge.stochastic.engine.RandnSobolBoxMuller"
    call = prog.lookup_method(EQ, "__call__")
    if call is None:
        raise AnalysisError("anchor vanished: RandnSobolBoxMuller.__call__")
    run.functions.add(call.qualname)
    gen = prog.lookup_method(EQ, "_generate_1d") or call
    o = Obj(EQ, "eng", {"scramble": Sym("scramble", ("bool",)), "seed": Sym("seed")})
    N_, T_ = W.integer("N"), W.integer("T")
    resc = [r for r in interp.explore(call, [N_, T_], dict(dtype=Sym("dtype"), device=Sym("device")), self_obj=o) if not r["raises"]]
    problems = []
    if len(resc) != 1:
        raise AnalysisError("RandnSobolBoxMuller.__call__: expected one path")
    vv = resc[0]["value"]
    ts = ToSympy()
    NT = ts.sym("N") * ts.sym("T")

    def is_numel(t):
        try:
            return sp.simplify(ts.conv(t) - NT) == 0
        except (NotImplementedError, TypeError):
            return False
    if not (isinstance(vv, Op) and vv.op in ("resize", "resize_", "view", "reshape") and list(vv.args[1:]) in ([N_, T_], [(N_, T_)])):
        problems.append(f"the result is not given the requested shape ({str(vv)[:40]})")
        v = vv
    else:
        v = vv.args[0]
    ok_cat = (isinstance(v, Op) and v.op == "index" and isinstance(v.args[1], slice) and v.args[1].start is None and v.args[1].step is None and isinstance(v.args[0], Op)
              and v.args[0].op == "cat" and v.args[0].kwd().get("dim", 0) == 0 and isinstance(v.args[0].args[0], (tuple, list)) and len(v.args[0].args[0]) == 2)
    if not ok_cat:
        problems.append("the result is not cat((z0, z1), dim=0)[:n]")
    elif not is_numel(v.args[1].stop):
        problems.append("the number of normals kept is not the product of the requested sizes")
    bm = [e for e in resc[0]["events"] if e["kind"] == "call" and e["callee"].endswith("functional.box_muller")]
    bm_args = list(bm[0].get("bound", {}).values()) if len(bm) == 1 else []
    draws = [t for t in walk(vv) if isinstance(t, Op) and t.op == "draw"]
    if len(bm) != 1 or len(bm_args) != 2:
        problems.append("box_muller is not applied once to two inputs")
    else:
        cols = []
        for a_ in bm_args:
            ok_ = isinstance(a_, Op) and a_.op == "index" and isinstance(a_.args[1], tuple) and a_.args[1][0] == slice(None, None, None) and isinstance(a_.args[1][-1], int)
            if not ok_ and isinstance(a_, Op) and a_.op in ("getitem", "index") and isinstance(a_.args[0], Op) and a_.args[0].op == "unbind" and a_.args[0].kwd().get("dim", a_.args[0].args[1] if len(a_.args[0].args) > 1 else 0) in (1, -1) and isinstance(a_.args[1], int):
                cols.append((a_.args[0].args[0], a_.args[1]))  # rand.unbind(dim=1)[k] is rand[:, k]
                continue
            cols.append((a_.args[0], a_.args[1][-1]) if ok_ else None)
        if None in cols or cols[0][0] != cols[1][0] or {cols[0][1], cols[1][1]} != {0, 1}:
            problems.append("box_muller does not receive the two different coordinates of one Sobol draw")
        elif ok_cat:
            exit_bm = [e["value"] for e in resc[0]["events"] if e["kind"] == "exit" and e["callee"].endswith("functional.box_muller")]
            parts = list(v.args[0].args[0])
            if not exit_bm or sorted(map(str, parts)) != sorted(map(str, exit_bm[0])):
                problems.append("the two Box-Muller outputs are not both used")
    if not draws:
        problems.append("no Sobol draw")
    else:
        d_ = draws[0]
        eng = d_.args[0]
        dim_ = eng.kwd().get("dimension", eng.args[1] if isinstance(eng, Op) and len(eng.args) > 1 else None) if isinstance(eng, Op) else None
        if not (isinstance(eng, Op) and eng.op == "dist" and eng.args[0] == "SobolEngine" and dim_ == 2):
            problems.append("the Sobol engine is not two-dimensional")
        cnt = d_.kwd().get("n", d_.args[1] if len(d_.args) > 1 else None)
        # m = n // 2 + c: 2m >= n for even and odd n  <=>  c >= 1
        okc = False
        if isinstance(cnt, Op) and cnt.op == "add" and isinstance(cnt.args[0], Op) and cnt.args[0].op == "floordiv" and is_numel(cnt.args[0].args[0]) and cnt.args[0].args[1] == 2 and isinstance(cnt.args[1], int):
            okc = cnt.args[1] >= 1
        elif isinstance(cnt, Op) and cnt.op == "floordiv" and isinstance(cnt.args[0], Op) and cnt.args[0].op == "add" and is_numel(cnt.args[0].args[0]) and isinstance(cnt.args[0].args[1], int) and cnt.args[1] == 2:
            okc = cnt.args[0].args[1] >= 1  # (n + c) // 2
        if not okc:
            problems.append(f"{str(cnt)[:60]} Sobol points give fewer than n normals for some n")
        cast = [t for t in walk(vv) if isinstance(t, Op) and t.op == "to" and t.args and t.args[0] == d_]
        if not cast or not all(Sym("dtype") in list(t.args[1:]) + [t.kwd().get("dtype")] for t in cast):
            problems.append("the uniforms are not cast to the requested dtype")
        elif not all(Sym("device") in list(t.args[1:]) + [t.kwd().get("device")] for t in cast):
            problems.append("the requested device is not forwarded")
    # independence along the time axis: a low-discrepancy sequence is equidistributed over its DIMENSIONS, its consecutive points are not
    # independent draws.  An (N, T) request is for T independent normals per path; if the dimension of the sequence does not grow with T
    # (one coordinate pair per time step) and the stream is laid out row-major, one path consists of consecutive points of one sequence.
    if len(resc) == 1:
        dims_ = [t.kwd().get("dimension", t.args[1] if len(t.args) > 1 else None) for t in walk(resc[0]["value"]) if isinstance(t, Op) and t.op == "dist" and t.args and t.args[0] == "SobolEngine"]
        dims_ = [d0 for d0 in dims_ if d0 is not None]
        dep = bool(dims_) and all(isinstance(d0, (Op, Sym)) and any(x_ == W.integer("T") for x_ in walk(d0)) for d0 in dims_)
        run.oblige("C10.R7", "RandnSobolBoxMuller: the Sobol dimension covers the time axis (independent normals along a path)", dep, f"SobolEngine dimension {dims_}")
        if not dep:
            run.fail(Finding("C10.R7", call.qualname, f"SobolEngine dimension {dims_[0] if dims_ else None} does not depend on the requested time axis",
                             "consecutive points of one low-discrepancy sequence fill the time axis of each path: increments are not independent, so paths driven by this engine do not have the law of the model",
                             file=str(prog.modules[call.module].path), line=call.node.lineno, witness="Var[B_T] / (sigma^2 T) = 0.07 .. 0.12 for generate_brownian(20000, 50, engine=RandnSobolBoxMuller(scramble=True))"))
    ok = not problems
    run.oblige("C10.R7", "RandnSobolBoxMuller: n normals from ceil-enough 2-d Sobol points through box_muller, requested shape/dtype/device", ok, "; ".join(problems))
    if not ok:
        run.fail(Finding("C10.R7", gen.qualname, "; ".join(problems)[:300], "the quasi-random engine does not return the requested number of Box-Muller normals", file=str(prog.modules[gen.module].path), line=gen.node.lineno))


def check(ctx, run):  # noqa: F811
    _check_main(ctx, run)
    exact_solutions(ctx, run)
    rough_bergomi_rules(ctx, run)
    sobol_engine_rule(ctx, run)
    results = {}
    for q, fi, kw in E.generator_runs(ctx):
        if q.endswith("generate_merton_jump") or q.endswith("generate_kou_jump"):
            results[q] = [r for r in ctx.interp.explore(fi, [], kw, max_paths=200)]
    compensators(ctx, run, results)


_check_before_ctors = check


def check(ctx, run):  # noqa: F811
    _check_before_ctors(ctx, run)
    from ..ctors import ctor_rule
    from ..primaries import primary_classes
    ctor_rule(ctx, run, "C10.R9", primary_classes(ctx.prog), None, "a model parameter the generator receives (self.<name>) is not the one the instrument was created with")
    from ..primaries import init_forwarding_rule
    init_forwarding_rule(ctx, run, "C10.R10")
    from ..primaries import param_forwarding_rule
    param_forwarding_rule(ctx, run, "C10.R10")
    from ..ctors import exports_rule
    exports_rule(ctx, run, "C10.R9", ['pfhedge.stochastic', 'pfhedge.instruments.primary'])
