"""C15 - fit() performs exactly the documented training protocol.
Typestate over the interpreted event traces of Hedger.fit (all paths), _configure_optimizer, compute_loss and ensemble_mean.
Added after the seeded-defect rounds: R5/R7 also: nothing is stored on the hedger by fit()/_configure_optimizer (an optimiser kept between calls)."""
import re

from .. import world as W
from ..interp import FuncInfo, Obj, Unsupported
from ..report import AnalysisError, Finding
from ..term import Op, Sym, walk, _walk_any


def events_of(r, prog):
    """abstract event string of one path (depth-independent, only protocol-relevant events)"""
    out = []
    depth = 0
    stack = []
    for e in r["events"]:
        k = e["kind"]
        if k == "enter":
            stack.append(e["callee"])
            continue
        if k == "exit":
            stack.pop()
            continue
        top = stack[-1] if stack else ""
        if k == "loop_begin" and top.endswith("Hedger.fit"):
            out.append(("LOOP[", e))
        elif k == "loop_end" and top.endswith("Hedger.fit"):
            out.append(("]", e))
        elif k == "module_method" and e["method"] in ("train", "eval") and getattr(e["recv"], "name", "") == "hedger":
            out.append((e["method"], e))
        elif k == "opaque_call" and isinstance(e["callee"], Sym) and e["callee"].name in ("opt.zero_grad", "opt.step"):
            out.append((e["callee"].name[4:], e))
        elif k == "backward":
            out.append(("backward", e))
        elif k == "call" and e["callee"].endswith("Hedger.compute_loss"):
            out.append(("loss", e))
        elif k == "call" and e["callee"].endswith("BaseDerivative.simulate"):
            out.append(("simulate", e))
        elif k == "list_append" and top.endswith("Hedger.fit"):  # the per-epoch record (whatever the list is called)
            out.append(("append", e))
        elif k == "with_enter":
            out.append(("grad{", e))
        elif k == "with_exit":
            out.append(("}", e))
        elif k == "opaque_call" and isinstance(e["callee"], Sym) and e["callee"].name == "criterion":
            out.append(("criterion", e))
        elif k == "call" and e["callee"].endswith("Hedger.compute_portfolio"):
            out.append(("portfolio", e))
    return out


TRAIN = r"train zero_grad loss grad\{ (simulate portfolio criterion )+\} backward step"
VALID = r"eval loss grad\{ (simulate portfolio criterion )+\} append"


def check(ctx, run):
    prog, interp = ctx.prog, ctx.interp
    run.trusted += ["torch.nn.Module.train/eval, Optimizer.zero_grad/step semantics"]
    run.assumptions += ["the optimiser instance passed by the caller updates only the parameters it was built on"]
    fit = prog.lookup_method(W.HEDGER, "fit")
    if fit is None:
        raise AnalysisError("anchor vanished: Hedger.fit")
    run.functions.add(fit.qualname)
    h = W.hedger(prog, [W.feature("Moneyness", log=False)])
    d = W.option()
    kw = dict(derivative=d, n_epochs=W.integer("n_epochs"), n_paths=W.integer("n_paths"), n_times=W.integer("n_times"),
              optimizer=Obj("torch.optim.optimizer.Optimizer", "opt"), init_state=Sym("init_state"), verbose=False, validation=Sym("validation", ("bool",)),
              hedge=Sym("hedge_arg"))
    given_hedge = [Obj(W.PRIMARY, "hA"), Obj(W.PRIMARY, "hB")]
    kw["hedge"] = given_hedge
    try:
        res = interp.explore(fit, [], kw, self_obj=h)
    except Unsupported as ex:
        raise AnalysisError(f"Hedger.fit: {ex}")
    run.require("C15.R2", 2)
    for r in res:
        label = ",".join(f"{str(c)[:20]}={dd}" for c, dd, _ in r["cond"])
        if r["raises"]:
            raise AnalysisError(f"fit path {label} raises {r['raises'].exc}")
        ev = events_of(r, prog)
        s = " ".join(k for k, _ in ev)
        validation = dict((str(c), dd) for c, dd, _ in r["cond"]).get("validation")
        body = re.search(r"LOOP\[ (.*) \]", s)
        problems = []
        if not body:
            problems.append("no epoch loop")
        else:
            b = body.group(1)
            want = TRAIN + (" " + VALID if validation else "")
            if not re.fullmatch(want, b):
                problems.append(f"iteration trace '{b}' does not match '{'train zero_grad loss backward step' + (' eval loss append' if validation else '')}'")
            pre, post = s[: body.start()].strip(), s[body.end():].strip()
            if re.search(r"\b(step|zero_grad|backward)\b", pre + " " + post):
                problems.append("optimiser events outside the epoch loop")
        # loop range
        lb = [e for k, e in ev if k == "LOOP["]
        if lb:
            over = lb[0]["over"]
            if not (over[0] == "range" and len(over) == 2 and over[1] == W.integer("n_epochs")):
                problems.append(f"epoch loop iterates over {over}, not range(n_epochs)")
        # configuration of the two compute_loss calls
        losses = [e for k, e in ev if k == "loss"]
        if losses:
            t = losses[0]["kwargs"]
            if not (t.get("n_paths") == W.integer("n_paths") and t.get("init_state") == Sym("init_state") and "n_times" not in t and t.get("enable_grad", True) is True and t.get("hedge", None) is given_hedge):
                problems.append(f"training loss configuration {{{', '.join(f'{k}={v}' for k, v in t.items())}}}")
            if validation and len(losses) > 1:
                v = losses[1]["kwargs"]
                if not (v.get("n_times") == W.integer("n_times") and v.get("enable_grad") is False and v.get("n_paths") == W.integer("n_paths") and v.get("init_state") == Sym("init_state") and v.get("hedge", None) is given_hedge):
                    problems.append(f"validation loss configuration {{{', '.join(f'{k}={v_}' for k, v_ in v.items())}}}")
        # grad regions: first region enabled (default True), validation region False
        regions = [e for k, e in ev if k == "grad{"]
        modes = [getattr(c, "attrs", {}).get("arg") for e in regions for c in e["ctx"]]
        if modes[:1] != [True] or (validation and modes[1:2] != [False]):
            problems.append(f"grad modes of the loss evaluations are {modes}")
        # backward on the training loss, defined after zero_grad
        bw = [e for k, e in ev if k == "backward"]
        if bw and losses:
            tgt = bw[0]["target"]
            if not any(isinstance(x, Op) and x.op == "call" and isinstance(x.args[0], Sym) and x.args[0].name == "criterion" for x in walk(tgt)):
                problems.append("backward is not called on the criterion value")
        # return value
        val = r["value"]
        if validation:
            if not (isinstance(val, list) and len(val) == 1 and isinstance(val[0], Op) and val[0].op == "forall"):
                problems.append(f"returns {str(val)[:60]} instead of one validation loss per epoch")
        elif val is not None:
            problems.append(f"returns {str(val)[:60]} instead of None when validation is off")
        ok = not problems
        run.oblige("C15.R2", f"fit path [{label}]", ok, "; ".join(problems) or s, sample={"rule": "C15.R2", "path": label, "trace": s})
        if not ok:
            run.fail(Finding("C15.R2", fit.qualname, "; ".join(problems)[:400], "the training loop deviates from train/zero_grad/loss/backward/step (+ eval/validation) once per epoch",
                             file=str(prog.modules[fit.module].path), line=fit.node.lineno, case=label))
    # ---- R7 no other writer of the parameters, gradients or optimiser state is reachable from fit
    WRITERS = {"load_state_dict", "requires_grad_", "zero_grad", "apply", "_apply", "to", "float", "double", "half", "bfloat16", "cpu", "cuda", "type",
               "register_parameter", "add_module", "register_module", "share_memory"}
    HANDLES = {"parameters", "named_parameters", "buffers", "named_buffers", "state_dict", "modules", "named_modules", "children"}

    def has_handle(x, tainted):
        for t in _walk_any(x):
            if isinstance(t, Op) and t.op in HANDLES:
                return True
            if isinstance(t, Sym) and t.name in tainted:
                return True
            if isinstance(t, Obj) and t.name in ("hedger",):
                return True
        return False

    for r in res:
        label = ",".join(f"{str(c)[:20]}={dd}" for c, dd, _ in r["cond"])
        stack, tainted, problems = [], set(), []
        for e in r["events"]:
            k = e["kind"]
            if k == "enter":
                stack.append(e["callee"])
                continue
            if k == "exit":
                stack.pop()
                continue
            where = (stack[-1] if stack else fit.qualname).rsplit(".", 1)[-1]
            if k == "obj_setattr" and isinstance(e.get("obj"), Obj) and e["obj"].name == "hedger" and e["attr"].startswith("_") and not e["attr"].startswith("__"):
                # anything fit() leaves on the hedger (a kept optimiser, a cached binding) makes the next fit() differ from a fresh reference loop
                problems.append(f"{where}: stores hedger.{e['attr']} (state carried over to the next call)")
                continue
            if any(f.endswith("Hedger._configure_optimizer") for f in stack):
                continue
            if k == "loop_begin" and has_handle(e["over"], tainted):
                tainted.add(e["var"])
            elif k == "inplace" and has_handle(e["target"], tainted):
                problems.append(f"{where}: in-place {e['how']} on {str(e['target'])[:50]}")
            elif k == "discard" and e["value"].op.endswith("_") and has_handle(e["value"].args, tainted):
                problems.append(f"{where}: {e['value'].op}({str(e['value'].args[0])[:40]}, ...)")
            elif k == "module_method" and e["method"] in WRITERS and getattr(e["recv"], "name", "") in ("hedger", "model"):
                problems.append(f"{where}: {e['recv'].name}.{e['method']}()")
            elif k == "method_call" and e["method"] in WRITERS and ((isinstance(e["recv"], Sym) and e["recv"].name in ("model", "criterion")) or has_handle(e["recv"], tainted)):
                problems.append(f"{where}: {str(e['recv'])[:30]}.{e['method']}()")
            elif k == "opaque_call" and isinstance(e["callee"], Sym) and e["callee"].name.startswith("opt.") and e["callee"].name not in ("opt.zero_grad", "opt.step"):
                problems.append(f"{where}: {e['callee'].name}()")
            elif k == "setattr" and has_handle(e["target"], tainted):
                problems.append(f"{where}: store to .{e['attr']} of {str(e['target'])[:40]}")
        problems = list(dict.fromkeys(problems))
        ok = not problems
        run.oblige("C15.R7", f"fit path [{label}]: only optimizer.step() writes parameters", ok, "; ".join(problems))
        if not ok:
            run.fail(Finding("C15.R7", fit.qualname, "; ".join(problems)[:300], "parameters, gradients or optimiser state are written outside zero_grad/backward/step, so the result differs from the reference training loop",
                             file=str(prog.modules[fit.module].path), line=fit.node.lineno, case=label))
    # ---- R5 _configure_optimizer
    co = prog.lookup_method(W.HEDGER, "_configure_optimizer")
    run.functions.add(co.qualname)
    cases = {
        "instance": Obj("torch.optim.optimizer.Optimizer", "opt"),
        "class": Obj("type:Optimizer", "OptCls", {"__mro__": [Sym("OptCls"), Sym("Optimizer")]}),
    }
    hh = W.hedger(prog, [W.feature("Moneyness", log=False)])
    res = interp.explore(co, [W.option(), cases["instance"]], {}, self_obj=hh)
    ok = all((not r["raises"]) and isinstance(r["value"], Obj) and r["value"].name == "opt" and not any(e["kind"] == "call" and e["callee"].endswith("simulate") for e in r["events"]) for r in res)
    run.oblige("C15.R5", "_configure_optimizer(instance)", ok, "returned unchanged, no simulation")
    if not ok:
        run.fail(Finding("C15.R5", co.qualname, "optimizer instance", "a supplied optimiser instance is not returned unchanged", file=str(prog.modules[co.module].path), line=co.node.lineno))
    # class path: (if lazy: simulate(1) ; compute_pl) then optimizer(self.model.parameters()); anything else raises
    OptCls = Sym("OptCls", ("callable",))
    hc = W.hedger(prog, [W.feature("Moneyness", log=False)])
    try:
        resc = interp.explore(co, [W.option(), OptCls], {}, self_obj=hc)
    except Unsupported as ex:
        raise AnalysisError(f"_configure_optimizer(class): {ex}")
    problems = []
    lazy_paths = {True: [], False: []}
    for r in resc:
        if r["raises"]:
            continue
        lz = [dd for c, dd, _ in r["cond"] if "is_lazy" in str(c)]
        lazy_paths[bool(lz and lz[0])].append(r)
    if not lazy_paths[True] or not lazy_paths[False]:
        problems.append("no separate treatment of lazy (uninitialised) parameters")
    for lazy, rs in lazy_paths.items():
        for r in rs:
            kept = sorted({e["attr"] for e in r["events"] if e["kind"] == "obj_setattr" and e.get("obj") is hc and e["attr"].startswith("_") and not e["attr"].startswith("__")})
            if kept:
                problems.append(f"stores hedger.{', hedger.'.join(kept)}: the optimiser (its moments, its parameter list) is carried over to the next fit() instead of being constructed afresh")
            v = r["value"]
            if isinstance(v, Op) and v.op == "call" and v.args[0] == OptCls:
                pass
            elif kept:
                # the value came back through the stored attribute: judge what was stored
                stored = [e["value"] for e in r["events"] if e["kind"] == "obj_setattr" and e.get("obj") is hc and e["attr"] in kept]
                v = stored[-1] if stored else v
            arg = v.args[1] if isinstance(v, Op) and v.op == "call" and v.args[0] == OptCls and len(v.args) == 2 and not v.kw else None
            while isinstance(arg, Op) and arg.op in ("py_list", "py_tuple", "iter", "list", "tuple") and len(arg.args) == 1:
                arg = arg.args[0]
            if not (isinstance(arg, Op) and arg.op == "parameters" and len(arg.args) == 1 and arg.args[0] == Sym("model")):
                problems.append(f"returns {str(v)[:60]}, expected optimizer(self.model.parameters())")
            if not any(e["kind"] == "guard" and "__mro__" in str(e["cond"]) or e["kind"] == "guard" and "issubclass" in str(e["cond"]) for e in r["events"]):
                problems.append("a non-optimiser argument is not rejected")
            seq = []
            for e in r["events"]:
                if e["kind"] == "call" and e["callee"].endswith("BaseDerivative.simulate"):
                    seq.append(("simulate", e))
                elif e["kind"] == "opaque_call" and e["callee"] == Sym("model"):
                    seq.append(("forward", e))
                elif e["kind"] == "opaque_call" and e["callee"] == OptCls:
                    seq.append(("build", e))
            names = [k for k, _ in seq]
            if lazy:
                if not (names.count("build") == 1 and "simulate" in names and "forward" in names and names.index("simulate") < names.index("forward") < names.index("build")):
                    problems.append(f"lazy parameters: event order {names}, expected simulate, forward pass, then the optimiser")
                elif dict(seq[names.index("simulate")][1]["kwargs"]).get("n_paths") != 1:
                    problems.append("the placeholder simulation does not use n_paths=1")
            elif names != ["build"]:
                problems.append(f"initialised parameters: events {names}, expected only the optimiser construction")
    problems = list(dict.fromkeys(problems))
    ok = not problems
    run.oblige("C15.R5", "_configure_optimizer(class)", ok, "; ".join(problems))
    if not ok:
        run.fail(Finding("C15.R5", co.qualname, "; ".join(problems), "an optimiser class must be instantiated on the model's (materialised) parameters", file=str(prog.modules[co.module].path), line=co.node.lineno))
    # ---- R6 compute_loss / ensemble_mean
    cl = prog.lookup_method(W.HEDGER, "compute_loss")
    hh = W.hedger(prog, [W.feature("Moneyness", log=False)])
    for nt, label in ((1, "n_times=1"), (3, "n_times=3")):
        res = [r for r in interp.explore(cl, [W.option()], dict(n_paths=W.integer("n_paths"), n_times=nt, init_state=Sym("init_state")), self_obj=hh) if not r["raises"]]
        ev = events_of(res[0], prog)
        s = " ".join(k for k, _ in ev)
        want = r"grad\{ (simulate portfolio criterion ){%d}\}" % nt
        sims = [e for k, e in ev if k == "simulate"]
        okc = bool(re.fullmatch(want, s)) and all(e["kwargs"].get("n_paths") == W.integer("n_paths") and e["kwargs"].get("init_state") == Sym("init_state") for e in sims)
        val = res[0]["value"]
        if nt > 1:
            okc = okc and isinstance(val, Op) and val.op == "mean" and val.kwd().get("dim") == 0
        run.oblige("C15.R6", f"compute_loss[{label}]", okc, s, sample={"rule": "C15.R6", "case": label, "trace": s})
        if not okc:
            run.fail(Finding("C15.R6", cl.qualname, f"{label}: trace '{s}'", "each loss evaluation must simulate a fresh batch of the requested size, then portfolio, then criterion; n_times evaluations are averaged",
                             file=str(prog.modules[cl.module].path), line=cl.node.lineno, case=label))
