"""C03 - batched and stepwise evaluation agree; prev_hedge is the last output.
R1 every state-independent feature: get(i) == get(None)[:, [i]] (column algebra); R2 both branches of compute_hedge feed
the model the same per-step input; R3 the prev-hedge chain: hook registration, buffer name agreement, zero reset
of shape (N,1,H) before the loop, model invoked through self(...), state-dependence selects the branch.
Added after the seeded-defect rounds: R2 also: declared feature order in the step-by-step branch (probed with prev_hedge first) and the same last column in both branches; R3c-e on every path.
Third round: R1p both branches compute in the dtype of the data (nothing computed in the default dtype and converted afterwards); R1h nothing computed from an earlier simulation survives a new one (call histories); R3a the constructor keeps model, criterion and inputs in order.
Rounds 4-5: R2m built-in models are pointwise in time; R3h hedger-level call histories (one hedger two derivatives; two hedgers sharing feature objects); R3b PrevHedge returns the stored buffer whole; hedgers are built through the real constructor.
Round 7: R4 both branches with the same two hedging instruments; a reshape to permuted extents is not a transpose; R2 accepts stack of (N, H) columns for cat of (N, 1, H) columns."""
import sympy as sp

from .. import entrypoints as E
from .. import world as W
from ..colalg import AxisError, Col
from ..interp import FuncInfo, Obj, Unsupported
from ..report import AnalysisError, Finding
from ..term import Op, Sym, walk

EXEMPT = {"Empty": "documented as uninitialised memory: equality is undefined"}


def check(ctx, run):
    prog, interp = ctx.prog, ctx.interp
    run.trusted += ["column semantics of indexing / cummax / prefix reductions (operator table)", "sympy simplify"]
    run.assumptions += ["0 <= i < T", "user models act on the last axis only"]
    run.require("C03.R1", 15)
    # ---- R1
    by_label = {}
    for label, mode, ts, make in E.feature_runs(ctx):
        by_label.setdefault(label, {})[mode] = (ts, make)
    for label, modes in by_label.items():
        cls = label.split("[")[0]
        if cls in EXEMPT:
            run.notes.append(f"{label}: exempt ({EXEMPT[cls]})")
            continue
        if cls == "Spot":
            # the pricer's result is opaque; both branches index the same call result
            pass
        vals = {}
        for mode, (ts, make) in modes.items():
            f = make()
            get = prog.lookup_method(f.cls, "get")
            run.functions.add(get.qualname)
            res = [r for r in interp.explore(get, [ts], {}, self_obj=f) if not r["raises"]]
            if len(res) != 1:
                raise AnalysisError(f"{get.qualname} ({mode}): expected one path")
            vals[mode] = res[0]["value"]
        C = Col()
        try:
            isym = C.scalar(W.integer("i"))
            a = C.col(mark_opaque(vals["step"]), sp.Symbol("unused"))
            b = C.col(mark_opaque(vals["batch"]), isym)
            ok = sp.simplify(a - b) == 0
            detail = f"step: {a} ; batch[:, i]: {b}"
        except AxisError as ex:
            f = modes["step"][1]()
            get = prog.lookup_method(f.cls, "get")
            run.oblige("C03.R1", label, False, str(ex))
            run.fail(Finding("C03.R1", get.qualname, f"{label}: {ex}", "one branch of the feature reduces along an axis that is not time, the other does not",
                             file=str(prog.modules[get.module].path), line=get.node.lineno))
            continue
        except (NotImplementedError, ValueError) as ex:
            raise AnalysisError(f"{label}: column algebra cannot model {ex}")
        run.oblige("C03.R1", label, ok, detail, sample={"rule": "C03.R1", "feature": label, "step": str(a), "batch_col_i": str(b)})
        if not ok:
            f = modes["step"][1]()
            get = prog.lookup_method(f.cls, "get")
            run.fail(Finding("C03.R1", get.qualname, f"{label}: step {a} vs batch column {b}", "the single-step branch and the all-steps branch of the feature disagree",
                             file=str(prog.modules[get.module].path), line=get.node.lineno))

    # ---- R3 chain
    run.require("C03.R3", 6)
    hook = prog.functions.get("pfhedge._utils.hook.save_prev_output")
    if hook is None:
        raise AnalysisError("anchor vanished: save_prev_output")
    # (a) constructor registers the hook
    init = prog.lookup_method(W.HEDGER, "__init__")
    h = Obj(W.HEDGER, "hedger")
    res = interp.explore(init, [Sym("model", ("callable",)), [], Sym("criterion", ("callable",))], {}, self_obj=h)
    regs = [e for r in res for e in r["events"] if e["kind"] == "module_method" and e["method"] == "register_forward_hook"]
    ok = bool(regs) and all(isinstance(e["args"][0], FuncInfo) and e["args"][0].qualname == hook.qualname and e["recv"].name == "hedger" for e in regs)
    fact(run, prog, init, "C03.R3a", "Hedger.__init__ registers save_prev_output as forward hook on self", ok)
    # (a') ... and keeps the model, the criterion and the input features it was given, in the given order (every analysis below builds its
    # hedger from these three attributes)
    f1_, f2_ = W.feature("Moneyness", log=False), W.feature("PrevHedge")
    m_, c_ = Sym("model", ("callable",)), Sym("criterion", ("callable",))
    h_ = Obj(W.HEDGER, "hedger")
    res_i = [r for r in interp.explore(init, [m_, [f1_, f2_], c_], {}, self_obj=h_) if not r["raises"]]
    oki = bool(res_i)
    for r in res_i:
        st = {e["attr"]: e["value"] for e in r["events"] if e["kind"] == "obj_setattr" and e.get("obj") is h_}
        fl_ = st.get("inputs")
        feats = fl_.attrs.get("features") if isinstance(fl_, Obj) else None
        oki = oki and st.get("model") is m_ and st.get("criterion") is c_ and isinstance(fl_, Obj) and fl_.cls.endswith("FeatureList") \
            and isinstance(feats, list) and len(feats) == 2 and feats[0] is f1_ and feats[1] is f2_
    fact(run, prog, init, "C03.R3a", "Hedger.__init__ keeps the given model, criterion and input features (in the given order)", oki)
    # (b) name agreement
    m = Obj("torch.nn.Module.fake", "mod")
    m.cls = W.HEDGER
    out = Sym("out", ("tensor",))
    res = interp.explore(hook, [m, (), out], {})
    wr = [e for r in res for e in r["events"] if e["kind"] == "register_buffer"]
    ph = W.feature("PrevHedge", hedger=Obj(W.HEDGER, "hedger"))
    res2 = interp.explore(prog.lookup_method(ph.cls, "get"), [W.integer("i")], {}, self_obj=ph)
    rd = [e for r in res2 for e in r["events"] if e["kind"] == "module_method" and e["method"] == "get_buffer"]
    wr = [e for e in wr if e.get("tensor") is not None] or wr
    okb = bool(wr) and len(rd) == 1 and all(e["name"] == rd[0]["args"][0] and same_values(e["tensor"]) == out for e in wr)
    fact(run, prog, hook, "C03.R3b", f"hook stores its output argument itself under the name PrevHedge reads ({wr[0]['name'] if wr else '?'} / {rd[0]['args'][0] if rd else '?'})", okb)
    # (b') ... and PrevHedge hands the model that buffer whole: one column per hedging instrument (an index on its last axis would pick one
    # instrument, an index on the middle axis one step of an all-steps evaluation)
    ph2 = W.feature("PrevHedge", hedger=Obj(W.HEDGER, "hedger"))
    hb_ = Sym("stored_prev_output", ("tensor",))
    ph2.attrs["hedger"].attrs["__buf_prev_output"] = hb_
    res3 = [r for r in interp.explore(prog.lookup_method(ph2.cls, "get"), [W.integer("i")], {}, self_obj=ph2) if not r["raises"]]
    okw = bool(res3) and all(same_values(r["value"]) == hb_ for r in res3)
    fact(run, prog, prog.lookup_method(ph2.cls, "get"), "C03.R3b", "PrevHedge.get returns the stored previous output whole (all hedging instruments)", okw)
    # (c,d,e) on compute_hedge with two hedging instruments
    ch = prog.lookup_method(W.HEDGER, "compute_hedge")
    hedge = [Obj(W.PRIMARY, "hA"), Obj(W.PRIMARY, "hB")]
    fobjs = [W.feature("Moneyness", log=False), W.feature("PrevHedge")]
    hh = W.hedger(prog, fobjs)
    allres = interp.explore(ch, [W.option()], {"hedge": hedge}, self_obj=hh)
    res = [r for r in allres if not r["raises"]]
    if not res:
        why = allres[0]["raises"].exc if allres and allres[0]["raises"] else "no path"
        fact(run, prog, ch, "C03.R3f", f"inputs containing prev_hedge take the step-by-step branch (found: {str(why)[:80]})", False)
        return
    # every path through compute_hedge (a helper may branch on what it finds on the hedger) must satisfy the chain facts
    verdicts = {"c": [], "d": [], "e": []}
    idx_loop = None
    for r_ in res:
        ev = r_["events"]
        tag = "" if len(res) == 1 else " [path " + ",".join(f"{str(c_)[:30]}={d_}" for c_, d_, _ in r_["cond"]) + "]"
        idx_loop = next((k for k, e in enumerate(ev) if e["kind"] == "loop_begin"), None)
        okc = False
        whyc = "no loop"
        if idx_loop is not None:
            pre = [e for e in ev[:idx_loop] if e["kind"] == "register_buffer" and e["name"] == "prev_output"]
            if pre:
                t = same_values(pre[-1]["tensor"])
                shape = t.args[1] if isinstance(t, Op) and t.op == "new_zeros" and len(t.args) > 1 else None
                okc = isinstance(shape, tuple) and len(shape) == 3 and shape[1] == 1 and shape[2] == 2 and isinstance(t.args[0], Sym) and t.args[0].name == "hA.spot"
                whyc = f"reset value {str(t)[:90]}"
            else:
                whyc = "prev_output is not reset before the loop"
        verdicts["c"].append((okc, whyc + tag))
        inloop = [e for e in ev[idx_loop:] if e["kind"] == "register_buffer" and e["name"] == "prev_output"] if idx_loop is not None else []
        calls = [e for e in ev[idx_loop:] if e["kind"] == "opaque_call" and isinstance(e["callee"], Sym) and e["callee"].name == "model"] if idx_loop is not None else []
        okd = len(inloop) == 1 and len(calls) == 1 and same_values(inloop[0]["tensor"]) == Op("call", (calls[0]["callee"],) + tuple(calls[0]["args"]), calls[0]["kwargs"])
        verdicts["d"].append((okd, tag))
        carried = ev[idx_loop].get("carried", []) if idx_loop is not None else []
        model_in = calls[0]["args"][0] if calls else None
        oke = any(k == "__buf_prev_output" for k, _ in carried) and model_in is not None and any(isinstance(s, Sym) and s.name.startswith("carried:__buf_prev_output") for s in walk(model_in))
        verdicts["e"].append((oke, tag))
    worst = lambda k_: next((v for v in verdicts[k_] if not v[0]), verdicts[k_][0])
    fact(run, prog, ch, "C03.R3c", "prev_output reset to zeros of shape (N, 1, H) from hedge[0].spot before the loop: " + worst("c")[1], worst("c")[0])
    fact(run, prog, ch, "C03.R3d", "inside the loop the model runs through self(input) so the hook stores its output" + worst("d")[1], worst("d")[0])
    fact(run, prog, ch, "C03.R3e", "the model input at step i contains the buffer written at step i-1" + worst("e")[1], worst("e")[0])
    # branch selection
    hv = W.hedger(prog, [W.feature("Moneyness", log=False)])
    resv = [r for r in interp.explore(ch, [W.option()], {}, self_obj=hv) if not r["raises"]]
    okf = len(resv) == 1 and not any(e["kind"] == "loop_begin" for e in resv[0]["events"]) and idx_loop is not None
    fact(run, prog, ch, "C03.R3f", "state-independent inputs take the vectorised branch, prev_hedge takes the loop", okf)
    # R2: same per-step input in both branches
    run.require("C03.R2", 1)
    vin = [e for e in resv[0]["events"] if e["kind"] == "opaque_call" and isinstance(e["callee"], Sym) and e["callee"].name == "model"]
    h1 = W.hedger(prog, [W.feature("Moneyness", log=False), W.feature("PrevHedge")])
    res1 = [r for r in interp.explore(ch, [W.option()], {}, self_obj=h1) if not r["raises"]][0]
    lin = [e for e in res1["events"] if e["kind"] == "opaque_call" and isinstance(e["callee"], Sym) and e["callee"].name == "model"]
    ok2 = len(vin) == 1 and len(lin) == 1
    run.oblige("C03.R2", "compute_hedge", ok2, "one model application per branch; per-step inputs agree by R1")
    # the model sees the features in DECLARED order in the step-by-step branch too (probe with the state-dependent feature first: a
    # "static features first" optimisation that reorders the columns is invisible when prev_hedge happens to be last)
    for order in (["PrevHedge", "Moneyness"], ["Moneyness", "PrevHedge"]):
        ho = W.hedger(prog, [W.feature(c, **({"log": False} if c == "Moneyness" else {})) for c in order])
        for rr in [r for r in interp.explore(ch, [W.option()], {}, self_obj=ho) if not r["raises"]]:
            mc = [e for e in rr["events"] if e["kind"] == "opaque_call" and isinstance(e["callee"], Sym) and e["callee"].name == "model"]
            arg = mc[0]["args"][0] if mc and mc[0]["args"] else None
            parts = list(arg.args[0]) if isinstance(arg, Op) and arg.op == "cat" and isinstance(arg.args[0], (list, tuple)) else None
            okord = parts is not None and len(parts) == 2
            if okord:
                is_prev = [any(isinstance(s_, Sym) and "prev_output" in s_.name for s_ in walk(p_)) for p_ in parts]
                okord = is_prev == [c == "PrevHedge" for c in order]
            run.oblige("C03.R2", f"compute_hedge[{' , '.join(order)}]: the model input is cat of the features in declared order", okord, str(arg)[:120])
            if not okord:
                run.fail(Finding("C03.R2", ch.qualname, f"inputs {order}: model input {str(arg)[:160]}", "the step-by-step branch feeds the model the features in another order than declared (and than the all-at-once branch)",
                                 file=str(prog.modules[ch.module].path), line=ch.node.lineno, case=",".join(order)))
    # ... and the same final column: both branches report, at the last time index, the position held over the last step (column T-2),
    # so the all-steps-at-once and the step-by-step hedge agree in every column
    from .c02 import last_column_is_copy
    for bname, rr in (("vectorised", resv[0]), ("state-dependent", res1)):
        okl, why = last_column_is_copy(rr["value"], bname, [e for e in rr["events"] if e["kind"] == "loop_begin"])
        run.oblige("C03.R2", f"compute_hedge[{bname}]: column T-1 is the position of step T-2", okl, why)
        if not okl:
            run.fail(Finding("C03.R2", ch.qualname, f"{bname} branch: {why}", "the two evaluation modes of the hedger disagree in the last column (one of them does not hold the last position)",
                             file=str(prog.modules[ch.module].path), line=ch.node.lineno, case=bname))
    # R4: both branches return one position per (path, instrument, time step)
    from ..shape import N as Nn, T as Tn, ShapeError, Unknown, shape_of
    Hs = sp.Symbol("H", integer=True, positive=True)

    def model_call(t, so):
        if isinstance(t.args[0], Sym) and t.args[0].name == "model":
            return so(t.args[1])[:-1] + (Hs,)
        return None

    run.require("C03.R4", 2)
    # both branches with the same two hedging instruments, so that sizes taken from the hedge list (len(hedge)) and sizes taken from the model
    # output are the same number H = 2
    Hs = sp.Integer(2)
    resv2 = [r for r in interp.explore(ch, [W.option()], {"hedge": hedge}, self_obj=hv) if not r["raises"]]
    if not resv2:
        raise AnalysisError("compute_hedge [vectorised, two hedges]: no non-raising path")
    for label, r in (("vectorised", resv2[0]), ("state-dependent", res[0])):
        env = {"deriv.ul.spot": (Nn, Tn), "hA.spot": (Nn, Tn), "hB.spot": (Nn, Tn), "__call__": model_call}
        for sy in walk(r["value"]):
            if isinstance(sy, Sym) and sy.name.startswith("carried:__buf_prev_output"):
                env[sy.name] = (Nn, sp.Integer(1), Hs)
        try:
            sh = shape_of(r["value"], env)
            ok4 = len(sh) == 3 and all(sp.simplify(u - v) == 0 for u, v in zip(sh, (Nn, Hs, Tn)))
            msg = f"shape {tuple(str(e) for e in sh)}"
        except ShapeError as ex:
            ok4, msg = False, str(ex)
        except Unknown as ex:
            raise AnalysisError(f"compute_hedge [{label}]: shape engine cannot model {ex}")
        for src_, tgt_ in env.get("__reshapes__", []):
            if ok4 and len(src_) == len(tgt_) and sorted(map(str, src_)) == sorted(map(str, tgt_)) and any(sp.simplify(u - v) != 0 for u, v in zip(src_, tgt_)):
                # reshape keeps the elements in memory order: viewing (N, T, H) as (N, H, T) gives the right extents and the wrong entries
                ok4, msg = False, f"reshape of {tuple(str(e) for e in src_)} to the permuted extents {tuple(str(e) for e in tgt_)} re-reads the memory row by row: the axes are not exchanged (transpose is)"
        run.oblige("C03.R4", f"compute_hedge [{label}] returns (N, H, T)", ok4, msg)
        if not ok4:
            run.fail(Finding("C03.R4", ch.qualname, f"[{label}] {msg}", "for a model mapping (N, T', F) to (N, T', H) the hedge must have shape (N, H, T) on both branches",
                             file=str(prog.modules[ch.module].path), line=ch.node.lineno, case=label))


def same_values(t):
    """strip value-preserving wrappers (whether the graph is kept is C14.R2's business): clone / contiguous / detach / same-dtype cast"""
    while isinstance(t, Op) and t.op in ("clone", "contiguous", "detach", "to", "view_as") and t.args and isinstance(t.args[0], (Op, Sym)):
        t = t.args[0]
    return t


def containers(ctx, run, rule="C03.R5"):
    """R5: FeatureList.get concatenates the per-feature tensors in declared order along the feature axis, for a step and for all steps;
    ModuleOutput.get applies its module to exactly that tensor"""
    from ..equiv import same
    prog, interp = ctx.prog, ctx.interp
    FL, MO = "pfhedge.features.container.FeatureList", "pfhedge.features.container.ModuleOutput"
    flget, moget = prog.lookup_method(FL, "get"), prog.lookup_method(MO, "get")
    if flget is None or moget is None:
        raise AnalysisError("anchor vanished: FeatureList.get / ModuleOutput.get")
    run.functions.update({flget.qualname, moget.qualname})
    run.require(rule, 4)
    d = W.option()
    fa, fb = W.feature("Moneyness", derivative=d, log=False), W.feature("TimeToMaturity", derivative=d)
    fl = Obj(FL, "inputs", {"features": [fa, fb]})
    for label, ts in (("step", W.integer("i")), ("batch", None)):
        parts = []
        for f in (fa, fb):
            r_ = [r for r in interp.explore(prog.lookup_method(f.cls, "get"), [ts], {}, self_obj=f) if not r["raises"]]
            parts.append(r_[0]["value"])
        res = [r for r in interp.explore(flget, [ts], {}, self_obj=fl) if not r["raises"]]
        v = res[0]["value"] if len(res) == 1 else None
        dim = v.kwd().get("dim", v.args[1] if isinstance(v, Op) and len(v.args) > 1 else None) if isinstance(v, Op) else None
        ok = isinstance(v, Op) and v.op == "cat" and isinstance(v.args[0], (list, tuple)) and len(v.args[0]) == 2 and dim == -1 and all(same(a, b) for a, b in zip(v.args[0], parts))
        run.oblige(rule, f"FeatureList.get [{label}] == cat([f.get(.) for f in features], dim=-1) in declared order", ok, str(v)[:160])
        if not ok:
            run.fail(Finding(rule, flget.qualname, f"[{label}] {str(v)[:200]}", "the model input is not the declared features, in order, along the last axis", file=str(prog.modules[flget.module].path), line=flget.node.lineno, case=label))
        mod = Sym("mod", ("callable",))
        mo = Obj(MO, "mo", {"inputs": fl, "module": mod})
        resm = [r for r in interp.explore(moget, [ts], {}, self_obj=mo) if not r["raises"]]
        vm = resm[0]["value"] if len(resm) == 1 else None
        okm = v is not None and isinstance(vm, Op) and vm.op == "call" and vm.args[0] == mod and len(vm.args) == 2 and not vm.kw and same(vm.args[1], v)
        run.oblige(rule, f"ModuleOutput.get [{label}] == module(inputs.get(.))", okm, str(vm)[:120])
        if not okm:
            run.fail(Finding(rule, moget.qualname, f"[{label}] {str(vm)[:200]}", "the module feature is not its module applied to its inputs at the same step", file=str(prog.modules[moget.module].path), line=moget.node.lineno, case=label))


def feature_shapes(ctx, run):
    """R6: every built-in feature returns (N, 1, 1) for a step and (N, T, 1) for all steps (so FeatureList.get can concatenate on the last axis)"""
    from ..shape import N as Nn, T as Tn, ShapeError, Unknown, shape_of
    prog, interp = ctx.prog, ctx.interp

    def pricer_call(t, so):
        if isinstance(t.args[0], Sym) and "pricer" in t.args[0].name:
            return (Nn, Tn)
        return None

    n = 0
    for label, mode, ts, make in E.feature_runs(ctx):
        f = make()
        get = prog.lookup_method(f.cls, "get")
        res = [r for r in interp.explore(get, [ts], {}, self_obj=f) if not r["raises"]]
        if len(res) != 1:
            continue
        env = {"__call__": pricer_call}
        for sy in walk(res[0]["value"]):
            if isinstance(sy, Sym) and "buffer" in sy.tags:
                env[sy.name] = (Nn, Tn)
        want = (Nn, sp.Integer(1), sp.Integer(1)) if mode == "step" else (Nn, Tn, sp.Integer(1))
        try:
            sh = shape_of(res[0]["value"], env)
            ok = len(sh) == 3 and all(sp.simplify(a - b) == 0 for a, b in zip(sh, want))
            msg = f"shape {tuple(str(e) for e in sh)}, expected {tuple(str(e) for e in want)}"
        except ShapeError as ex:
            ok, msg = False, str(ex)
        except Unknown as ex:
            run.notes.append(f"{label}.get({mode}): shape not modelled ({ex})")
            continue
        n += 1
        run.oblige("C03.R6", f"{label}.get({mode}) has shape {'(N, 1, 1)' if mode == 'step' else '(N, T, 1)'}", ok, msg)
        if not ok:
            run.fail(Finding("C03.R6", get.qualname, f"{label} ({mode}): {msg}", "the step and the all-steps form of a feature must be (N, 1, 1) and (N, T, 1)", file=str(prog.modules[get.module].path), line=get.node.lineno, case=f"{label},{mode}"))
    if n < 30:
        raise AnalysisError(f"feature shape rule covered only {n} feature/mode pairs")


_check_core = check


def working_precision(ctx, run):
    """R1p: both branches of a feature compute in the dtype of the instrument's data.  A branch that does its arithmetic in an
    unrelated float dtype (an integer grid times a Python float is a default-dtype tensor) and converts the result afterwards agrees
    with the other branch only to float32 accuracy when the instruments are float64."""
    from ..dtypes import Provenance
    prog, interp = ctx.prog, ctx.interp
    run.require("C03.R1p", 30)
    for label, mode, ts, make in E.feature_runs(ctx):
        f = make()
        get = prog.lookup_method(f.cls, "get")
        res = [r for r in interp.explore(get, [ts], {}, self_obj=f) if not r["raises"]]
        if not res:
            raise AnalysisError(f"{get.qualname} ({mode}): no analysable path")
        for r in res:
            pv = Provenance()
            pv.of(r["value"])
            bad = [f"{str(t.args[0])[:120]} is computed in the {'default' if v == 'default' else 'a fixed'} float dtype and converted afterwards" for t, v in pv.narrowed]
            run.oblige("C03.R1p", f"{label}.get({mode}) computes in the dtype of the data", not bad, "; ".join(bad) or "no arithmetic outside the data's dtype")
            if bad:
                run.fail(Finding("C03.R1p", get.qualname, f"{label} {mode}: {bad[0]}",
                                 "this branch is only float32-accurate for float64 instruments while the other branch computes in float64: the two disagree at working precision",
                                 file=str(prog.modules[get.module].path), line=get.node.lineno, case=mode))


def check(ctx, run):  # noqa: F811
    # R1h: both branches read the current paths - nothing computed from an earlier simulation survives a new one (call histories)
    from ..registry import resimulation_rule
    resimulation_rule(ctx, run, "C03.R1h", only=("resim-state",))
    _check_core(ctx, run)
    containers(ctx, run)
    feature_shapes(ctx, run)
    working_precision(ctx, run)


def fact(run, prog, fi, rule, text, ok):
    run.oblige("C03.R3", rule + ": " + text, ok, text, sample={"rule": rule, "fact": text, "holds": bool(ok)})
    if not ok:
        run.fail(Finding(rule, fi.qualname, text, "prev-hedge chain fact does not hold", file=str(prog.modules[fi.module].path), line=fi.node.lineno))


def mark_opaque(t):
    """results of the pricer are market series for the column algebra"""
    from ..term import subst
    rep = {}
    for s in walk(t):
        if isinstance(s, Op) and s.op == "call" and isinstance(s.args[0], Sym):
            rep[s] = Sym(s.args[0].name + "()", ("tensor", "buffer"))
    return subst(t, rep) if rep else t


_check_before_r2m = check


def check(ctx, run):  # noqa: F811
    _check_before_r2m(ctx, run)
    # R2m: the built-in models are pointwise in time (no operator along the time or path axis): otherwise the all-steps evaluation, which
    # hands them (N, T, F), and the step-by-step evaluation, which hands them (N, 1, F), cannot agree
    from .c02 import models_pointwise_in_time
    models_pointwise_in_time(ctx, run, rule="C03.R2m", causal_ok=False)
    # R3h: the previous hedge a model sees is its own hedger's: hedger-level call histories (one hedger, two derivatives; two hedgers sharing
    # their feature objects, bare and inside a ModuleOutput)
    from ..registry import hedger_histories_rule
    hedger_histories_rule(ctx, run, "C03.R3h")
