"""C11 - simulated buffers are well-formed for every generator and instrument.
R1 outputs have (n_paths, n_steps) columns; R2 column 0 is the requested initial state; R3 dtype/device provenance of every factory
in pfhedge.stochastic and of cast_state; R4 exponential-type prices are init*exp(.), volatility = sqrt(clamp(variance,0));
R5 simulate() registers every field of one generator call; R6 every generator terminates; R7 no uninitialised column of a torch.empty
output; R8 the quadratic-exponential variance step maps V >= 0 to V >= 0 (inductive sign certificate; Heston variance = that series).
Third round: R10 buffer-registry histories of the primaries (last registration wins, one buffer per name, simulate replaces, re-configuration), the antithetic engine returns N rows.
Rounds 4-5: R3e the library's own engines honour the dtype request (the requested dtype, else the global default).
Round 7: R5 one call into the generator package per simulation, from simulate or a hook of it.
Round 7: R2i a given init_state reaches the generator as given on every path of every instrument's simulate (tuple and scalar form)."""
import ast

import sympy as sp

from .. import entrypoints as E
from .. import termination as TM
from .. import world as W
from ..algebra import ToSympy
from ..factories import census
from ..interp import Obj, Unsupported
from ..primaries import primary_classes, simulate_facts
from ..equiv import same
from ..report import AnalysisError, Finding, single
from ..rules.c10 import outputs_of
from ..term import Op, Sym, Term, is_num, walk

S = E.S
EXP_TYPE = {S + "brownian.generate_geometric_brownian": [0], S + "heston.generate_heston": [0], S + "merton_jump.generate_merton_jump": [0],
            S + "kou_jump.generate_kou_jump": [0], S + "rough_bergomi.generate_rough_bergomi": [0]}
INIT = {S + "brownian.generate_brownian": ["x0"], S + "brownian.generate_geometric_brownian": ["S0"], S + "vasicek.generate_vasicek": ["x0"], S + "cir.generate_cir": ["v0"],
        S + "heston.generate_heston": ["S0", "v0"], S + "merton_jump.generate_merton_jump": ["S0"], S + "kou_jump.generate_kou_jump": ["S0"],
        S + "local_volatility.generate_local_volatility_process": ["S0", None], S + "rough_bergomi.generate_rough_bergomi": ["S0", None]}
BUFFERS = {"BrownianStock": ["spot"], "CIRRate": ["spot"], "HestonStock": ["spot", "variance"], "KouJumpStock": ["spot"], "LocalVolatilityStock": ["spot", "volatility"],
           "MertonJumpStock": ["spot"], "RoughBergomiStock": ["spot", "variance"], "VasicekRate": ["spot"]}


INIT_FACTOR = {(S + "rough_bergomi.generate_rough_bergomi", 1): "v0"}


def mul_factors(t):
    """multiplicative factors of a term, through mul and casts"""
    while isinstance(t, Op) and t.op in ("to", "as_tensor", "float", "double") and t.args:
        t = t.args[0]
    if isinstance(t, Op) and t.op == "mul":
        return mul_factors(t.args[0]) + mul_factors(t.args[1])
    return [t]


class Col0:
    """value of time column 0 of a generator output (None = not derivable)"""

    def __init__(self):
        self.ts = ToSympy()

    def c0(self, t):
        if is_num(t):
            return sp.nsimplify(t)
        if isinstance(t, Sym):
            return self.ts.sym(t.name)
        if not isinstance(t, Op):
            return None
        op, a = t.op, t.args
        if op in ("to", "unsqueeze", "expand", "view", "as_tensor", "squeeze"):
            return self.c0(a[0])
        if op == "arange":
            return sp.Integer(0)
        if op in ("cumsum", "cumprod"):
            return self.c0(a[0])
        if op == "setitem":
            idx = a[1]
            last = idx[-1] if isinstance(idx, tuple) else idx
            if last == 0:
                return self.c0(a[2])
            return self.c0(a[0])
        if op == "loop":
            return self.c0(a[2])
        if op == "cat":
            seq = a[0]
            return self.c0(seq[0]) if isinstance(seq, (list, tuple)) and seq else None
        if op in ("zeros", "zeros_like", "new_zeros"):
            return sp.Integer(0)
        if op in ("ones", "ones_like"):
            return sp.Integer(1)
        if op == "index":
            idx = a[1]
            last = idx[-1] if isinstance(idx, tuple) else idx
            if last is Ellipsis or (isinstance(last, slice) and last.start in (None, 0)):
                return self.c0(a[0])
            return None
        if op in ("add", "sub", "mul", "div", "pow"):
            x, y = self.c0(a[0]), self.c0(a[1])
            if x is None or y is None:
                return None
            return {"add": x + y, "sub": x - y, "mul": x * y, "div": x / y, "pow": x ** y}[op]
        if op == "neg":
            x = self.c0(a[0])
            return None if x is None else -x
        if op in ("exp", "sqrt", "log", "square"):
            x = self.c0(a[0])
            if x is None:
                return None
            return {"exp": sp.exp(x), "sqrt": sp.sqrt(x), "log": sp.log(x), "square": x ** 2}[op]
        if op in ("new_tensor",):
            return self.c0(a[1])
        if op in ("py_sqrt", "py_exp"):
            x = self.c0(a[0])
            return None if x is None else (sp.sqrt(x) if op == "py_sqrt" else sp.exp(x))
        return None


from ..shape import N as Nsym, T as Tn, ShapeError, Unknown, shape_of


def covered_columns(o):
    """for an output built as  empty(N, T) [; out[:, 0] = x] ; for e in range(n): out[:, e + c] = ...  decide whether columns 0..T-1 are all written.
    None when the output is not an uninitialised allocation filled by a loop."""
    while isinstance(o, Op) and o.op in ("to",):
        o = o.args[0]
    if not (isinstance(o, Op) and o.op == "loop"):
        return None
    elem, desc, init, carried, upd = o.args
    col0 = False
    base = init
    if isinstance(base, Op) and base.op == "setitem" and isinstance(base.args[1], tuple) and base.args[1][-1] == 0:
        col0, base = True, base.args[0]
    if not (isinstance(base, Op) and base.op in ("empty", "empty_like")):
        return None
    if not (isinstance(desc, tuple) and desc[0] == "range" and len(desc) == 2):
        return None
    from ..shape import dim_expr
    try:
        n = dim_expr(desc[1])
    except Unknown:
        return None
    if not (isinstance(upd, Op) and upd.op == "setitem" and upd.args[0] == carried and isinstance(upd.args[1], tuple)):
        return (col0 and False, "the loop does not write a column of the output")
    idx = upd.args[1][-1]
    c = 0 if idx == elem else idx.args[1] if (isinstance(idx, Op) and idx.op == "add" and idx.args[0] == elem and isinstance(idx.args[1], int)) else None
    if c is None:
        return None
    first, last = c, n - 1 + c
    ok_first = c <= 0 or (c == 1 and col0)
    gap = sp.simplify(last - (Tn - 1))
    ok_last = gap.is_nonnegative is True or gap == 0
    return (bool(ok_first and ok_last), f"columns written: {'0, ' if col0 else ''}{first}..{last} of 0..T-1")


def check(ctx, run):
    prog, interp = ctx.prog, ctx.interp
    run.trusted += ["shape semantics of the factories and of cat/cumsum (operator table)"]
    run.assumptions += ["initial states are positive for price processes", "engine(*size) returns a tensor of that size"]
    results = {}
    for q, fi, kw in E.generator_runs(ctx):
        run.functions.add(q)
        try:
            results[q] = [r for r in interp.explore(fi, [], kw, max_paths=200) if not r["raises"] and not any(e["kind"] == "recursion" for e in r["events"])]
        except Unsupported as ex:
            raise AnalysisError(f"{q}: {ex}")
    growth_rule(ctx, run, results)
    run.require("C11.R1", 9)
    run.require("C11.R2", 9)
    run.require("C11.R7", 4)
    run.require("C11.R8", 1)
    # the Heston variance IS the CIR series (same generator, called once), so it inherits the certificate; the rough-Bergomi variance is
    # init * exp(.) (R4)
    hres = results.get(S + "heston.generate_heston", [])
    cir_calls = [e for r_ in hres for e in r_["events"] if e["kind"] == "call" and e["callee"] == S + "cir.generate_cir"]
    okh = bool(hres) and all(len([e for e in r_["events"] if e["kind"] == "call" and e["callee"] == S + "cir.generate_cir"]) == 1 for r_ in hres)
    run.oblige("C11.R8", "generate_heston: the variance output is one generate_cir series", okh, f"{len(cir_calls)} call(s)")
    if not okh:
        fi_h = prog.functions[S + "heston.generate_heston"]
        run.fail(Finding("C11.R8", fi_h.qualname, "variance is not produced by exactly one generate_cir call", "the Heston variance must be the quadratic-exponential CIR series (non-negative by C11.R8)",
                         file=str(prog.modules[fi_h.module].path), line=fi_h.node.lineno))
    from .c10 import cir_variance_nonnegative
    cir_variance_nonnegative(ctx, run, [r for r in interp.explore(prog.functions[S + "cir.generate_cir"], [], dict(E.GEN_KW, **{k: v for k, v in E.GENERATORS[S + "cir.generate_cir"].items()}), max_paths=200)], "C11.R8")
    for q, res in results.items():
        fi = prog.functions[q]
        short = q.rsplit(".", 1)[-1]
        if not res:
            raise AnalysisError(f"{short}: no analysable path")
        bad_cols, bad_c0 = [], []
        for r in res:
            outs = outputs_of(r["value"])
            for k, (o, iname) in enumerate(zip(outs, INIT[q])):
                sh = None
                try:
                    sh = shape_of(o)
                except Unknown as ex:
                    raise AnalysisError(f"{short}: shape of output {k} cannot be determined ({ex})")
                except ShapeError as ex:
                    bad_cols.append(f"output {k}: {ex}")
                    continue
                if sh is not None and (len(sh) != 2 or sp.simplify(sh[0] - Nsym) != 0 or sp.simplify(sh[1] - Tn) != 0):
                    bad_cols.append(f"output {k}: shape {tuple(str(e) for e in sh)} instead of (n_paths, n_steps)")
                if iname is None and (q, k) in INIT_FACTOR:
                    # column 0 is not derivable (kernel convolution); the necessary part is: the series is the requested initial
                    # component times something that does not depend on the initial state
                    want = INIT_FACTOR[(q, k)]
                    facs = mul_factors(o)
                    hits = [f for f in facs if isinstance(f, Sym) and f.name == want]
                    elsewhere = sum(1 for f in facs if not (isinstance(f, Sym) and f.name == want) for s_ in walk(f) if isinstance(s_, Sym) and s_.name == want) if facs else 0
                    if len(hits) != 1 or elsewhere:
                        bad_c0.append(f"output {k}: not proportional to the requested initial value {want} (factors through {want}: {len(hits)}, other uses: {elsewhere})")
                if iname is not None:
                    c = Col0()
                    v0 = c.c0(o)
                    if v0 is None or sp.simplify(v0 - c.ts.sym(iname)) != 0:
                        bad_c0.append(f"output {k}: column 0 is {v0}, expected {iname}")
        run.oblige("C11.R1", short, not bad_cols, "; ".join(sorted(set(bad_cols))) or "n_steps columns")
        if bad_cols:
            run.fail(Finding("C11.R1", q, "; ".join(sorted(set(bad_cols))), "the generator does not return n_steps time points", file=str(prog.modules[fi.module].path), line=fi.node.lineno))
        # R7: an output allocated with torch.empty has every column written before it is returned
        n_out = max((len(outputs_of(r["value"])) for r in res), default=0)
        for k in range(n_out):
            verdicts = [covered_columns(outputs_of(r["value"])[k]) for r in res if len(outputs_of(r["value"])) > k]
            verdicts = [v for v in verdicts if v is not None]
            if not verdicts:
                continue
            okw = any(v[0] for v in verdicts)
            run.oblige("C11.R7", f"{short}: output {k} has no uninitialised column", okw, verdicts[0][1])
            if not okw:
                run.fail(Finding("C11.R7", q, f"output {k}: {verdicts[0][1]}", "a column of a torch.empty allocation is returned without ever being written", file=str(prog.modules[fi.module].path), line=fi.node.lineno))
        run.oblige("C11.R2", short, not bad_c0, "; ".join(sorted(set(bad_c0))) or "column 0 = initial state", sample={"rule": "C11.R2", "generator": short, "problems": sorted(set(bad_c0))})
        if bad_c0:
            run.fail(Finding("C11.R2", q, "; ".join(sorted(set(bad_c0))), "the first column is not the requested initial state", file=str(prog.modules[fi.module].path), line=fi.node.lineno))
    # ---- R2 (bare scalar): the one-component generators document `init_state` as "tuple, float or tensor": a bare float x0 - including a
    # falsy one such as 0.0 - must arrive in column 0 on every path (a truthiness test on the state swaps 0.0 for the default)
    run.require("C11.R2s", 5)
    for q, fi_, kw_ in E.generator_runs(ctx):
        st = kw_.get("init_state")
        if not (isinstance(st, tuple) and len(st) == 1):
            continue
        short = q.rsplit(".", 1)[-1]
        kw2 = dict(kw_, init_state=st[0])
        try:
            res2 = [r for r in interp.explore(fi_, [], kw2, max_paths=200) if not r["raises"] and not any(e["kind"] == "recursion" for e in r["events"])]
        except Unsupported as ex:
            raise AnalysisError(f"{short} with a bare scalar initial state: {ex}")
        bad = []
        if not res2:
            bad.append("no path accepts a bare float initial state")
        for r in res2:
            o = outputs_of(r["value"])[0]
            c = Col0()
            v0 = c.c0(o)
            if v0 is None or sp.simplify(v0 - c.ts.sym(INIT[q][0])) != 0:
                conds = ", ".join(f"{str(c_)[:40]}={d_}" for c_, d_, _ in r["cond"])
                bad.append(f"column 0 is {v0} on the path [{conds}]")
        run.oblige("C11.R2s", f"{short}(init_state=<bare float>)", not bad, "; ".join(sorted(set(bad))) or "column 0 = the requested value on every path")
        if bad:
            run.fail(Finding("C11.R2s", q, "; ".join(sorted(set(bad)))[:300], "a requested initial state given as a bare number is not what the series starts from (e.g. 0.0 replaced by the default)",
                             file=str(prog.modules[fi_.module].path), line=fi_.node.lineno))
    # ---- R3 dtype provenance of every output (term-level: torch's promotion rules over the output term)
    from ..dtypes import DATA, provenance
    n_out = 0
    for q, res in results.items():
        fi = prog.functions[q]
        short = q.rsplit(".", 1)[-1]
        for r in res:
            for k, o in enumerate(outputs_of(r["value"])):
                v, leaves = provenance(o)
                n_out += 1
                ok = v == DATA
                why = "; ".join(f"{w}: {str(t)[:70]}" for t, w in leaves[:2]) or f"provenance {v}"
                run.oblige("C11.R3", f"{short}: output {k} is produced in the requested dtype", ok, "every factory carries dtype= or is cast before it meets the data" if ok else why)
                if not ok:
                    run.fail(Finding("C11.R3", q, f"output {k}: {why}"[:300], "a tensor created in the global default dtype reaches the simulated series without a cast, so the series is not in the requested dtype",
                                     file=str(prog.modules[fi.module].path), line=fi.node.lineno))
    if n_out < 12:
        raise AnalysisError(f"dtype provenance covered only {n_out} generator outputs")
    n_sites = sum(1 for _ in census(prog, ("pfhedge.stochastic",)))
    run.notes.append(f"factory / sampler call sites in pfhedge.stochastic (census, informational): {n_sites}")
    cs = prog.functions.get("pfhedge.stochastic._utils.cast_state")
    if cs is None:
        raise AnalysisError("anchor vanished: cast_state")
    res = [r for r in interp.explore(cs, [(W.fl("x0"), W.fl("x1"))], dict(dtype=Sym("dtype"), device=Sym("device"))) if not r["raises"]]

    def _cast_ok(v, name):
        if not (isinstance(v, Op) and v.op == "to" and v.args and v.args[0] == W.fl(name)):
            return False
        kw_ = v.kwd()
        rest = list(v.args[1:])
        return Sym("dtype") in rest + [kw_.get("dtype")] and Sym("device") in rest + [kw_.get("device")]

    ok = bool(res) and all(isinstance(r["value"], tuple) and len(r["value"]) == 2 and _cast_ok(r["value"][0], "x0") and _cast_ok(r["value"][1], "x1") for r in res)
    run.oblige("C11.R3", "cast_state casts every component to (device, dtype)", ok, str([str(r["value"]) for r in res])[:120])
    if not ok:
        run.fail(Finding("C11.R3", cs.qualname, str([str(r['value']) for r in res])[:160], "the initial state is not cast to the requested dtype/device", file=str(prog.modules[cs.module].path), line=cs.node.lineno))
    # ---- R4 positivity of exponential-type prices; volatility/variance relations
    run.require("C11.R4", 9)
    for q, idxs in EXP_TYPE.items():
        fi = prog.functions[q]
        for r in results[q]:
            o = outputs_of(r["value"])[0]
            ok = positive_times_init(o)
            run.oblige("C11.R4", q.rsplit(".", 1)[-1] + ": price = init * exp(.)", ok, str(o)[:80])
            if not ok:
                run.fail(Finding("C11.R4", q, str(o)[:160], "the price is not of the form init * exp(.), so positivity is not structural", file=str(prog.modules[fi.module].path), line=fi.node.lineno))
    _var, _spot, _sig = Sym("stock.variance", ("tensor", "buffer")), Sym("stock.spot", ("tensor", "buffer")), Sym("stock.sigma")
    _want_vol = Op("sqrt", (Op("relu", (_var,)),))
    for cls, want in (("pfhedge.instruments.primary.heston.HestonStock", _want_vol), ("pfhedge.instruments.primary.rough_bergomi.RoughBergomiStock", _want_vol)):
        fi = prog.lookup_method(cls, "volatility")
        vals = [r["value"] for r in interp.explore(fi, [], {}, self_obj=Obj(cls, "stock")) if not r["raises"]]
        if not vals:
            raise AnalysisError(f"{cls}.volatility: no analysable path")
        val = next((v_ for v_ in vals if not same(v_, want)), vals[0])  # every path (a memo hit is a path) must return the relation
        ok = all(same(v_, want) for v_ in vals)
        run.oblige("C11.R4", cls.rsplit(".", 1)[-1] + ".volatility == sqrt(clamp(variance, 0))", ok, str(val))
        if not ok:
            run.fail(Finding("C11.R4", fi.qualname, str(val), "volatility must be the square root of the non-negative part of the variance", file=str(prog.modules[fi.module].path), line=fi.node.lineno))
    # the same relations on the tuples returned by the generators
    for tq, prop_, field, want_fn in (("pfhedge.stochastic.heston.SpotVarianceTuple", "volatility", "variance", lambda x: Op("sqrt", (Op("relu", (x,)),))),
                                      ("pfhedge.stochastic.local_volatility.LocalVolatilityTuple", "variance", "volatility", lambda x: Op("square", (x,)))):
        fi = prog.lookup_method(tq, prop_)
        if fi is None:
            raise AnalysisError(f"anchor vanished: {tq}.{prop_}")
        x_ = Sym("tuple." + field, ("tensor",))
        res_ = [r for r in interp.explore(fi, [], {}, self_obj=Obj(tq, "tuple", {field: x_})) if not r["raises"]]
        ok = len(res_) == 1 and same(res_[0]["value"], want_fn(x_))
        run.oblige("C11.R4", f"{tq.rsplit('.', 1)[-1]}.{prop_} from {field}", ok, str(res_[0]["value"]) if res_ else "no path")
        if not ok:
            run.fail(Finding("C11.R4", fi.qualname, str(res_[0]["value"]) if res_ else "no path", f"{prop_} must be {'the square root of the non-negative part of' if prop_ == 'volatility' else 'the square of'} {field}",
                             file=str(prog.modules[fi.module].path), line=fi.node.lineno))
    PR = "pfhedge.instruments.primary."
    for cls in (PR + "brownian.BrownianStock", PR + "merton_jump.MertonJumpStock", PR + "kou_jump.KouJumpStock"):
        vol = prog.lookup_method(cls, "volatility")
        var = prog.lookup_method(cls, "variance")
        if vol is None or var is None:
            raise AnalysisError(f"anchor vanished: {cls}.volatility/variance")
        v1 = single(interp.explore(vol, [], {}, self_obj=Obj(cls, "stock")))["value"]
        v2 = single(interp.explore(var, [], {}, self_obj=Obj(cls, "stock")))["value"]
        ok = same(v1, Op("full_like", (_spot, _sig))) and same(v2, Op("full_like", (_spot, Op("square", (_sig,)))))
        run.oblige("C11.R4", cls.rsplit(".", 1)[-1] + ": volatility = sigma, variance = sigma^2 (constant series shaped like spot)", ok, f"{v1} ; {v2}")
        if not ok:
            run.fail(Finding("C11.R4", var.qualname, f"volatility {v1}; variance {v2}", "volatility must be the square root of variance", file=str(prog.modules[var.module].path), line=var.node.lineno))
    cls = PR + "local_volatility.LocalVolatilityStock"
    var = prog.lookup_method(cls, "variance")
    v2 = single(interp.explore(var, [], {}, self_obj=Obj(cls, "stock")))["value"]
    ok = same(v2, Op("square", (Sym("stock.volatility", ("tensor", "buffer")),)))
    run.oblige("C11.R4", "LocalVolatilityStock.variance == volatility^2", ok, str(v2))
    if not ok:
        run.fail(Finding("C11.R4", var.qualname, str(v2), "variance must be the square of the volatility buffer", file=str(prog.modules[var.module].path), line=var.node.lineno))
    # ---- R5 simulate registers every field
    run.require("C11.R5", 8)
    for cls in primary_classes(prog):
        short = cls.rsplit(".", 1)[-1]
        sim, facts = simulate_facts(ctx, cls, False)
        want = BUFFERS.get(short)
        if want is None:
            raise AnalysisError(f"new primary instrument {short}: add its buffers to the table")
        ok = bool(facts)
        for f in facts:
            names = [e["name"] for e in f["regs"]]
            gens = [e for e in f["path"]["events"] if e["kind"] == "call" and ".stochastic." in e["callee"] and ".stochastic." not in e["fn"]]   # calls INTO the generator package, from simulate or a hook of it
            ok = ok and names == want and len(gens) == 1
        run.oblige("C11.R5", f"{short}.simulate registers {want} from one generator call", ok, "")
        if not ok:
            run.fail(Finding("C11.R5", sim.qualname, f"registers {[[e['name'] for e in f['regs']] for f in facts]}", f"simulate must register {want} on every path from a single generator call", file=str(prog.modules[sim.module].path), line=sim.node.lineno))
    # ---- R6
    for fi in TM.self_recursive_functions(prog):
        if fi.qualname in E.GENERATORS:
            TM.check_recursion(ctx, run, "C11.R6", fi, dict(E.GEN_KW, **E.GENERATORS[fi.qualname]))


def positive_times_init(t):
    """t == cast(init) * exp(...) [* products/cumprods of exp]"""
    def pos(x):
        if isinstance(x, Op):
            if x.op in ("exp",):
                return True
            if x.op in ("cumprod", "prod", "to", "unsqueeze", "view"):
                return pos(x.args[0])
            if x.op == "cat":
                return all(pos(y) for y in x.args[0])
            if x.op in ("ones", "ones_like"):
                return True
            if x.op == "mul":
                return all(pos(y) for y in x.args)
            if x.op == "setitem":
                return pos(x.args[0]) and (x.args[2] == 1.0 or pos(x.args[2]))
        return False

    def is_init(x):
        while isinstance(x, Op) and x.op in ("to", "view", "unsqueeze"):
            x = x.args[0]
        return isinstance(x, Sym) and x.name in ("S0",)

    if isinstance(t, Op) and t.op == "exp":
        return True  # exp(log-price) is positive whatever the initial state
    if isinstance(t, Op) and t.op == "mul":
        flat = []
        def fl(x):
            if isinstance(x, Op) and x.op == "mul":
                fl(x.args[0]); fl(x.args[1])
            else:
                flat.append(x)
        fl(t)
        inits = [x for x in flat if is_init(x)]
        rest = [x for x in flat if not is_init(x)]
        return len(inits) == 1 and all(pos(x) for x in rest)
    return False


def growth_rule(ctx, run, results):
    """R9 (finiteness, the structural part): no intermediate factor of a generator grows exponentially with the step index at a rate that is
    positive for every admissible parameter (exp(+kappa*dt*k), or a division by exp(-kappa*dt*k)): multiplied by its decaying counterpart the
    result is mathematically fine but overflows to inf/NaN once rate * n_steps passes ~88 (float32).  Rates are read off the term: exp(c*k + ..)
    has rate c, products add, quotients subtract, sums and cumulative sums keep the largest; a rate whose sign depends on a free parameter
    (the drift mu) is not reported."""
    prog = ctx.prog
    k = sp.Symbol("k_step", integer=True, nonnegative=True)
    pos = {n: sp.Symbol(n, positive=True) for n in ("kappa", "dt", "sigma", "theta", "xi", "eta", "lam", "ju", "jd", "js", "T", "N")}

    def scal(t):
        """sympy value of a step-affine scalar term (k for the time index), or None"""
        if is_num(t):
            return sp.nsimplify(t)
        if isinstance(t, Sym):
            return pos.get(t.name, sp.Symbol(t.name, real=True))
        if isinstance(t, Op):
            if t.op == "arange":
                return k
            if t.op in ("to", "as_tensor", "index", "unsqueeze", "float", "double", "expand", "view") and t.args:
                return scal(t.args[0])
            if t.op in ("add", "sub", "mul", "div") and len(t.args) == 2:
                a, b = scal(t.args[0]), scal(t.args[1])
                if a is None or b is None:
                    return None
                return {"add": a + b, "sub": a - b, "mul": a * b, "div": a / b}[t.op]
            if t.op == "neg":
                a = scal(t.args[0])
                return None if a is None else -a
            if t.op == "square":
                a = scal(t.args[0])
                return None if a is None else a ** 2
            if t.op == "sqrt":
                a = scal(t.args[0])
                return None if a is None else sp.sqrt(a)
        return None

    memo = {}

    def rate(t):
        """log-growth rate per step of |t| as a sympy expression (0 = bounded / stochastic of bounded scale), None = unknown"""
        if id(t) in memo:
            return memo[id(t)]
        r = sp.Integer(0)
        if isinstance(t, Op):
            if t.op == "exp":
                a = scal(t.args[0])
                r = sp.diff(a, k) if a is not None and sp.diff(a, k, 2) == 0 else sp.Integer(0)
            elif t.op == "mul":
                ra, rb = rate(t.args[0]), rate(t.args[1])
                r = ra + rb
            elif t.op == "div":
                r = rate(t.args[0]) - rate(t.args[1])
            elif t.op in ("add", "sub", "cat", "stack", "where", "cumsum", "setitem", "maximum", "minimum"):
                rs = [rate(x) for x in walk_children(t)]
                r = next((x for x in rs if x.is_positive), next((x for x in rs if x != 0), sp.Integer(0)))
            elif t.args and isinstance(t.args[0], (Op, Sym)):
                r = rate(t.args[0])
        memo[id(t)] = r
        return r

    def walk_children(t):
        for a in t.args:
            if isinstance(a, (Op, Sym)):
                yield a
            elif isinstance(a, (list, tuple)):
                for x in a:
                    if isinstance(x, (Op, Sym)):
                        yield x

    run.require("C11.R9", 9)
    for q, res in results.items():
        fi = prog.functions[q]
        short = q.rsplit(".", 1)[-1]
        bad = []
        for r_ in res:
            for o in outputs_of(r_["value"]):
                for s_ in walk(o):
                    if isinstance(s_, Op) and s_.op in ("exp", "div", "mul"):
                        rt = rate(s_)
                        if rt != 0 and rt.is_positive:
                            bad.append(f"{s_.op}(...) grows like exp({sp.simplify(rt)} * step)")
        bad = sorted(set(bad))
        run.oblige("C11.R9", f"{short}: no factor with a positive exponential growth rate in the step index", not bad, "; ".join(bad[:3]))
        if bad:
            run.fail(Finding("C11.R9", q, "; ".join(bad[:3])[:300], "an exponentially growing intermediate factor overflows for long horizons / fast mean reversion, and the series becomes inf or NaN from that step on",
                             file=str(prog.modules[fi.module].path), line=fi.node.lineno))


_check_before_histories = check


def check(ctx, run):  # noqa: F811
    """R10: after simulate() the registered buffers are those of the last simulation, one per name (call histories, pfsa/registry.py)"""
    _check_before_histories(ctx, run)
    # R2i: at the instrument level "the first column equals the requested initial state" needs the request to reach the generator as given
    # on every path of simulate (a truthiness test `init_state or default` replaces a start at zero by the default)
    from ..primaries import init_forwarding_rule
    init_forwarding_rule(ctx, run, "C11.R2i")
    from ..registry import primary_histories_rule
    primary_histories_rule(ctx, run, "C11.R10")
    # the library's own engine returns the requested number of paths (the generators assume engine(*size) has that size)
    from .c10 import antithetic_rule
    antithetic_rule(ctx, run, "C11.R10")
    from ..registry import reconfigure_rule
    reconfigure_rule(ctx, run, "C11.R10")
    # R3e: the library's own engines honour the dtype request like torch.randn does: the requested dtype when one is given, the global default
    # when none is (never a dtype fixed inside the engine)
    from ..dtypes import DATA, DEFAULT, provenance
    from ..interp import Obj
    from ..term import Sym
    prog, interp = ctx.prog, ctx.interp
    N_, T_ = W.integer("N"), W.integer("T")
    eng_cases = []
    for fn in ("pfhedge.stochastic.random.randn_antithetic", "pfhedge.stochastic.random.randn_sobol_boxmuller"):
        fi = prog.functions.get(fn)
        if fi is None:
            raise AnalysisError(f"anchor vanished: {fn}")
        eng_cases.append((fn.rsplit(".", 1)[-1], fi, None))
    ecls = "pfhedge.stochastic.engine.RandnSobolBoxMuller"
    call = prog.lookup_method(ecls, "__call__")
    if call is None:
        raise AnalysisError("anchor vanished: RandnSobolBoxMuller.__call__")
    eng_cases.append(("RandnSobolBoxMuller()", call, Obj(ecls, "engine", {"scramble": Sym("scramble", ("bool",)), "seed": Sym("seed")})))
    run.require("C11.R3e", 6)
    for label, fi, o in eng_cases:
        for given, dt in (("a requested dtype", Sym("dtype")), ("no dtype request", None)):
            try:
                res = [r for r in interp.explore(fi, [N_, T_], dict(dtype=dt, device=Sym("device")), self_obj=o, max_paths=40) if not r["raises"]]
            except Unsupported as ex:
                raise AnalysisError(f"{label}: {ex}")
            if not res:
                raise AnalysisError(f"{label} ({given}): no analysable path")
            bad = []
            for r in res:
                v, leaves = provenance(r["value"])
                want = (DATA,) if dt is not None else (DEFAULT, DATA)
                if v not in want:
                    bad.append(f"produced in a {v} dtype ({'; '.join(sorted({w_ for _, w_ in leaves}))[:120]})")
            bad = sorted(set(bad))
            run.oblige("C11.R3e", f"{label} with {given}", not bad, "; ".join(bad) or ("the requested dtype" if dt is not None else "the global default dtype"))
            if bad:
                run.fail(Finding("C11.R3e", fi.qualname, f"{label} with {given}: " + "; ".join(bad)[:260], "the engine does not return the dtype torch.randn would return for the same request: "
                                 "the series built from it is not in the requested (or default) dtype", file=str(prog.modules[fi.module].path), line=fi.node.lineno, case=given))
