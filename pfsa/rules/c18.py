"""C18 - Black-Scholes functions are total at maturity and at zero volatility.
R1 extended-real evaluation of every price and closed-form delta at the boundary cases (t=0 / v=0) x sign of the log-moneyness
x position of the running maximum: no NaN, value = the payoff that is then certain; R2 every bs_* function reaches the
non-negativity guards of d1/d2 with its own (t, v); R3 interior cases are NaN-free (what the hedger evaluates before maturity).
Added after the seeded-defect rounds: R1h exact limits of npdf/ncdf at +-inf from their own bodies; R3 Whalley-Wilmott width for negative gamma; R3w WhalleyWilmott(EuropeanOption).forward end to end at zero volatility before maturity.
Rounds 4-5: R3m the half-width the Whalley-Wilmott module itself computes, for any real gamma."""
import sympy as sp

from .. import bsterms as B
from ..extreal import AV, ExtReal, const, fin, zero
from ..interp import Unsupported
from ..report import AnalysisError, Finding

sS = sp.Symbol("s", real=True)
mS = sp.Symbol("m", real=True)
KS = sp.Symbol("K", positive=True)
tS = sp.Symbol("t", positive=True)
vS = sp.Symbol("v", positive=True)

BOUNDARY = [("t=0,v>0", zero(), fin(1, vS)), ("t>0,v=0", fin(1, tS), zero()), ("t=0,v=0", zero(), zero())]
INTERIOR = [("t>0,v>0", fin(1, tS), fin(1, vS))]
sN, sP = sp.Symbol("s", negative=True), sp.Symbol("s", positive=True)
mN, mP = sp.Symbol("m", negative=True), sp.Symbol("m", positive=True)
dN = sp.Symbol("d", negative=True)  # s - m when the spot is strictly below its running maximum
SIGNS = [("s<0", fin(-1, sN)), ("s=0", zero()), ("s>0", fin(1, sP))]


def cases(with_m, interior=False):
    for tvn, tv, vv in (INTERIOR if interior else BOUNDARY):
        if not with_m:
            for sn, sv in SIGNS:
                yield f"{tvn},{sn}", {"t": tv, "v": vv, "s": sv, "K": fin(1, KS)}, dict(s=sn, s_expr=sv.expr)
            continue
        # (sign of s, sign of m, relation): the running maximum is at least the current value
        combos = [
            ("s<0", "m<0", "s<m", mN + dN, mN, dN), ("s<0", "m<0", "s=m", mN, mN, 0),
            ("s<0", "m=0", "s<m", sN, 0, sN), ("s<0", "m>0", "s<m", sN, mP, sN - mP),
            ("s=0", "m=0", "s=m", 0, 0, 0), ("s=0", "m>0", "s<m", 0, mP, -mP),
            ("s>0", "m>0", "s<m", mP + dN, mP, dN), ("s>0", "m>0", "s=m", mP, mP, 0),
        ]
        for sn, mn, rn, se, me, de in combos:
            if (sn, mn, rn) == ("s>0", "m>0", "s<m"):
                # s = m + d must stay positive: use s as the free positive symbol and m = s - d
                se, me, de = sP, sP - dN, dN
            def av(e, sign):
                e = sp.sympify(e)
                return zero() if e == 0 else fin(sign, e)
            c = {"t": tv, "v": vv, "K": fin(1, KS), "s": av(se, -1 if sn == "s<0" else 1), "m": av(me, -1 if mn == "m<0" else 1)}
            c[("sub", "s", "m")] = av(de, -1)
            yield f"{tvn},{sn},{mn},{rn}", c, dict(s=sn, m=mn, s_expr=sp.sympify(se), m_expr=sp.sympify(me))


def expected(kind, flags, tag):
    s, m = tag.get("s"), tag.get("m")
    se, me = tag.get("s_expr"), tag.get("m_expr")
    call = flags.get("call", True)
    if kind == "european_price":
        if call:
            return KS * (sp.exp(se) - 1) if s == "s>0" else 0
        return KS * (1 - sp.exp(se)) if s == "s<0" else 0
    if kind == "european_delta":
        if s == "s=0":
            return None
        return (1 if s == "s>0" else 0) if call else (0 if s == "s>0" else -1)
    if kind == "european_binary_price":
        if s == "s=0":
            return None
        return (1 if s == "s>0" else 0) if call else (1 if s == "s<0" else 0)
    if kind == "european_binary_delta":
        return None if s == "s=0" else 0
    if kind == "american_binary_price":
        return 0 if m == "m<0" else 1
    if kind == "american_binary_delta":
        return None if (s == "s=0") else 0
    if kind == "lookback_price":
        return KS * (sp.exp(me) - 1) if m == "m>0" else 0
    return None


TARGETS = [
    ("european_price", dict(call=True), False), ("european_price", dict(call=False), False),
    ("european_delta", dict(call=True), False), ("european_delta", dict(call=False), False),
    ("european_binary_price", dict(call=True), False), ("european_binary_price", dict(call=False), False),
    ("european_binary_delta", dict(call=True), False), ("european_binary_delta", dict(call=False), False),
    ("american_binary_price", {}, True), ("american_binary_delta", {}, True), ("lookback_price", {}, True),
]
# gamma feeds the Whalley-Wilmott band before maturity: NaN-freedom on the interior only (the statement is about prices and deltas at the boundary)
INTERIOR_ONLY = {"european_gamma", "european_binary_gamma", "american_binary_gamma"}
TARGETS += [("european_gamma", dict(call=True), False), ("european_binary_gamma", dict(call=True), False), ("american_binary_gamma", {}, True)]
ALL20 = [f"bs_{fam}_{g}" for fam in ("european", "european_binary", "american_binary", "lookback") for g in ("price", "delta", "gamma", "vega", "theta")]


def check(ctx, run):
    prog, interp = ctx.prog, ctx.interp
    run.trusted += ["extended-real arithmetic of IEEE floats (0/0, 0*inf, inf-inf are NaN; x/0 = +-inf)", "torch.where selects, it does not propagate NaN from the other branch",
                    "ncdf(+-inf) = 1/0, npdf(+-inf) = 0"]
    run.require("C18.R1", 100)
    run.require("C18.R2", 16)
    grouped = {}
    for kind, flags, with_m in TARGETS:
        fname = "bs_" + kind
        term, _, res = B.extract(prog, interp, fname, None, **flags)
        run.functions.add(B.F + fname)
        fi = prog.functions[B.F + fname]
        flagtxt = ",".join(f"{k}={v}" for k, v in flags.items())
        for interior in ((True,) if kind in INTERIOR_ONLY else (False, True)):
            for label, case, tag in cases(with_m, interior):
                try:
                    val = ExtReal(case).ev(term)
                except (NotImplementedError, KeyError) as ex:
                    raise AnalysisError(f"{fname}: extended-real domain cannot model {ex}")
                rule = "C18.R3" if interior else "C18.R1"
                inst = f"{fname}[{flagtxt}] @ {label}"
                if val.kind == "nan":
                    run.oblige(rule, inst, False, f"NaN: {val.why}")
                    source = (val.why or "").split(":")[0]
                    grouped.setdefault((rule, fname, flagtxt, source), []).append(label)
                    continue
                ok = True
                detail = f"{val}"
                if not interior:
                    want = expected(kind, flags, tag)
                    if want is not None:
                        if val.kind == "inf" or val.expr is None:
                            ok = False
                            detail = f"value {val}, expected {want}"
                        else:
                            ok = sp.simplify(val.expr - want) == 0
                            detail = f"value {sp.simplify(val.expr)}, expected {want}"
                run.oblige(rule, inst, ok, detail, sample={"rule": rule, "function": fname, "case": label, "value": detail})
                if not ok:
                    run.fail(Finding(rule, B.F + fname, f"[{flagtxt}] case {label}: {detail}", "boundary value differs from the payoff that is certain at maturity / zero volatility",
                                     file=str(prog.modules[fi.module].path), line=fi.node.lineno, case=label))
    for (rule, fname, flagtxt, source), labels in grouped.items():
        fi = prog.functions[B.F + fname]
        run.fail(Finding(rule, B.F + fname, f"[{flagtxt}] {source} at zero time to maturity / zero volatility",
                         f"evaluates to NaN in {len(labels)} boundary case(s): " + "; ".join(labels[:6]) + (" ..." if len(labels) > 6 else ""),
                         file=str(prog.modules[fi.module].path), line=fi.node.lineno, case=labels[0]))
    # ---- R2: validation guards of d1/d2 are reached with the function's own t and v
    for fname in ALL20:
        fi = prog.functions.get(B.F + fname)
        if fi is None:
            raise AnalysisError(f"anchor vanished: {B.F + fname}")
        params = [a.arg for a in fi.node.args.args]
        if fname.startswith("bs_lookback_") and fname != "bs_lookback_price":
            run.oblige("C18.R2", fname, True, "autogreek of bs_lookback_price, which is covered")
            continue
        flags = {"call": True} if "call" in params else {}
        regime = None
        _, _, res = B.extract(prog, interp, fname, regime, **flags)
        guards = [str(e["cond"]) for e in res["events"] if e["kind"] == "guard"]
        okt = any("ge(t, 0)" in g for g in guards)
        okv = any("ge(v, 0)" in g for g in guards)
        ok = okt and okv
        run.oblige("C18.R2", fname, ok, f"guards reached: t>=0 {okt}, v>=0 {okv}")
        if not ok:
            run.fail(Finding("C18.R2", B.F + fname, "no non-negativity guard on time_to_maturity / volatility is reached", "negative time to maturity or volatility is not rejected",
                             file=str(prog.modules[fi.module].path), line=fi.node.lineno))
    ww_width_rule(ctx, run)
    helper_limits_rule(ctx, run)
    ww_forward_rule(ctx, run)


def ww_width_rule(ctx, run):
    """R3 (hedger): the Whalley-Wilmott half-width is a real, finite number for every gamma the four option types produce -
    positive, zero and NEGATIVE (European binaries have negative gamma above the strike) - positive spot, cost >= 0 and a > 0."""
    from .. import entrypoints as E
    from .. import world as W
    prog, interp = ctx.prog, ctx.interp
    fi = E.functional(ctx, "ww_width")
    run.functions.add(fi.qualname)
    res = [r for r in interp.explore(fi, [], dict(gamma=W.tensor("gamma"), spot=W.tensor("spot"), cost=W.fl("cost"), a=W.fl("a"))) if not r["raises"]]
    if len(res) != 1:
        raise AnalysisError("ww_width: expected one path")
    term = res[0]["value"]
    gP, gN = sp.Symbol("gamma", positive=True), sp.Symbol("gamma", negative=True)
    base = {"spot": fin(1, sp.Symbol("spot", positive=True)), "a": fin(1, sp.Symbol("a", positive=True))}
    for glabel, g in (("gamma>0", fin(1, gP)), ("gamma<0", fin(-1, gN)), ("gamma=0", zero())):
        for clabel, c in (("cost>0", fin(1, sp.Symbol("cost", positive=True))), ("cost=0", zero())):
            try:
                val = ExtReal(dict(base, gamma=g, cost=c)).ev(term)
            except (NotImplementedError, KeyError) as ex:
                raise AnalysisError(f"ww_width: extended-real domain cannot model {ex}")
            ok = val.kind in ("fin", "zero") and (val.kind == "zero" or val.sign in (1, 0) or (clabel == "cost=0" or glabel == "gamma=0"))
            run.oblige("C18.R3", f"ww_width @ {glabel},{clabel}", ok, str(val))
            if not ok:
                run.fail(Finding("C18.R3", fi.qualname, f"case {glabel},{clabel}: {val}", "the no-transaction band half-width is not a finite non-negative number, so the Whalley-Wilmott hedge is NaN on such paths",
                                 file=str(prog.modules[fi.module].path), line=fi.node.lineno, case=f"{glabel},{clabel}"))


def helper_limits_rule(ctx, run):
    """R1 (helpers): the boundary analysis uses npdf(+-inf) == 0 and ncdf(+inf) == 1, ncdf(-inf) == 0 EXACTLY - the `numerator == 0 and
    denominator == 0` guards of the deltas and gammas fire only then.  Decided on the helpers' own bodies (summaries off), evaluated at
    +-inf in the extended reals: a clamp of the argument, or a floor added to the density, makes the limit a positive number."""
    from ..interp import Interp
    from .. import world as W
    prog = ctx.prog
    raw = Interp(prog, max_depth=20)
    for k in ("ncdf", "npdf"):
        raw.intrinsics.pop(B.F + k, None)
    run.require("C18.R1h", 4)
    from ..extreal import inf
    for name, at, want in (("npdf", 1, 0), ("npdf", -1, 0), ("ncdf", 1, 1), ("ncdf", -1, 0)):
        fi = prog.functions.get(B.F + name)
        if fi is None:
            raise AnalysisError(f"anchor vanished: {name}")
        res = [r for r in raw.explore(fi, [W.tensor("x")], {}) if not r["raises"]]
        if len(res) != 1:
            raise AnalysisError(f"{name}: expected one path")
        try:
            val = ExtReal({"x": inf(at)}).ev(res[0]["value"])
        except (NotImplementedError, KeyError) as ex:
            raise AnalysisError(f"{name}: extended-real domain cannot model {ex}")
        ok = (val.kind == "zero") if want == 0 else (val.kind == "fin" and val.expr is not None and sp.simplify(val.expr - want) == 0)
        lab = f"{name}({'+' if at > 0 else '-'}inf) == {want} exactly"
        run.oblige("C18.R1h", lab, ok, str(val))
        if not ok:
            run.fail(Finding("C18.R1h", fi.qualname, f"{lab}: got {val}", "the exact-zero guards of the boundary cases (0/0 -> 0) rely on this limit; with a non-zero value the deltas/gammas at maturity or zero volatility are +-inf",
                             file=str(prog.modules[fi.module].path), line=fi.node.lineno))


def ww_forward_rule(ctx, run):
    """R3 (Whalley-Wilmott end to end): WhalleyWilmott(EuropeanOption).forward - delta, gamma, width and the clamp, through whatever helper
    the module uses - is NaN-free at every step before maturity, INCLUDING a step where the volatility is exactly zero (stochastic-volatility
    paths reach it), for every sign of the log-moneyness; evaluated in the extended reals on the interpreted forward."""
    from ..interp import Obj
    from ..term import Op, Sym, subst, walk
    from .. import world as W
    prog, interp = ctx.prog, ctx.interp
    MOD = "pfhedge.nn.modules."
    wwq, bsq = MOD + "ww.WhalleyWilmott", MOD + "bs.european.BSEuropeanOption"
    fwd = prog.lookup_method(wwq, "forward")
    if fwd is None or bsq not in prog.classes:
        raise AnalysisError("anchor vanished: WhalleyWilmott.forward / BSEuropeanOption")
    run.require("C18.R3w", 6)
    for call in (True, False):
        deriv = Obj("pfhedge.instruments.derivative.european.EuropeanOption", "deriv", {"strike": W.fl("K"), "call": call})
        deriv.attrs["underlier"] = Obj(W.PRIMARY, "ul", {"cost": W.fl("cost")})
        bs = Obj(bsq, "bs", {"call": call, "strike": W.fl("K"), "derivative": deriv})
        ww = Obj(wwq, "ww", {"a": W.fl("a"), "bs": bs, "derivative": deriv})
        inp = W.tensor("input")
        interp.shapes["input"] = (W.integer("N"), 1, 4)
        try:
            res = [r for r in interp.explore(fwd, [inp], {}, self_obj=ww, max_paths=60) if not r["raises"]]
        except Unsupported as ex:
            raise AnalysisError(f"WhalleyWilmott.forward: {ex}")
        finally:
            interp.shapes.pop("input", None)
        if not res:
            raise AnalysisError("WhalleyWilmott.forward: no analysable path")
        cols = {}
        for k_, nm in ((0, "s"), (1, "t"), (2, "v"), (-1, "prev"), (3, "prev")):
            for form in ([k_], k_):
                cols[Op("index", (inp, (Ellipsis, form)))] = Sym(nm, ("tensor",))
        sub_in = Op("index", (inp, (Ellipsis, slice(None, -1, None))))
        for k_, nm in ((0, "s"), (1, "t"), (2, "v")):
            for form in ([k_], k_):
                cols[Op("index", (sub_in, (Ellipsis, form)))] = Sym(nm, ("tensor",))
        for r in res:
            term = subst(r["value"], cols)
            left = [s_ for s_ in walk(term) if s_ == inp]
            if left:
                raise AnalysisError("WhalleyWilmott.forward: an input column is read in a form the rule does not map to (s, t, v, prev_hedge)")
            for vlab, vv in (("v>0", fin(1, vS)), ("v=0", zero())):
                for slab, sv in SIGNS:
                    env = {"s": sv, "t": fin(1, tS), "v": vv, "K": fin(1, KS), "prev": fin(None, sp.Symbol("prev", real=True)),
                           "cost": fin(1, sp.Symbol("cost", positive=True)), "a": fin(1, sp.Symbol("a", positive=True))}
                    try:
                        val = ExtReal(env).ev(term)
                    except (NotImplementedError, KeyError) as ex:
                        raise AnalysisError(f"WhalleyWilmott.forward: extended-real domain cannot model {ex}")
                    inst = f"WhalleyWilmott(EuropeanOption[call={call}]).forward @ t>0,{vlab},{slab}"
                    ok = val.kind != "nan"
                    run.oblige("C18.R3w", inst, ok, str(val))
                    if not ok:
                        run.fail(Finding("C18.R3w", fwd.qualname, f"{inst}: NaN ({val.why})", "the Whalley-Wilmott hedge is NaN at a step before maturity (zero volatility is a state stochastic-volatility paths reach), and stays NaN in the P&L",
                                         file=str(prog.modules[fwd.module].path), line=fwd.node.lineno, case=f"{vlab},{slab}"))


def ww_module_width_rule(ctx, run):
    """R3m: the same for the half-width the MODULE computes (WhalleyWilmott.width, which may or may not go through ww_width): with the gamma
    of its Black-Scholes module an arbitrary real number - negative for binaries in the money - the width is finite and not NaN."""
    from .. import world as W
    from ..interp import Obj
    from ..term import Op, Sym, subst, walk
    prog, interp = ctx.prog, ctx.interp
    q = "pfhedge.nn.modules.ww.WhalleyWilmott"
    wfi = prog.lookup_method(q, "width")
    if wfi is None:
        raise AnalysisError("anchor vanished: WhalleyWilmott.width")
    deriv = Obj("pfhedge.instruments.derivative.european.EuropeanOption", "deriv", {"strike": W.fl("K"), "call": True})
    deriv.attrs["underlier"] = Obj(W.PRIMARY, "ul", {"cost": W.fl("cost")})
    ww = Obj(q, "ww", {"a": W.fl("a"), "bs": Sym("ww.bs", ("callable",)), "derivative": deriv})
    inp = W.tensor("input")
    interp.shapes["input"] = (W.integer("N"), W.integer("T"), 3)
    try:
        res = [r for r in interp.explore(wfi, [inp], {}, self_obj=ww, max_paths=40) if not r["raises"]]
    except Unsupported as ex:
        raise AnalysisError(f"WhalleyWilmott.width: {ex}")
    finally:
        interp.shapes.pop("input", None)
    if not res:
        raise AnalysisError("WhalleyWilmott.width: no analysable path")
    run.require("C18.R3m", 6)
    for r in res:
        term = r["value"]
        gcalls = {s_ for s_ in walk(term) if isinstance(s_, Op) and (s_.op == "gamma" or (s_.op == "call" and "gamma" in str(s_.args[0])[:80]))}
        if not gcalls:
            raise AnalysisError("WhalleyWilmott.width: the gamma of the Black-Scholes module does not enter the width")
        m = {g_: Sym("gamma") for g_ in gcalls}
        for s_ in walk(term):
            if isinstance(s_, Op) and s_.op == "index" and s_.args[0] == inp:
                m[s_] = Sym("lm")
        term2 = subst(term, m)
        base = {"lm": fin(None, sp.Symbol("lm", real=True)), "K": fin(1, sp.Symbol("K", positive=True)), "a": fin(1, sp.Symbol("a", positive=True)), "ul.cost": None}
        for glabel, g in (("gamma>0", fin(1, sp.Symbol("gamma", positive=True))), ("gamma<0", fin(-1, sp.Symbol("gamma", negative=True))), ("gamma=0", zero())):
            for clabel, c in (("cost>0", fin(1, sp.Symbol("cost", positive=True))), ("cost=0", zero())):
                case = dict(base, gamma=g)
                for s_ in walk(term2):
                    if isinstance(s_, Sym) and s_.name not in case:
                        case[s_.name] = c if "cost" in s_.name else fin(1, sp.Symbol(s_.name.replace(".", "_"), positive=True))
                case = {k_: v_ for k_, v_ in case.items() if v_ is not None}
                for k_ in [k_ for k_ in case if "cost" in k_]:
                    case[k_] = c
                try:
                    val = ExtReal(case).ev(term2)
                except (NotImplementedError, KeyError, TypeError) as ex:
                    raise AnalysisError(f"WhalleyWilmott.width: extended-real domain cannot model {ex}")
                ok = val.kind in ("fin", "zero")
                run.oblige("C18.R3m", f"WhalleyWilmott.width @ {glabel},{clabel}", ok, str(val))
                if not ok:
                    run.fail(Finding("C18.R3m", wfi.qualname, f"case {glabel},{clabel}: {val}", "the module's no-transaction band half-width is not a finite number: the Whalley-Wilmott hedge is NaN on such paths "
                                     "(binary options have negative gamma in the money)", file=str(prog.modules[wfi.module].path), line=wfi.node.lineno, case=f"{glabel},{clabel}"))


_check_before_r3m = check


def check(ctx, run):  # noqa: F811
    _check_before_r3m(ctx, run)
    ww_module_width_rule(ctx, run)
