"""C07 - Black-Scholes prices equal the expected payoff under the model.
Feynman-Kac characterisation on the repo's own price terms: R1 zero-rate Black-Scholes PDE, R2 terminal condition (limit of
vanishing time to maturity equals the payoff), R3 barrier / running-maximum boundary conditions and regime selector,
R4 units, R5 module wiring and registry.
Added after the seeded-defect rounds: R7 precision provenance: strike, float time to maturity / volatility and constants are not rounded to the default dtype on the way into the closed forms.
Third round: R7 also: the closed forms compute in the dtype of their inputs; R7d the state a module takes from its derivative (strike as given, grid in the data's dtype); R7h that state follows re-simulation / re-configuration (call histories); R8 module constructors.
Rounds 4-5: R5 the re-binding idiom binds methods under their own name; R5p an explicitly given parameter is used as given by a derivative-bound module.
Round 7: R5 call history 'rebuild' (build the module, change strike / call flag on the same derivative, build again: the second module carries the current contract; memoised factories); forwarded arguments are read by parameter name."""
import ast

import sympy as sp

from .. import bsterms as B
from .. import world as W
from ..interp import Obj, Unsupported
from ..report import AnalysisError, Finding
from ..term import Op, Sym, walk
from ..units import ONE, POLY, U, UnitChecker

q, r_ = sp.symbols("q r", positive=True)
MOD = "pfhedge.nn.modules.bs."
MODULES = {"european.BSEuropeanOption": ("european", "EuropeanOption"), "european_binary.BSEuropeanBinaryOption": ("european_binary", "EuropeanBinaryOption"),
           "american_binary.BSAmericanBinaryOption": ("american_binary", "AmericanBinaryOption"), "lookback.BSLookbackOption": ("lookback", "LookbackOption")}


def pde(P):
    return sp.diff(P, B.t) - B.v ** 2 * B.S ** 2 * sp.diff(P, B.S, 2) / 2


def normal_helpers(ctx, run):
    """R6: the analysis reads ncdf / npdf as the standard normal cdf / density - check that this is what they compute"""
    from ..algebra import N as Ncdf, ToSympy, n as npdf_
    from ..interp import Interp
    prog = ctx.prog
    raw = Interp(prog, max_depth=20)
    for k in ("ncdf", "npdf"):
        raw.intrinsics.pop(B.F + k, None)
    xs = sp.Symbol("x", real=True)

    def hook(ts, t):
        if isinstance(t, Op) and t.op in ("cdf", "log_prob", "icdf") and t.args and isinstance(t.args[0], Op) and t.args[0].op == "dist":
            d = t.args[0]
            if d.args[0] != "Normal":
                raise NotImplementedError(f"distribution {d.args[0]}")
            dk = d.kwd()
            mu = ts.conv(dk.get("loc", d.args[1] if len(d.args) > 1 else 0))
            sg = ts.conv(dk.get("scale", d.args[2] if len(d.args) > 2 else 1))
            zz = (ts.conv(t.args[1]) - mu) / sg
            if t.op == "cdf":
                return Ncdf(zz)
            if t.op == "log_prob":
                return sp.log(npdf_(zz) / sg)
            raise NotImplementedError(t.op)
        if isinstance(t, Op) and t.op in ("erf", "special.erf") and len(t.args) == 1:
            return sp.erf(ts.conv(t.args[0]))
        if isinstance(t, Op) and t.op in ("erfc", "special.erfc") and len(t.args) == 1:
            return sp.erfc(ts.conv(t.args[0]))
        if isinstance(t, Op) and t.op in ("special.ndtr",) and len(t.args) == 1:
            return Ncdf(ts.conv(t.args[0]))
        return None

    for name, want in (("ncdf", Ncdf(xs)), ("npdf", npdf_(xs))):
        fi = prog.functions.get(B.F + name)
        if fi is None:
            raise AnalysisError(f"anchor vanished: {name}")
        run.functions.add(fi.qualname)
        res = [r for r in raw.explore(fi, [Sym("x", ("tensor",))], {}) if not r["raises"]]
        if len(res) != 1:
            raise AnalysisError(f"{name}: expected one path")
        ts = ToSympy(symbols={"x": xs}, hooks=[hook])
        try:
            got = ts.conv(res[0]["value"])
            resid = sp.simplify(sp.expand_log(got - want, force=True).rewrite(sp.erf))
            ok = resid == 0
            detail = f"residual {resid}"
        except NotImplementedError as ex:
            raise AnalysisError(f"{name}: operator outside the table: {ex}")
        run.oblige("C07.R6", f"{name} is the standard normal {'cdf' if name == 'ncdf' else 'density'}", ok, f"{res[0]['value']}; {detail}")
        if not ok:
            run.fail(Finding("C07.R6", fi.qualname, f"{res[0]['value']}: {detail}", f"{name} is not the standard normal {'distribution function' if name == 'ncdf' else 'density'} every price formula relies on",
                             file=str(prog.modules[fi.module].path), line=fi.node.lineno))


def check(ctx, run):
    prog, interp = ctx.prog, ctx.interp
    normal_helpers(ctx, run)
    run.trusted += ["Feynman-Kac: the zero-rate price is the polynomially bounded solution of the PDE with the payoff as terminal value", "sympy diff / simplify / limit"]
    run.require("C07.R1", 5)
    run.require("C07.R2", 7)
    run.require("C07.R4", 5)
    cases = [("european", dict(call=True), None), ("european_binary", dict(call=True), None), ("american_binary", {}, "below"), ("lookback", {}, "below"), ("lookback", {}, "above"),
             ("european", dict(call=False), None), ("european_binary", dict(call=False), None)]
    terms = {}
    for fam, flags, regime in cases:
        fname = f"bs_{fam}_price"
        term, e, res = B.extract(prog, interp, fname, regime, **flags)
        fi = prog.functions[B.F + fname]
        run.functions.add(fi.qualname)
        P = B.concretize(e)
        if fam == "lookback" and regime == "below":
            # regime max < strike: the selector keeps the first formula; it must not depend on the running maximum
            P = P
        label = f"{fname}[{','.join(f'{k}={v}' for k, v in flags.items()) or '-'}{',' + regime if regime else ''}]"
        terms[(fam, tuple(flags.items()), regime)] = P
        # R4: units - every sub-term is well-typed and the price carries the payoff's unit
        uc = UnitChecker({"s": ONE, "m": ONE, "t": U(1, 0), "v": U(-sp.Rational(1, 2), 0), "K": U(0, 1)})
        got = uc.of(term, True)
        want = U(0, 1) if fam in ("european", "lookback") else ONE
        errs = list(dict.fromkeys(m for m, _ in uc.errors))
        oku = not errs and (got == "POLY" or got == want)
        run.oblige("C07.R4", label + ":units", oku, f"unit {got}, payoff unit {want}; {errs[:2]}")
        if not oku:
            run.fail(Finding("C07.R4", fi.qualname, f"{label}: unit of the price {got} (payoff unit {want})", "; ".join(errs[:3]) or "the price does not carry the payoff's unit",
                             file=str(prog.modules[fi.module].path), line=fi.node.lineno))
        if fam == "lookback" and regime == "below" and any(sy.name in ("m", "M") for sy in P.free_symbols):
            run.oblige("C07.R3", "lookback (M<K): price does not depend on the running maximum", False, "depends on the running maximum")
            run.fail(Finding("C07.R3", fi.qualname, "regime max < strike selects a formula that depends on the running maximum", "below the strike the running maximum is irrelevant: the regime selector or its branches are wrong",
                             file=str(prog.modules[fi.module].path), line=fi.node.lineno))
            continue
        resid = sp.simplify(pde(P))
        ok = resid == 0
        run.oblige("C07.R1", label, ok, f"PDE residual {str(resid)[:100]}", sample={"rule": "C07.R1", "function": label, "pde_residual": str(resid)[:120]})
        if not ok:
            run.fail(Finding("C07.R1", fi.qualname, f"{label}: PDE residual {str(resid)[:200]}", "the price does not solve dP/dtau = (1/2) sigma^2 S^2 d2P/dS2", file=str(prog.modules[fi.module].path), line=fi.node.lineno))
        # ---- R2 terminal condition
        call = flags.get("call", True)
        if fam == "lookback" and regime == "above":
            Mx = B.K * (1 + r_)
            Pq = P.subs(B.M, Mx).subs(B.S, Mx / (1 + q))
            lims = [("S<M, M>K", Pq, B.K * r_)]
        elif fam == "lookback":
            lims = [("S<K", P.subs(B.S, B.K / (1 + q)), 0)]
        elif fam == "american_binary":
            lims = [("S<K", P.subs(B.S, B.K / (1 + q)), 0)]
        elif fam == "european":
            up, dn = P.subs(B.S, B.K * (1 + q)), P.subs(B.S, B.K / (1 + q))
            lims = [("S>K", up, B.K * q if call else 0), ("S<K", dn, 0 if call else B.K - B.K / (1 + q))]
        else:
            up, dn = P.subs(B.S, B.K * (1 + q)), P.subs(B.S, B.K / (1 + q))
            lims = [("S>K", up, 1 if call else 0), ("S<K", dn, 0 if call else 1)]
        if fam == "lookback" and regime == "above" and not P.has(B.M):
            run.oblige("C07.R3", "lookback (M>=K): price depends on the running maximum", False, "independent of M")
            run.fail(Finding("C07.R3", fi.qualname, "regime max >= strike selects a formula that ignores the running maximum", "above the strike the locked-in maximum must enter the price: the regime selector or its branches are wrong",
                             file=str(prog.modules[fi.module].path), line=fi.node.lineno))
            continue
        for reg, expr, want in lims:
            try:
                L = sp.simplify(sp.limit(expr, B.t, 0, "+"))
            except Exception as ex:
                raise AnalysisError(f"{label}: limit failed ({type(ex).__name__})")
            ok = sp.simplify(L - want) == 0
            run.oblige("C07.R2", f"{label} tau->0+ {reg}", ok, f"limit {L}, payoff {want}", sample={"rule": "C07.R2", "function": label, "region": reg, "limit": str(L)})
            if not ok:
                run.fail(Finding("C07.R2", fi.qualname, f"{label} {reg}: limit {L}, payoff {want}", "the price does not tend to the payoff as time to maturity vanishes", file=str(prog.modules[fi.module].path), line=fi.node.lineno))
    # ---- R3 boundary / regime conditions
    run.require("C07.R3", 4)
    am = terms[("american_binary", (), "below")]
    fi = prog.functions[B.F + "bs_american_binary_price"]
    ok = sp.simplify(am.subs(B.S, B.K) - 1) == 0
    run.oblige("C07.R3", "one-touch: price = 1 at the barrier", ok, "")
    if not ok:
        run.fail(Finding("C07.R3", fi.qualname, "P(S=K) - 1 = " + str(sp.simplify(am.subs(B.S, B.K) - 1))[:100], "the one-touch price must reach 1 at the barrier", file=str(prog.modules[fi.module].path), line=fi.node.lineno))
    _, e_above, _ = B.extract(prog, interp, "bs_american_binary_price", "above")
    ok = sp.simplify(e_above - 1) == 0
    run.oblige("C07.R3", "one-touch: price = 1 once the running maximum has reached the strike", ok, str(e_above)[:60])
    if not ok:
        run.fail(Finding("C07.R3", fi.qualname, "value when max_log_moneyness > 0: " + str(e_above)[:100], "after the barrier is hit the option is worth exactly 1", file=str(prog.modules[fi.module].path), line=fi.node.lineno))
    # the barrier counts as reached when the running maximum EQUALS the strike (an option struck at the initial spot): payoff 1{max >= K}
    _, e_at, _ = B.extract(prog, interp, "bs_american_binary_price", "at")
    e_at = B.resolve_piecewise(e_at, {})
    ok = sp.simplify(e_at - 1) == 0
    run.oblige("C07.R3", "one-touch: price = 1 when the running maximum equals the strike (payoff is 1{max >= K})", ok, str(e_at)[:60])
    if not ok:
        run.fail(Finding("C07.R3", fi.qualname, "value when max_log_moneyness = 0: " + str(e_at)[:100], "with the running maximum at the strike the payoff 1 is already certain; the price must be exactly 1",
                         file=str(prog.modules[fi.module].path), line=fi.node.lineno, case="at"))
    fi = prog.functions[B.F + "bs_lookback_price"]
    p1 = terms.get(("lookback", (), "above"))
    p0 = terms.get(("lookback", (), "below"))
    if p0 is None or p1 is None:
        return
    if any(sy.name in ("m", "M") for sy in p0.free_symbols) or not p1.has(B.M):
        return
    neu = sp.simplify(sp.diff(p1, B.M).subs(B.M, B.S))
    ok = neu == 0
    run.oblige("C07.R3", "lookback (M>=K): dP/dM = 0 at S = M", ok, str(neu)[:80])
    if not ok:
        run.fail(Finding("C07.R3", fi.qualname, "dP/dM at S=M = " + str(neu)[:120], "the running-maximum boundary condition fails", file=str(prog.modules[fi.module].path), line=fi.node.lineno))
    ok = not p0.has(B.M) and not p0.has(sp.Symbol("m", negative=True))
    run.oblige("C07.R3", "lookback (M<K): price does not depend on the running maximum", ok, "")
    if not ok:
        run.fail(Finding("C07.R3", fi.qualname, "regime max < strike depends on M", "below the strike the running maximum is irrelevant", file=str(prog.modules[fi.module].path), line=fi.node.lineno))
    cont = sp.simplify(p1.subs(B.M, B.K) - p0)
    ok = cont == 0
    run.oblige("C07.R3", "lookback: the two regimes meet at M = K", ok, str(cont)[:80])
    if not ok:
        run.fail(Finding("C07.R3", fi.qualname, "price_1(M=K) - price_0 = " + str(cont)[:120], "the price is discontinuous where the running maximum crosses the strike", file=str(prog.modules[fi.module].path), line=fi.node.lineno))
    # ---- R5 module wiring
    run.require("C07.R5", 8)
    for mq, (fam, dname) in MODULES.items():
        cq = MOD + mq
        if cq not in prog.classes:
            raise AnalysisError(f"anchor vanished: {cq}")
        pm = prog.lookup_method(cq, "price")
        o = Obj(cq, "bs", {"call": Sym("bs.call", ("bool",)), "strike": W.fl("bs.strike"), "derivative": None})
        names = [a.arg for a in pm.node.args.args[1:]]
        args = {n: W.tensor(n) for n in names}
        res = [r for r in interp.explore(pm, [], args, self_obj=o, max_paths=50) if not r["raises"]]
        calls = [e for r in res for e in r["events"] if e["kind"] == "call" and e["callee"] == B.F + f"bs_{fam}_price"]
        fparams = [a.arg for a in prog.functions[B.F + f"bs_{fam}_price"].node.args.args]
        problems = []
        if not calls:
            problems.append(f"does not call bs_{fam}_price")
        for e in calls:
            kw = dict(e.get("bound") or e["kwargs"])   # arguments by parameter name, however they were passed
            for n in names:
                if kw.get(n) != W.tensor(n):
                    problems.append(f"{n} not forwarded")
            if "strike" in fparams and kw.get("strike") != W.fl("bs.strike"):
                problems.append("strike is not self.strike")
            if "call" in fparams and kw.get("call") != Sym("bs.call", ("bool",)):
                problems.append("call is not self.call")
        ok = not problems
        run.oblige("C07.R5", f"{mq.split('.')[-1]}.price", ok, "; ".join(sorted(set(problems))))
        if not ok:
            run.fail(Finding("C07.R5", pm.qualname, "; ".join(sorted(set(problems))), "the module does not price with its own strike / call flag / arguments", file=str(prog.modules[pm.module].path), line=pm.node.lineno))
        # from_derivative
        fd = prog.lookup_method(cq, "from_derivative")
        from ..interp import ClassRef
        dq = next((c for c in prog.classes if c.endswith("." + dname) and ".instruments.derivative." in c), None)
        if fd is None or dq is None:
            raise AnalysisError(f"anchor vanished: {cq}.from_derivative / {dname}")
        dcall, dstrike = Sym("d.call", ("bool",)), W.fl("d.strike")
        dobj = Obj(dq, "deriv", {"call": dcall, "strike": dstrike})
        built = [r["value"] for r in interp.explore(fd, [dobj], {}, self_obj=ClassRef(cq)) if not r["raises"]]
        ok = len(built) == 1 and isinstance(built[0], Obj) and built[0].cls == cq and built[0].attrs.get("strike") == dstrike and built[0].attrs.get("derivative") is dobj \
            and (built[0].attrs.get("call") == dcall or "call" not in [a.arg for a in prog.lookup_method(cq, "__init__").node.args.args])
        src = str({k: str(v) for k, v in built[0].attrs.items() if not k.startswith("__")}) if built and isinstance(built[0], Obj) else str(built)
        run.oblige("C07.R5", f"{mq.split('.')[-1]}.from_derivative copies call, strike, derivative", ok, src[:100])
        if not ok:
            run.fail(Finding("C07.R5", fd.qualname, src[:160], "from_derivative must copy the derivative's call flag and strike and keep the derivative", file=str(prog.modules[fd.module].path), line=fd.node.lineno))
        # registry key
        mod = prog.modules[prog.classes[cq].module]
        keys = [ast.literal_eval(n.args[0]) for n in ast.walk(mod.tree) if isinstance(n, ast.Call) and isinstance(n.func, ast.Attribute) and n.func.attr == "register_module" and len(n.args) == 2 and ast.unparse(n.args[1]) == cq.rsplit(".", 1)[-1]]
        ok = keys == [dname] and any(c.endswith("." + dname) for c in prog.classes)
        run.oblige("C07.R5", f"registry key of {mq.split('.')[-1]}", ok, str(keys))
        if not ok:
            run.fail(Finding("C07.R5", cq, f"register_module keys {keys}", f"the module must be registered under the derivative class name {dname}", file=str(mod.path), line=prog.classes[cq].node.lineno))


_check_main = check


def check(ctx, run):  # noqa: F811
    _check_main(ctx, run)
    prog, interp = ctx.prog, ctx.interp
    base = "pfhedge.nn.modules.bs._base.acquire_params_from_derivative_"
    want = {"0": ["log_moneyness", "time_to_maturity"], "1": ["log_moneyness", "time_to_maturity", "volatility"], "2": ["log_moneyness", "max_log_moneyness", "time_to_maturity", "volatility"]}
    source = {"log_moneyness": "OptionMixin.log_moneyness", "time_to_maturity": "OptionMixin.time_to_maturity", "max_log_moneyness": "OptionMixin.max_log_moneyness"}
    for k, names in want.items():
        fi = prog.functions.get(base + k)
        if fi is None:
            raise AnalysisError(f"anchor vanished: {base + k}")
        # (a) explicit arguments are passed through unchanged
        res = [r for r in interp.explore(fi, [W.option()], {n: W.tensor(n) for n in names}, max_paths=80) if not r["raises"]]
        ok = bool(res) and all(list(r["value"]) == [W.tensor(n) for n in names] for r in res)
        # (b) missing arguments are filled from the derivative's own accessors
        d = W.option()
        res = [r for r in interp.explore(fi, [d], {}, max_paths=80) if not r["raises"]]
        problems = []
        for r in res:
            called = [e["callee"].split(".")[-2] + "." + e["callee"].split(".")[-1] for e in r["events"] if e["kind"] == "call" and e.get("recv") is not None and getattr(e["recv"], "name", "") == "deriv" and not e.get("prop")]
            for n in names:
                if n == "volatility":
                    if str(r["value"][names.index(n)]) != "deriv.ul.volatility":
                        problems.append(f"volatility filled with {r['value'][names.index(n)]}")
                elif source[n] not in called:
                    problems.append(f"{n} is not filled from derivative.{n}()")
                else:
                    first = [e for e in r["events"] if e["kind"] == "call" and e["callee"].endswith(source[n])]
        if not ok:
            problems.append("explicit arguments are not passed through")
        problems = sorted(set(problems))
        run.oblige("C07.R5", f"acquire_params_from_derivative_{k}", not problems, "; ".join(problems))
        if problems:
            run.fail(Finding("C07.R5", fi.qualname, "; ".join(problems), "a pricing module built from a derivative must take its missing arguments from that derivative's simulated state", file=str(prog.modules[fi.module].path), line=fi.node.lineno))


def factory_lookup(ctx, run):
    """R5 (registry, read side): BlackScholes(derivative) builds the module registered for that derivative's own class"""
    from ..interp import ClassRef
    prog, interp = ctx.prog, ctx.interp
    FQ = "pfhedge.nn.modules.bs.black_scholes.BlackScholesModuleFactory"
    g = prog.lookup_method(FQ, "get_class_from_derivative")
    new = prog.lookup_method("pfhedge.nn.modules.bs.black_scholes.BlackScholes", "__new__")
    if g is None or new is None:
        raise AnalysisError("anchor vanished: BlackScholesModuleFactory.get_class_from_derivative / BlackScholes.__new__")
    registry = {dname: ClassRef(MOD + mq) for mq, (fam, dname) in MODULES.items()}
    problems = []
    for mq, (fam, dname) in MODULES.items():
        dq = next((c for c in prog.classes if c.endswith("." + dname) and ".instruments.derivative." in c), None)
        if dq is None:
            raise AnalysisError(f"anchor vanished: derivative class {dname}")
        fac = Obj(FQ, "factory", {"_modules": dict(registry)})
        d = Obj(dq, "deriv", {"call": Sym("d.call", ("bool",)), "strike": W.fl("d.strike")})
        try:
            res = [r for r in interp.explore(g, [d], {}, self_obj=fac) if not r["raises"]]
        except Unsupported as ex:
            raise AnalysisError(f"get_class_from_derivative: {ex}")
        got = res[0]["value"] if len(res) == 1 else None
        if not (isinstance(got, Obj) and got.cls == MOD + mq and got.attrs.get("derivative") is d):
            problems.append(f"{dname} -> {getattr(got, 'cls', got)}")
    # ... and builds it from the derivative as it is NOW: a module asked for after the contract was changed (a strike ladder or a put/call
    # sweep on one instrument) carries the new strike and flag, not those of a module built earlier for the same object (memoised builders)
    from ..source import FuncInfo
    drv = FuncInfo("synthetic.rebuild", g.module, ast.parse(
        "def history(fac, d, k2, c2):\n    m1 = fac.get_class_from_derivative(d)\n    d.strike = k2\n    d.call = c2\n    m2 = fac.get_class_from_derivative(d)\n    return m1, m2\n").body[0])
    stale = []
    for mq, (fam, dname) in MODULES.items():
        dq = next(c for c in prog.classes if c.endswith("." + dname) and ".instruments.derivative." in c)
        fac = Obj(FQ, "factory", {"_modules": dict(registry)})
        k1, k2, c1, c2 = W.fl("d.strike"), W.fl("new.strike"), Sym("d.call", ("bool",)), Sym("new.call", ("bool",))
        d = Obj(dq, "deriv", {"call": c1, "strike": k1})
        try:
            res = [r for r in interp.explore(drv, [fac, d, k2, c2], {}) if not r["raises"]]
        except Unsupported as ex:
            raise AnalysisError(f"history 'rebuild' on {dname}: {ex}")
        if not res:
            raise AnalysisError(f"history 'rebuild' on {dname}: no non-raising path")
        for r in res:
            m1, m2 = r["value"]
            if not (isinstance(m2, Obj) and m2.cls == MOD + mq):
                stale.append(f"{dname}: the second module is {getattr(m2, 'cls', m2)}")
                continue
            if m2 is m1:
                stale.append(f"{dname}: the module built before the contract changed is handed out again")
            if m2.attrs.get("strike") is not k2:
                stale.append(f"{dname}: module built after d.strike = new.strike carries strike {m2.attrs.get('strike')}")
            if "call" in m2.attrs and m2.attrs.get("call") is not c2:
                stale.append(f"{dname}: module built after d.call = new.call carries call {m2.attrs.get('call')}")
    stale = sorted(set(stale))
    run.oblige("C07.R5", "history 'rebuild': BlackScholes(d) after d.strike / d.call changed prices the current contract", not stale, "; ".join(stale)[:200])
    if stale:
        run.fail(Finding("C07.R5", g.qualname, "history 'rebuild': " + "; ".join(stale)[:400], "a pricing module built from a derivative prices an earlier contract of the same object (strike / call flag of a previous build)",
                         file=str(prog.modules[g.module].path), line=g.node.lineno, case="rebuild"))
    src = ast.unparse(new.node)
    uses = [n for n in ast.walk(new.node) if isinstance(n, ast.Call) and isinstance(n.func, ast.Attribute) and n.func.attr == "get_class_from_derivative"]
    if len(uses) != 1 or not (uses[0].args and isinstance(uses[0].args[0], ast.Name) and uses[0].args[0].id == "derivative"):
        problems.append("BlackScholes.__new__ does not hand its derivative to the factory")
    ok = not problems
    run.oblige("C07.R5", "BlackScholes(derivative) builds the module registered under the derivative's own class name", ok, "; ".join(problems))
    if not ok:
        run.fail(Finding("C07.R5", g.qualname, "; ".join(problems), "the pricing module built for a derivative is not the one for its option type", file=str(prog.modules[g.module].path), line=g.node.lineno))


def module_level(ctx, run):
    """thorough tier: the price *method* of each pricing module, interpreted end to end on explicit arguments with the module's own
    strike and call flag, is the same function as the functional form (and therefore satisfies R1-R3)"""
    prog, interp = ctx.prog, ctx.interp
    n = 0
    for mq, (fam, dname) in MODULES.items():
        cq = MOD + mq
        pm = prog.lookup_method(cq, "price")
        if pm is None:
            raise AnalysisError(f"anchor vanished: {cq}.price")
        has_call = "call" in [a.arg for a in prog.functions[B.F + f"bs_{fam}_price"].node.args.args]
        regimes = ["below", "above"] if fam == "lookback" else ["below"] if fam == "american_binary" else [None]
        for call in ((True, False) if has_call else (None,)):
            for regime in regimes:
                flags = {"call": call} if has_call else {}
                probe = Obj(cq, "bs", {"derivative": None, "strike": B.K_, **({"call": call} if has_call else {})})
                try:
                    _, em, _ = B.extract_fi(prog, interp, pm, regime, probe)
                except Unsupported as ex:
                    raise AnalysisError(f"{cq}.price: {ex}")
                _, ef, _ = B.extract(prog, interp, f"bs_{fam}_price", regime, **flags)
                ok, resid = B.is_zero(em - ef)
                label = f"{mq.split('.')[-1]}.price[{'call' if call else 'put' if call is not None else '-'}{',' + regime if regime else ''}]"
                n += 1
                run.oblige("C07.R5", label + " == functional form", ok, f"residual {str(resid)[:80]}")
                if not ok:
                    run.fail(Finding("C07.R5", pm.qualname, f"{label}: residual {str(resid)[:200]}", "the module's price differs from the functional form at its own strike / call flag",
                                     file=str(prog.modules[pm.module].path), line=pm.node.lineno, case=label))
    if n < 7:
        raise AnalysisError(f"module-level tier covered only {n} cases")


_check_quick = check


def check(ctx, run):  # noqa: F811
    _check_quick(ctx, run)
    precision_rule(ctx, run)
    from ..precision import closed_form_precision_rule
    closed_form_precision_rule(ctx, run, "C07.R7", ["d1", "d2", "ncdf", "npdf", "bs_european_price", "bs_european_binary_price", "bs_american_binary_price", "bs_lookback_price"],
                               "float time to maturity / volatility / strike and constants are not rounded to the default dtype")
    derivative_state_precision(ctx, run)
    from .c02 import option_classes_use_the_mixin
    option_classes_use_the_mixin(ctx, run, "C07.R5")  # the state the modules read is the generic option's: no class re-binds those names
    from ..ctors import rebinding_rule
    rebinding_rule(ctx, run, "C07.R5", ["pfhedge.nn.modules.bs", "pfhedge.instruments.derivative"], 30)
    from ..ctors import ctor_rule
    ctor_rule(ctx, run, "C07.R8", ["pfhedge.nn.modules.bs." + c for c in ("european.BSEuropeanOption", "lookback.BSLookbackOption", "american_binary.BSAmericanBinaryOption", "european_binary.BSEuropeanBinaryOption")], None,
              "the module prices another contract than the one it was created for")
    # R7h: the state the modules read off a derivative is the current one: re-simulating or re-configuring the underlier replaces every series
    from ..registry import reconfigure_rule, resimulation_rule
    reconfigure_rule(ctx, run, "C07.R7h")
    resimulation_rule(ctx, run, "C07.R7h", only=("resim-state",))
    factory_lookup(ctx, run)
    B.default_call_is_call(ctx.prog, ctx.interp, run, "C07.R5", ["bs_european_price", "bs_european_binary_price"])
    if ctx.tier == "thorough":
        module_level(ctx, run)


def precision_rule(ctx, run):
    """R7: the strike, a Python float, reaches the closed form as a Python float: it is not first turned into a 0-dim tensor of the global
    default dtype (torch.as_tensor(strike) / torch.tensor(strike) without dtype), which rounds it to float32 before float64 arithmetic
    (relative error 6e-8 in the price for strike = 1.1).  A necessary condition of 'float64 prices are accurate to float64': the rounding
    itself is not evaluated, only the lossy conversion on the way is reported."""
    from .. import world as W
    prog, interp = ctx.prog, ctx.interp
    run.require("C07.R7", 4)
    for fname in ("bs_european_price", "bs_european_binary_price", "bs_american_binary_price", "bs_lookback_price"):
        fi = prog.functions.get(B.F + fname)
        if fi is None:
            raise AnalysisError(f"anchor vanished: {fname}")
        params = [a.arg for a in fi.node.args.args]
        kw = {}
        for p_ in params:
            if p_ in ("log_moneyness", "time_to_maturity", "volatility", "max_log_moneyness"):
                kw[p_] = W.tensor(p_)
            elif p_ == "strike":
                kw[p_] = W.fl("strike")
            elif p_ == "call":
                kw[p_] = True
        res = [r for r in interp.explore(fi, [], kw, max_paths=50) if not r["raises"]]
        if not res:
            raise AnalysisError(f"{fname}: no path")
        lossy = sorted({f"{e['how']} applied to {e['value']}" for r in res for e in r["events"] if e["kind"] == "lossy_scalar" and str(e["value"]) == "strike"})
        run.oblige("C07.R7", f"{fname}: the strike is not rounded to the default dtype on its way into the formula", not lossy, "; ".join(lossy) or "strike used as a Python float")
        if lossy:
            run.fail(Finding("C07.R7", fi.qualname, "; ".join(lossy), "the strike is rounded to float32 before it enters float64 arithmetic: float64 prices lose half their digits for strikes that are not float32 numbers",
                             file=str(prog.modules[fi.module].path), line=fi.node.lineno))


def derivative_state_precision(ctx, run):
    """R7d: the state a pricing module takes from its derivative (moneyness, log moneyness, their running maxima, time to maturity) is
    computed in the dtype of the simulated prices with the strike as given: the strike is not packed into a default-dtype tensor and no
    part of the state is computed in an unrelated float dtype and converted afterwards."""
    from .. import world as W
    from ..dtypes import Provenance
    from ..interp import Unsupported
    from ..precision import lossy
    prog, interp = ctx.prog, ctx.interp
    MIX = "pfhedge.instruments.derivative.base.OptionMixin"
    run.require("C07.R7d", 10)
    for meth, kw in (("moneyness", {"log": False}), ("moneyness", {"log": True}), ("log_moneyness", {}), ("max_moneyness", {"log": False}),
                     ("max_moneyness", {"log": True}), ("max_log_moneyness", {}), ("time_to_maturity", {})):
        fi = prog.lookup_method(MIX, meth)
        if fi is None:
            raise AnalysisError(f"anchor vanished: OptionMixin.{meth}")
        for mode, ts in (("step", W.integer("i")), ("all steps", None)):
            try:
                res = [r for r in interp.explore(fi, [ts], dict(kw), self_obj=W.option()) if not r["raises"]]
            except Unsupported as ex:
                raise AnalysisError(f"OptionMixin.{meth}: {ex}")
            if not res:
                raise AnalysisError(f"OptionMixin.{meth} ({mode}): no analysable path")
            bad = lossy(res, None)
            for r in res:
                pv = Provenance()
                pv.of(r["value"])
                bad += [f"{str(t.args[0])[:100]} is computed in a float dtype unrelated to the prices and converted afterwards" for t, v in pv.narrowed]
            label = f"OptionMixin.{meth}({', '.join(f'{k}={v}' for k, v in kw.items())}) [{mode}]"
            run.oblige("C07.R7d", f"{label}: computed at the precision of the simulated prices", not bad, "; ".join(bad) or "strike used as given, arithmetic in the dtype of the prices")
            if bad:
                run.fail(Finding("C07.R7d", fi.qualname, f"{label}: {bad[0]}"[:300], "the state handed to the Black-Scholes modules is only float32-accurate for a float64 derivative",
                                 file=str(prog.modules[fi.module].path), line=fi.node.lineno, case=mode))


def partial_arguments_rule(ctx, run):
    """R5p: a module created from a derivative fills in the parameters the caller leaves out - and only those: for every method that takes the
    state (price, delta, gamma, vega, theta) and every single parameter given explicitly, the closed form receives the caller's tensor for
    that parameter (a merged guard `if a is None or b is None:` overwrites an explicit `a` whenever `b` is missing)."""
    from .. import world as W
    from ..interp import Obj, Unsupported
    from ..term import Sym
    prog, interp = ctx.prog, ctx.interp
    MOD = "pfhedge.nn.modules.bs."
    n = 0
    for mq in ("european.BSEuropeanOption", "european_binary.BSEuropeanBinaryOption", "american_binary.BSAmericanBinaryOption", "lookback.BSLookbackOption"):
        cq = MOD + mq
        short = mq.rsplit(".", 1)[-1]
        for meth in ("price", "delta", "gamma", "vega", "theta"):
            mfi = prog.lookup_method(cq, meth)
            if mfi is None or not mfi.qualname.startswith(cq):
                continue  # inherited automatic Greek: the parameters go through price()
            names = [a.arg for a in mfi.node.args.args[1:] if a.arg not in ("create_graph",)]
            bad = []
            for given in names:
                probe = Obj(cq, "bs", {"derivative": W.option(), "strike": W.fl("bs.strike"), "call": Sym("bs.call", ("bool",))})
                g = W.tensor("given_" + given)
                kw = {k_: (g if k_ == given else None) for k_ in names}
                try:
                    res = [r for r in interp.explore(mfi, [], kw, self_obj=probe, max_paths=60) if not r["raises"]]
                except Unsupported as ex:
                    raise AnalysisError(f"{short}.{meth}({given}=...): {ex}")
                if not res:
                    raise AnalysisError(f"{short}.{meth}({given}=...): no analysable path")
                for r in res:
                    calls = [e for e in r["events"] if e["kind"] == "call" and e["callee"].startswith(B.F + "bs_") and (e.get("fn") or "").startswith(cq)]
                    for e in calls[:1]:
                        fparams = [a.arg for a in prog.functions[e["callee"]].node.args.args]
                        got = dict(e["kwargs"])
                        for k_, v_ in zip(fparams, e["args"]):
                            got[k_] = v_
                        v_ = got.get(given)
                        while isinstance(v_, Op) and v_.op in ("requires_grad_", "clone", "contiguous", "to", "expand", "expand_as", "broadcast_to", "as_tensor") and v_.args:
                            v_ = v_.args[0]  # value-preserving wrappers (the automatic Greeks mark their leaf)
                        names_ = {x_.name for x_ in walk(v_) if isinstance(x_, Sym)} if isinstance(v_, (Op, Sym)) else set()
                        reparam = g.name in names_ and not any(n_.startswith("deriv.") for n_ in names_)  # e.g. log(exp(given) K / K) of the automatic Greeks
                        if given in fparams and v_ != g and not reparam:
                            bad.append(f"{given} given explicitly, the closed form receives {str(got.get(given))[:50]}")
                    if not calls:
                        bad.append(f"{given}: no closed form is evaluated")
            bad = sorted(set(bad))
            n += 1
            run.oblige("C07.R5p", f"{short}.{meth}: an explicitly given parameter is used as given", not bad, "; ".join(bad))
            if bad:
                run.fail(Finding("C07.R5p", mfi.qualname, f"{short}.{meth}: " + "; ".join(bad)[:260], "the module silently replaces a state the caller supplied by the derivative's own: a bumped price or maturity is ignored",
                                 file=str(prog.modules[mfi.module].path), line=mfi.node.lineno))
    run.require("C07.R5p", 10)
    if n < 10:
        raise AnalysisError(f"only {n} module methods analysed")


_check_before_r5p = check


def check(ctx, run):  # noqa: F811
    _check_before_r5p(ctx, run)
    partial_arguments_rule(ctx, run)
