"""C20 - clamps, the Whalley-Wilmott band and small helpers follow their formulas.
R1 clamp / leaky_clamp by enumeration of the orderings of (input, min, max); R2 constructor options are used and documented
options exist; R3 Whalley-Wilmott forward/width; R4 svi_variance, bilerp, box_muller, realized_volatility.
Added after the seeded-defect rounds: R5 float bounds are not rounded to the default dtype; R6 module forwards keep no state; gamma is any real number in the width identity.
Third round: R7 Clamp / LeakyClamp / SVIVariance / WhalleyWilmott keep the configuration they were created with.
Round 7: R3 the band of WhalleyWilmott.forward is compared with the documented half-width formula itself, whether or not it goes through ww_width.
Round 9: R3 call history 'cost sweep' on one WhalleyWilmott module (evaluate, change the underlier's cost rate, evaluate again)."""
import ast
import re

import sympy as sp

from .. import entrypoints as E
from .. import world as W
from ..algebra import ToSympy
from ..equiv import same
from ..interp import Obj, Unsupported
from ..report import AnalysisError, Finding, single
from ..term import Op, Sym, is_num, walk
from ..units import ONE, POLY, U, UnitChecker

M = "pfhedge.nn.modules."


def decide_sign(e):
    e = sp.factor(sp.simplify(e))
    if e == 0:
        return 0
    if e.is_positive:
        return 1
    if e.is_negative:
        return -1
    if e.is_nonnegative:
        return 1  # ties: both operands equal where e == 0
    if e.is_nonpositive:
        return -1
    return None


class Undecided(Exception):
    pass


def ev(t, env):
    if is_num(t):
        return sp.nsimplify(t)
    if isinstance(t, Sym):
        return env[t.name]
    op, a = t.op, t.args
    if op in ("to", "as_tensor", "clone", "contiguous", "detach"):
        return ev(a[0], env)
    if op in ("new_tensor",) and len(a) > 1:
        return ev(a[1], env)  # value of the copied data (the graph is C14's business)
    if op in ("zeros_like", "ones_like", "full_like", "new_zeros", "new_ones"):
        return sp.Integer(0) if "zeros" in op else sp.Integer(1) if "ones" in op else ev(a[1], env)
    if op in ("add", "sub", "mul", "div"):
        x, y = ev(a[0], env), ev(a[1], env)
        return {"add": x + y, "sub": x - y, "mul": x * y, "div": x / y}[op]
    if op in ("maximum", "minimum"):
        x, y = ev(a[0], env), ev(a[1], env)
        s = decide_sign(x - y)
        if s is None:
            raise Undecided(f"{op}: sign of {sp.factor(x - y)}")
        return x if (s >= 0) == (op == "maximum") else y
    if op in ("le", "lt", "ge", "gt"):
        s = decide_sign(ev(a[0], env) - ev(a[1], env))
        if s is None:
            raise Undecided(op)
        e_strict = sp.simplify(ev(a[0], env) - ev(a[1], env)) == 0
        return {"le": s <= 0 or e_strict, "lt": s < 0 and not e_strict, "ge": s >= 0 or e_strict, "gt": s > 0 and not e_strict}[op]
    if op == "where":
        return ev(a[1], env) if ev(a[0], env) else ev(a[2], env)
    if op == "clamp":  # operator-table fact for torch.clamp incl. inverted bounds
        kw = t.kwd()
        x = ev(a[0], env)
        lo = ev(a[1], env) if len(a) > 1 and a[1] is not None else (ev(kw["min"], env) if kw.get("min") is not None else None)
        hi = ev(a[2], env) if len(a) > 2 and a[2] is not None else (ev(kw["max"], env) if kw.get("max") is not None else None)
        if lo is not None and hi is not None and decide_sign(lo - hi) == 1 and sp.simplify(lo - hi) != 0:
            return hi
        if lo is not None and decide_sign(x - lo) == -1:
            x = lo
        if hi is not None and decide_sign(x - hi) == 1:
            x = hi
        return x
    raise NotImplementedError(op)


p1, p2 = sp.symbols("p1 p2", positive=True)
q = sp.Symbol("q", nonnegative=True)
x_ = sp.Symbol("x", real=True)
slope = q / (1 + q)
ORDERINGS = {
    "x<lo<hi": (x_ + p1, x_ + p1 + p2, "below"), "x<lo=hi": (x_ + p1, x_ + p1, "below"), "lo<x<hi": (x_ - p1, x_ + p2, "inside"),
    "lo=x<hi": (x_, x_ + p2, "inside"), "lo<x=hi": (x_ - p1, x_, "inside"), "lo<hi<x": (x_ - p1 - p2, x_ - p1, "above"),
    "hi<lo, x below": (x_ + p1 + p2, x_ + p1, "inverted"), "hi<lo, x between": (x_ + p1, x_ - p2, "inverted"), "hi<lo, x above": (x_ - p1, x_ - p1 - p2, "inverted"),
}


def check(ctx, run):
    prog, interp = ctx.prog, ctx.interp
    run.trusted += ["torch.clamp(x, min, max) returns max where min > max", "sign decisions on products of positive symbols (sympy)"]
    run.assumptions += ["0 <= clamped_slope < 1"]
    run.require("C20.R1", 36)
    X, LO, HI, SL = [W.tensor(n) for n in ("x", "lo", "hi", "slope")]
    for fn, s_val in (("leaky_clamp", slope), ("clamp", sp.Integer(0))):
        fi = E.functional(ctx, fn)
        run.functions.add(fi.qualname)
        for mode in ("mean", "max"):
            kw = dict(input=X, min=LO, max=HI, inverted_output=mode)
            if fn == "leaky_clamp":
                kw["clamped_slope"] = SL
            res = [r for r in interp.explore(fi, [], kw) if not r["raises"]]
            if len(res) != 1:
                raise AnalysisError(f"{fn}({mode}): expected one path")
            for name, (lo, hi, region) in ORDERINGS.items():
                env = {"x": x_, "lo": lo, "hi": hi, "slope": s_val}
                want = {"below": lo + s_val * (x_ - lo), "inside": x_, "above": hi + s_val * (x_ - hi), "inverted": (lo + hi) / 2 if mode == "mean" else hi}[region]
                try:
                    got = ev(res[0]["value"], env)
                except Undecided as ex:
                    # the value depends on a comparison the documented formula does not have: look for an exact rational witness
                    import itertools
                    wit = None
                    for xv, a1, a2, qv in itertools.product((-2, 0, 3), (sp.Rational(1, 2), 2), (sp.Rational(1, 3), 5), (0, sp.Rational(1, 4), sp.Rational(9, 10))):
                        pt = {x_: xv, p1: a1, p2: a2, q: qv}
                        envn = {k_: sp.sympify(v_).subs(pt) for k_, v_ in env.items()}
                        try:
                            g_ = ev(res[0]["value"], envn)
                        except Undecided:
                            continue
                        if sp.simplify(g_ - sp.sympify(want).subs(pt)) != 0:
                            wit = (pt, g_, sp.sympify(want).subs(pt))
                            break
                    if wit is None:
                        raise AnalysisError(f"{fn}({mode}) ordering {name}: {ex}")
                    msg = f"[{mode}] ordering {name}: at x={wit[0][x_]}, gaps {wit[0][p1]}, {wit[0][p2]}, slope {wit[0][q]} the value is {wit[1]} (documented {wit[2]})"
                    run.oblige("C20.R1", f"{fn}[{mode}] {name}", False, msg)
                    run.fail(Finding("C20.R1", fi.qualname, msg, "clamp value differs from the documented piecewise definition", file=str(prog.modules[fi.module].path), line=fi.node.lineno, case=f"{mode},{name}"))
                    continue
                ok = sp.simplify(got - want) == 0
                run.oblige("C20.R1", f"{fn}[{mode}] {name}", ok, f"{sp.simplify(got)} (documented {sp.simplify(want)})",
                           sample={"rule": "C20.R1", "function": fn, "mode": mode, "ordering": name, "value": str(sp.simplify(got))})
                if not ok:
                    run.fail(Finding("C20.R1", fi.qualname, f"[{mode}] ordering {name}: {sp.simplify(got)} (documented {sp.simplify(want)})", "clamp value differs from the documented piecewise definition",
                                     file=str(prog.modules[fi.module].path), line=fi.node.lineno, case=f"{mode},{name}"))
        # default mode: the mean of the bounds unless the caller asks for the upper bound
        kw_d = dict(input=X, min=LO, max=HI, **({"clamped_slope": SL} if fn == "leaky_clamp" else {}))
        res_d = [r for r in interp.explore(fi, [], kw_d) if not r["raises"]]
        res_m = [r for r in interp.explore(fi, [], dict(kw_d, inverted_output="mean")) if not r["raises"]]
        okd = len(res_d) == 1 and len(res_m) == 1 and res_d[0]["value"] == res_m[0]["value"]
        run.oblige("C20.R1", f"{fn}: inverted_output defaults to 'mean'", okd, "")
        if not okd:
            run.fail(Finding("C20.R1", fi.qualname, f"{fn}(input, min, max) differs from {fn}(input, min, max, inverted_output='mean')", "inverted bounds give the mean of the bounds unless configured otherwise",
                             file=str(prog.modules[fi.module].path), line=fi.node.lineno, case="default"))
        # unknown mode raises
        res = interp.explore(fi, [], dict(input=X, min=LO, max=HI, inverted_output="bogus", **({"clamped_slope": SL} if fn == "leaky_clamp" else {})))
        ok = all(r["raises"] for r in res)
        run.oblige("C20.R1", f"{fn}: unknown inverted_output raises", ok, "")
        if not ok:
            run.fail(Finding("C20.R1", fi.qualname, "inverted_output not in {'mean','max'}", "an unknown mode must be rejected", file=str(prog.modules[fi.module].path), line=fi.node.lineno))
    # ---- R2 constructor options stored => used in forward; documented => accepted
    run.require("C20.R2", 4)
    for cq in (M + "clamp.LeakyClamp", M + "clamp.Clamp", M + "svi.SVIVariance", M + "ww.WhalleyWilmott"):
        ci = prog.classes.get(cq)
        if ci is None:
            raise AnalysisError(f"anchor vanished: {cq}")
        init = ci.methods.get("__init__")
        stored = []
        params = []
        if init is not None:
            params = [a.arg for a in init.node.args.args[1:]]
            for n in ast.walk(init.node):
                if isinstance(n, ast.Assign):
                    for t in n.targets:
                        if isinstance(t, ast.Attribute) and isinstance(t.value, ast.Name) and t.value.id == "self":
                            stored.append(t.attr)
        used = set()
        for name, m in ci.methods.items():
            if name in ("__init__", "extra_repr", "__repr__"):
                continue
            for n in ast.walk(m.node):
                if isinstance(n, ast.Attribute) and isinstance(n.value, ast.Name) and n.value.id == "self" and isinstance(n.ctx, ast.Load):
                    used.add(n.attr)
        unused = [s for s in stored if s not in used]
        if unused:
            # no `self.<name>` is read in the class's own methods: the options may reach the computation through a base class or by name
            # (getattr over a table of option names). Decided on the interpreted forward: an option is used iff its value occurs in what
            # forward returns or in the arguments of a call it makes
            fw_ = prog.lookup_method(cq, "forward")
            if fw_ is None:
                raise AnalysisError(f"anchor vanished: {cq}.forward")
            probe = Obj(cq, "m", {a_: Sym(f"m.{a_}", ("str",) if a_ == "inverted_output" else ("float",)) for a_ in stored})
            targs = [W.tensor(a_.arg) for a_ in fw_.node.args.args[1:]]
            try:
                res_ = [r_ for r_ in interp.explore(fw_, targs, {}, self_obj=probe, max_paths=60)]
            except Unsupported as ex:
                raise AnalysisError(f"{cq}.forward: {ex}")
            seen = set()
            for r_ in res_:
                terms_ = [r_["value"]] + [c_ for c_, _, _ in r_["cond"]]
                for e_ in r_["events"]:
                    terms_ += list(e_.get("args", []) or []) + list((e_.get("kwargs") or {}).values())
                    if e_["kind"] == "guard":
                        terms_.append(e_.get("cond"))
                for t_ in terms_:
                    if isinstance(t_, (Op, Sym, list, tuple)):
                        seen |= {x_.name for x_ in walk(t_) if isinstance(x_, Sym)}
            unused = [a_ for a_ in unused if f"m.{a_}" not in seen]
        doc = ast.get_docstring(ci.node) or ""
        sec = doc.split("Args:")[1] if "Args:" in doc else ""
        sec = re.split(r"\n\s*\n(?=\S)|\n(?=[A-Z][a-z]+:)", sec)[0]
        documented = re.findall(r"^\s*(\w+) \(", sec, re.M)
        missing = [d for d in documented if d not in params]
        ok = not unused and not missing
        detail = "; ".join(([f"stored but never read by the computation: {unused}"] if unused else []) + ([f"documented but not accepted by the constructor: {missing}"] if missing else []))
        run.oblige("C20.R2", cq.rsplit(".", 1)[-1], ok, detail or f"options {stored} used")
        if not ok:
            run.fail(Finding("C20.R2", cq, detail, "a configured or documented option has no effect", file=str(prog.modules[ci.module].path), line=ci.node.lineno))
    # module forwards reach the functional with the configured options
    lc = Obj(M + "clamp.LeakyClamp", "lc", {"clamped_slope": SL, "inverted_output": Sym("lc.inverted_output", ("str",))})
    fwd = prog.lookup_method(lc.cls, "forward")
    res = [r for r in interp.explore(fwd, [X, LO, HI], {}, self_obj=lc, max_paths=50)]
    calls = [e for r in res for e in r["events"] if e["kind"] == "call" and e["callee"] == E.F + "leaky_clamp"]
    ok = bool(calls) and all(e["kwargs"].get("clamped_slope") == SL and e["kwargs"].get("inverted_output") == Sym("lc.inverted_output", ("str",)) for e in calls)
    run.oblige("C20.R2", "LeakyClamp.forward passes clamped_slope and inverted_output", ok, str([{k: str(v) for k, v in e["kwargs"].items()} for e in calls][:1]))
    if not ok:
        run.fail(Finding("C20.R2", fwd.qualname, "leaky_clamp(input, min, max, clamped_slope=self.clamped_slope, inverted_output=self.inverted_output)", "the module does not honour its configuration",
                         file=str(prog.modules[fwd.module].path), line=fwd.node.lineno))
    for cq, fn in ((M + "clamp.LeakyClamp", "leaky_clamp"), (M + "clamp.Clamp", "clamp")):
        o = Obj(cq, "m", {"clamped_slope": SL, "inverted_output": Sym("m.inverted_output", ("str",))})
        fw = prog.lookup_method(cq, "forward")
        res = [r for r in interp.explore(fw, [X, LO, HI], {}, self_obj=o, max_paths=50)]
        calls = [e for r in res for e in r["events"] if e["kind"] == "call" and e["callee"] == E.F + fn and not e["fn"].startswith(E.F)]   # from the module (forward or a helper), not from inside the functional layer
        params = [a.arg for a in prog.functions[E.F + fn].node.args.args]
        okm = bool(calls)
        for e in calls:
            a = dict(e["kwargs"])
            for pn, v in zip(params, e["args"]):
                a[pn] = v
            okm = okm and a.get("input") == X and a.get("min") == LO and a.get("max") == HI
        run.oblige("C20.R2", f"{cq.rsplit('.', 1)[-1]}.forward forwards input, min, max unchanged", okm, "")
        if not okm:
            run.fail(Finding("C20.R2", fw.qualname, f"{fn}(input, min=min, max=max, ...)", "the module does not clamp its input between the given bounds", file=str(prog.modules[fw.module].path), line=fw.node.lineno))
    # ---- R3 Whalley-Wilmott
    run.require("C20.R3", 3)
    fi = E.functional(ctx, "ww_width")
    g, S_, c_, a_ = [W.tensor(n) for n in ("gamma", "spot", "cost", "a")]
    val = single(interp.explore(fi, [], dict(gamma=g, spot=S_, cost=c_, a=a_)))["value"]
    ts = ToSympy(assume_positive={"spot", "cost", "a"})  # gamma is any real number: European binaries have negative gamma above the strike
    e = ts.conv(val)
    want = (sp.Rational(3, 2) * ts.sym("cost") * ts.sym("gamma") ** 2 * ts.sym("spot") / ts.sym("a")) ** sp.Rational(1, 3)
    ok = sp.simplify(e - want) == 0
    run.oblige("C20.R3", "ww_width == (3 c gamma^2 S / (2 a))^(1/3)", ok, str(e))
    uc = UnitChecker({"gamma": U(0, -1), "spot": U(0, 1), "cost": ONE, "a": U(0, -1)})
    got = uc.of(val, True)
    oku = not uc.errors and (got == POLY or got == ONE)
    run.oblige("C20.R3", "ww_width has the unit of a hedge ratio", oku, f"unit {got}")
    if not (ok and oku):
        run.fail(Finding("C20.R3", fi.qualname, f"{e} ; unit {got}", "half-width differs from (3 c gamma^2 S / (2a))^(1/3)", file=str(prog.modules[fi.module].path), line=fi.node.lineno))
    # forward: clamp(prev_hedge, delta - width, delta + width)
    ww = Obj(M + "ww.WhalleyWilmott", "ww", {"a": a_, "bs": Sym("ww.bs", ("callable",))})
    ww.attrs["derivative"] = Obj("pfhedge.instruments.derivative.european.EuropeanOption", "deriv", {"strike": W.fl("K")})
    fwd = prog.lookup_method(ww.cls, "forward")
    inp = W.tensor("input")
    try:
        res = [r for r in interp.explore(fwd, [inp], {}, self_obj=ww) if not r["raises"]]
    except Unsupported as ex:
        raise AnalysisError(f"WhalleyWilmott.forward: {ex}")
    v = res[0]["value"] if res else None
    prev = Op("index", (inp, (Ellipsis, [-1])))
    feats = Op("index", (inp, (Ellipsis, slice(None, -1, None))))
    okf = isinstance(v, Op) and v.op == "clamp" and same(v.args[0], prev)
    if okf:
        kw = v.kwd()
        lo = kw.get("min", v.args[1] if len(v.args) > 1 else None)
        hi = kw.get("max", v.args[2] if len(v.args) > 2 else None)
        dcalls = [e for e in res[0]["events"] if e["kind"] == "opaque_call" and e["callee"] == Sym("ww.bs", ("callable",))]
        # the gamma the width is computed from: the pricing module's gamma (whether the width goes through ww_width or is written out in place
        # makes no difference: the band itself is compared with the documented formula)
        gammas = []
        for t_ in (list(walk(lo)) + list(walk(hi))) if lo is not None and hi is not None else []:
            if isinstance(t_, Op) and t_.op == "gamma" and t_.args and t_.args[0] == Sym("ww.bs", ("callable",)) and t_ not in gammas:
                gammas.append(t_)
        okf = lo is not None and hi is not None and len(gammas) == 1 and len(dcalls) >= 1
        if okf:
            delta = Op("call", (Sym("ww.bs", ("callable",)), feats))
            spot_ = Op("mul", (W.fl("K"), Op("exp", (Op("index", (feats, (Ellipsis, [0]))),))))
            cost_ = next((t_ for t_ in walk(hi) if isinstance(t_, Sym) and t_.name == "deriv.ul.cost"), None)
            okf = cost_ is not None
            # the band is centred at delta: (lo + hi) / 2 == delta, and it is not empty
            okf = okf and same(Op("add", (lo, hi)), Op("mul", (2, delta)), keep_shape_ops=False)
            okf = okf and not same(lo, hi, keep_shape_ops=False)
            # its half-width is (3 c gamma^2 S / (2 a))^(1/3) with S = K e^s, c the underlier's cost and a the module's risk aversion
            if okf:
                from fractions import Fraction
                width_ = Op("pow", (Op("div", (Op("mul", (Op("mul", (Op("mul", (cost_, Fraction(3, 2))), Op("square", (gammas[0],)))), spot_)), a_)), Fraction(1, 3)))
                okf = same(Op("sub", (hi, lo)), Op("mul", (2, width_)), keep_shape_ops=False)
    # ... for the CURRENT cost of the underlier: evaluate, change the cost rate, evaluate again on the same module (a cost sweep) - the second band
    # is computed from the new rate (band constants remembered on the module under a key without the cost are not)
    from ..source import FuncInfo as _FI
    drv = _FI("synthetic.ww_cost_sweep", fwd.module, ast.parse("def history(ww, x, c2):\n    w1 = ww(x)\n    ww.derivative.underlier.cost = c2\n    w2 = ww(x)\n    return w1, w2\n").body[0])
    ww2 = Obj(M + "ww.WhalleyWilmott", "ww", {"a": a_, "bs": Sym("ww.bs", ("callable",))})
    ww2.attrs["derivative"] = Obj("pfhedge.instruments.derivative.european.EuropeanOption", "deriv", {"strike": W.fl("K")})
    c2 = W.fl("new_cost")
    try:
        hres = [r_ for r_ in interp.explore(drv, [ww2, inp, c2], {}, max_paths=40) if not r_["raises"]]
    except Unsupported as ex:
        raise AnalysisError(f"WhalleyWilmott cost sweep: {ex}")
    if not hres:
        raise AnalysisError("WhalleyWilmott cost sweep: no non-raising path")
    stale = []
    for r_ in hres:
        w1_, w2_ = r_["value"]
        n1 = {x_.name for x_ in walk(w1_) if isinstance(x_, Sym)}
        n2 = {x_.name for x_ in walk(w2_) if isinstance(x_, Sym)}
        if "new_cost" not in n2:
            stale.append("after underlier.cost = new_cost the band does not depend on new_cost")
        if any(n_.endswith(".cost") for n_ in n2):
            stale.append("after underlier.cost = new_cost the band is still computed from the old cost rate")
    stale = sorted(set(stale))
    run.oblige("C20.R3", "WhalleyWilmott: history 'cost sweep' (evaluate, change the cost rate, evaluate again)", not stale, "; ".join(stale))
    if stale:
        run.fail(Finding("C20.R3", fwd.qualname, "history 'cost sweep': " + "; ".join(stale), "the no-transaction band is computed from a cost rate that is no longer the underlier's",
                         file=str(prog.modules[fwd.module].path), line=fwd.node.lineno, case="cost sweep"))
    run.oblige("C20.R3", "WhalleyWilmott.forward == clamp(prev_hedge, delta - width, delta + width)", okf, str(v)[:200])
    if not okf:
        run.fail(Finding("C20.R3", fwd.qualname, str(v)[:200], "the no-transaction band is not [delta - width, delta + width] around the Black-Scholes delta with width(gamma, K e^s, cost, a)",
                         file=str(prog.modules[fwd.module].path), line=fwd.node.lineno))
    # ---- R4 helpers
    run.require("C20.R4", 4)
    fi = E.functional(ctx, "svi_variance")
    k, a, b, rho, m, sg = [W.tensor(n) for n in ("k", "a", "b", "rho", "m", "sigma")]
    val = single(interp.explore(fi, [], dict(input=k, a=a, b=b, rho=rho, m=m, sigma=sg)))["value"]
    ts = ToSympy()
    e = ts.conv(val)
    sy = {n: ts.sym(n) for n in ("k", "a", "b", "rho", "m", "sigma")}
    want = sy["a"] + sy["b"] * (sy["rho"] * (sy["k"] - sy["m"]) + sp.sqrt((sy["k"] - sy["m"]) ** 2 + sy["sigma"] ** 2))
    ok = sp.simplify(e - want) == 0
    run.oblige("C20.R4", "svi_variance", ok, str(e))
    if not ok:
        run.fail(Finding("C20.R4", fi.qualname, str(e), "differs from a + b(rho(k-m) + sqrt((k-m)^2 + sigma^2))", file=str(prog.modules[fi.module].path), line=fi.node.lineno))
    svi = Obj(M + "svi.SVIVariance", "svi", {n: W.tensor("p_" + n) for n in ("a", "b", "rho", "m", "sigma")})
    fwd = prog.lookup_method(svi.cls, "forward")
    res = interp.explore(fwd, [k], {}, self_obj=svi)
    calls = [e for r in res for e in r["events"] if e["kind"] == "call" and e["callee"] == E.F + "svi_variance"]
    ok = len(calls) == 1 and all(calls[0]["kwargs"].get(n) == W.tensor("p_" + n) for n in ("a", "b", "rho", "m", "sigma")) and calls[0]["args"][:1] == [k]
    run.oblige("C20.R4", "SVIVariance.forward forwards all five parameters", ok, "")
    if not ok:
        run.fail(Finding("C20.R4", fwd.qualname, "svi_variance(input, a=self.a, b=self.b, rho=self.rho, m=self.m, sigma=self.sigma)", "module does not forward its parameters", file=str(prog.modules[fwd.module].path), line=fwd.node.lineno))
    fi = E.functional(ctx, "bilerp")
    i1, i2, i3, i4, w1, w2 = [W.tensor(n) for n in ("i1", "i2", "i3", "i4", "w1", "w2")]
    val = single(interp.explore(fi, [i1, i2, i3, i4, w1, w2], {}))["value"]

    def lerp_hook(ts_, t):
        if isinstance(t, Op) and t.op == "lerp":
            x0, x1, w = [ts_.conv(z) for z in t.args]
            return x0 + w * (x1 - x0)
        return None

    ts = ToSympy(hooks=[lerp_hook])
    e = ts.conv(val)
    s_ = {n: ts.sym(n) for n in ("i1", "i2", "i3", "i4", "w1", "w2")}
    want = (1 - s_["w1"]) * (1 - s_["w2"]) * s_["i1"] + s_["w1"] * (1 - s_["w2"]) * s_["i2"] + (1 - s_["w1"]) * s_["w2"] * s_["i3"] + s_["w1"] * s_["w2"] * s_["i4"]
    ok = sp.expand(e - want) == 0
    run.oblige("C20.R4", "bilerp", ok, str(sp.expand(e)))
    if not ok:
        run.fail(Finding("C20.R4", fi.qualname, str(sp.expand(e)), "differs from the bilinear interpolation formula", file=str(prog.modules[fi.module].path), line=fi.node.lineno))
    fi = E.functional(ctx, "box_muller")
    u1, u2 = W.tensor("u1"), W.tensor("u2")
    val = single(interp.explore(fi, [u1, u2], {}))["value"]
    ts = ToSympy(assume_positive={"u1", "u2"})
    o1, o2 = ts.conv(val[0]), ts.conv(val[1])
    U1, U2 = ts.sym("u1"), ts.sym("u2")
    eps = sp.nsimplify(1e-10, rational=True)
    r_ = sp.sqrt(-2 * sp.log(sp.Max(U1, eps)))
    ok = sp.simplify(o1 - r_ * sp.cos(2 * sp.pi * U2)) == 0 and sp.simplify(o2 - r_ * sp.sin(2 * sp.pi * U2)) == 0
    run.oblige("C20.R4", "box_muller", ok, f"{o1} ; {o2}")
    if not ok:
        run.fail(Finding("C20.R4", fi.qualname, f"{o1} ; {o2}", "differs from (r cos 2 pi u2, r sin 2 pi u2), r = sqrt(-2 log max(u1, eps))", file=str(prog.modules[fi.module].path), line=fi.node.lineno))
    fi = E.functional(ctx, "realized_volatility")
    val = single(interp.explore(fi, [], dict(input=W.tensor("S"), dt=W.fl("dt"))))["value"]
    calls = [e for r in interp.explore(fi, [], dict(input=W.tensor("S"), dt=W.fl("dt"))) for e in r["events"] if e["kind"] == "call" and e["callee"] == E.F + "realized_variance"]
    ok = isinstance(val, Op) and val.op == "sqrt" and len(calls) == 1
    run.oblige("C20.R4", "realized_volatility == sqrt(realized_variance)", ok, str(val)[:100])
    if not ok:
        run.fail(Finding("C20.R4", fi.qualname, str(val)[:100], "realized volatility must be the square root of realized variance", file=str(prog.modules[fi.module].path), line=fi.node.lineno))


def precision_rule(ctx, run):
    """R5: scalar bounds given as Python floats are used at the precision of the input: `torch.as_tensor(min)` without dtype makes a float32
    0-dim tensor, so clamp(float64 x, min=0.1) returns 0.10000000149011612."""
    from ..precision import lossy
    from .. import entrypoints as E
    from .. import world as W
    prog, interp = ctx.prog, ctx.interp
    run.require("C20.R5", 2)
    for fn, extra in (("leaky_clamp", dict(clamped_slope=W.fl("slope"), inverted_output="mean")), ("clamp", dict(inverted_output="mean"))):
        fi = E.functional(ctx, fn)
        res = interp.explore(fi, [], dict(input=W.tensor("x"), min=W.fl("min"), max=W.fl("max"), **extra), max_paths=20)
        bad = lossy(res, {"min", "max"})
        run.oblige("C20.R5", f"{fn}: float bounds are not rounded to the default dtype", not bad, "; ".join(bad) or "bounds converted in the dtype of the input")
        if bad:
            run.fail(Finding("C20.R5", fi.qualname, "; ".join(bad), "a Python-float bound is rounded to float32 before it is compared with float64 data: the clamped value is not the bound that was asked for",
                             file=str(prog.modules[fi.module].path), line=fi.node.lineno, witness="clamp(torch.tensor([0.], dtype=float64), min=0.1) = 0.10000000149011612"))


def module_purity_rule(ctx, run):
    """R6: the clamp / SVI / Whalley-Wilmott modules are functions of their inputs and their configuration: forward() leaves nothing on the
    module (a memoised bound or parameter tensor keeps the dtype of the first call and is silently up-cast for the next one)."""
    from ..purity import stores
    from ..interp import Obj, Unsupported
    from .. import world as W
    prog, interp = ctx.prog, ctx.interp
    M = "pfhedge.nn.modules."
    cases = [
        (M + "clamp.LeakyClamp", dict(clamped_slope=W.fl("slope"), inverted_output="mean"), [W.tensor("x"), W.fl("min"), W.fl("max")]),
        (M + "clamp.Clamp", dict(inverted_output="mean"), [W.tensor("x"), W.fl("min"), W.fl("max")]),
        (M + "svi.SVIVariance", dict(a=W.fl("a"), b=W.fl("b"), rho=W.fl("rho"), m=W.fl("m"), sigma=W.fl("sigma")), [W.tensor("x")]),
    ]
    run.require("C20.R6", 3)
    for cls, attrs, args in cases:
        fwd = prog.lookup_method(cls, "forward")
        if fwd is None:
            raise AnalysisError(f"anchor vanished: {cls}.forward")
        o = Obj(cls, cls.rsplit(".", 1)[-1].lower())  # attributes come from the constructor's own assignments where the probe does not set them
        o.attrs.update(attrs)
        try:
            res = interp.explore(fwd, list(args), {}, self_obj=o)
        except Unsupported as ex:
            raise AnalysisError(f"{cls}.forward: {ex}")
        st = stores(res)
        short = cls.rsplit(".", 1)[-1]
        run.oblige("C20.R6", f"{short}.forward keeps no state on the module", not st, "; ".join(st))
        if st:
            run.fail(Finding("C20.R6", fwd.qualname, f"{short}.forward: " + "; ".join(st), "what one call leaves on the module is read by the next call (other dtype, other device): the output is no longer the documented function of the inputs",
                             file=str(prog.modules[fwd.module].path), line=fwd.node.lineno))


_check_before_precision = check


def check(ctx, run):  # noqa: F811
    _check_before_precision(ctx, run)
    precision_rule(ctx, run)
    module_purity_rule(ctx, run)
    # R7: the modules keep the configuration they were created with (the analyses above read it from the attributes)
    from ..ctors import ctor_rule
    N_ = "pfhedge.nn.modules."
    ctor_rule(ctx, run, "C20.R7", [N_ + "clamp.Clamp", N_ + "clamp.LeakyClamp", N_ + "svi.SVIVariance", N_ + "ww.WhalleyWilmott"], None,
              "the module computes with another bound mode / slope / parameter / derivative / risk aversion than the one it was created with")
