"""Column-wise algebra of tensors with a time axis (prototype) — used for C01 / C12 / C10.R2.

A tensor value is modelled as Series(expr(j), length) where j is its own last-axis coordinate
and `length` = T + const, or Scalar(expr).  Base (N,H,T) series are sympy Functions of (h, j);
a reduction sum(dim=(-2,-1)) becomes RSUM(('H','T'), length, body) objects collected in a
linear normal form {key: body}.
"""
import sympy as sp

from .term import Op, Sym, Term, is_num

j = sp.Symbol("j", integer=True)
h = sp.Symbol("h", integer=True)
T = sp.Symbol("T", integer=True, positive=True)


class Series:
    def __init__(self, expr, length, axes=("H", "T")):
        self.expr, self.length, self.axes = expr, length, axes

    def __repr__(self):
        return f"Series[{self.length}]({self.expr})"


class Partial:
    """a (N,H,T) series summed over one of its two trailing axes; only a further sum (or a sign) may follow"""

    def __init__(self, expr, length, remaining):
        self.expr, self.length, self.remaining = expr, length, remaining


class Lin:
    """Linear normal form:  sum_k  RSUM(key_k, body_k)  +  scalar"""

    def __init__(self, sums=None, scalar=0):
        self.sums, self.scalar = dict(sums or {}), sp.nsimplify(scalar) if is_num(scalar) else scalar

    def scale(self, c):
        return Lin({k: sp.expand(c * v) for k, v in self.sums.items()}, sp.expand(c * self.scalar))

    def add(self, o, sign=1):
        s = dict(self.sums)
        for k, v in o.sums.items():
            s[k] = sp.expand(s.get(k, 0) + sign * v)
        return Lin(s, sp.expand(self.scalar + sign * o.scalar))

    def is_zero(self):
        return all(sp.simplify(v) == 0 for v in self.sums.values()) and sp.simplify(self.scalar) == 0

    def __repr__(self):
        return " + ".join([f"Σ{k}[{v}]" for k, v in self.sums.items() if sp.simplify(v) != 0] + ([str(self.scalar)] if self.scalar != 0 else [])) or "0"


class UnknownOperator(Exception):
    """an operator the column algebra has no meaning for: the analysis cannot decide (never a verdict)"""


class SeriesAlgebra:
    def __init__(self, bases, scalars=(), per_hedge=()):
        self.bases = {b: sp.Function(b) for b in bases}  # (N,H,T) series
        self.scalars = {s: sp.Symbol(s) for s in scalars}  # per-path scalars, e.g. payoff
        self.per_hedge = {c: sp.Function(c) for c in per_hedge}  # list[H] values, e.g. cost

    def ev(self, t):
        if is_num(t):
            return sp.nsimplify(t)
        if isinstance(t, Sym):
            if t.name in self.bases:
                return Series(self.bases[t.name](h, j), T)
            if t.name in self.scalars:
                return self.scalars[t.name]
            if t.name in self.per_hedge:
                return ("perhedge", self.per_hedge[t.name](h))
            raise KeyError(t.name)
        f = getattr(self, "s_" + t.op, None)
        if f is None:
            raise UnknownOperator(t.op)
        return f(t, *t.args)

    def s_index(self, t, x, idx):
        v = self.ev(x)
        items = idx if isinstance(idx, tuple) else (idx,)
        last = items[-1]
        if not isinstance(v, Series):
            raise NotImplementedError("index of non-series")
        if isinstance(last, slice):
            start = 0 if last.start is None else last.start
            stop = last.stop
            n = v.length - start if stop is None else (v.length + stop - start if stop < 0 else stop - start)
            return Series(v.expr.subs(j, j + start), n, v.axes)
        if isinstance(last, list) and len(last) == 1:
            k = last[0]
            col = v.length + k if k < 0 else k
            return Series(v.expr.subs(j, col), sp.Integer(1), v.axes)
        raise NotImplementedError(f"index {idx}")

    def s_diff(self, t, x, **kw):
        v = self.ev(x)
        return Series(v.expr.subs(j, j + 1) - v.expr, v.length - 1, v.axes)

    def s_abs(self, t, x):
        v = self.ev(x)
        return Series(sp.Abs(v.expr), v.length, v.axes)

    def binop(self, a, b, f):
        if isinstance(a, Partial) or isinstance(b, Partial):
            raise ValueError("arithmetic on a value reduced over one axis only")
        if isinstance(a, tuple) and a[0] == "perhedge":
            a = Series(a[1], sp.Integer(1), ("H",))
        if isinstance(b, tuple) and b[0] == "perhedge":
            b = Series(b[1], sp.Integer(1), ("H",))
        if isinstance(a, Series) and isinstance(b, Series):
            if sp.simplify(a.length - b.length) != 0 and a.length != 1 and b.length != 1:
                raise ValueError(f"length mismatch {a.length} vs {b.length}")
            n = a.length if a.length != 1 else b.length
            axes = a.axes if len(a.axes) >= len(b.axes) else b.axes
            return Series(f(a.expr, b.expr), n, axes)
        if isinstance(a, Series):
            return Series(f(a.expr, b), a.length, a.axes)
        if isinstance(b, Series):
            return Series(f(a, b.expr), b.length, b.axes)
        if isinstance(a, Lin) or isinstance(b, Lin):
            raise NotImplementedError
        return f(a, b)

    def s_mul(self, t, x, y):
        a, b = self.ev(x), self.ev(y)
        if isinstance(a, Lin) and not isinstance(b, (Series, Lin)):
            return a.scale(b)
        if isinstance(b, Lin) and not isinstance(a, (Series, Lin)):
            return b.scale(a)
        return self.binop(a, b, lambda p, q: p * q)

    def lin(self, v):
        if isinstance(v, Lin):
            return v
        if isinstance(v, Partial):
            raise ValueError(f"value reduced over one axis only (axis {v.remaining[0]} is left) in a per-path sum")
        if isinstance(v, Series):
            raise ValueError("unreduced series in a per-path sum")
        return Lin({}, v)

    def s_add(self, t, x, y, sign=1):
        a, b = self.ev(x), self.ev(y)
        if isinstance(a, Lin) or isinstance(b, Lin):
            return self.lin(a).add(self.lin(b), sign)
        return self.binop(a, b, lambda p, q: p + sign * q)

    def s_sub(self, t, x, y):
        return self.s_add(t, x, y, -1)

    def s_neg(self, t, x):
        a = self.ev(x)
        if isinstance(a, Partial):
            return Partial(-a.expr, a.length, a.remaining)
        return a.scale(-1) if isinstance(a, Lin) else Series(-a.expr, a.length, a.axes) if isinstance(a, Series) else -a

    def s_sum(self, t, x, *pos, **kw):
        v = self.ev(x)
        dim = t.kwd().get("dim", pos[0] if pos else None)
        dims = dim if isinstance(dim, tuple) else (dim,)
        if isinstance(v, Partial):
            # the second of two successive single-axis sums: the remaining axis is now the last one
            if dims not in ((-1,), (1,)) or len(v.remaining) != 1:
                raise NotImplementedError(f"sum over {dims} of a partially reduced value")
            return Lin({(("H", "T"), sp.simplify(v.length)): sp.expand(v.expr)}, 0)
        if isinstance(v, Series) and len(dims) == 1 and dims[0] in (-1, -2) and set(v.axes) == {"H", "T"}:
            return Partial(v.expr, v.length, ("H",) if dims[0] == -1 else ("T",))
        axes = tuple(sorted({-2: "H", -1: "T"}[d] for d in dims))
        if not isinstance(v, Series):
            raise NotImplementedError
        if "H" not in v.axes and "H" in axes:
            raise ValueError("sum over H of a value without an H axis")
        key = (axes, sp.simplify(v.length))
        return Lin({key: sp.expand(v.expr)}, 0)

    def s_to(self, t, x, *r):
        return self.ev(x)

    def s_tensor(self, t, x, *r):
        return self.ev(x)

    s_as_tensor = s_tensor

    def s_new_tensor(self, t, x, data, *r):
        return self.ev(data)  # x.new_tensor(data): the values of `data` in the dtype of x

    def s_unsqueeze(self, t, x, d):
        v = self.ev(x)
        return v  # axis bookkeeping of the cost vector is the shape domain's job

    s_mulm = s_mul
