"""Termination of recursion (C10.R5 / C19.R2) and boundedness of while loops (C19.R3)."""
import ast

from .report import AnalysisError, Finding
from .term import Op, Sym, Term, is_num, walk


def self_recursive_functions(prog):
    out = []
    for q, fi in prog.functions.items():
        name = fi.node.name
        for n in ast.walk(fi.node):
            if isinstance(n, ast.Call) and isinstance(n.func, ast.Name) and n.func.id == name and fi.cls is None:
                if prog.resolve_name(fi.module, name) == q:
                    out.append(fi)
                    break
    return out


def simp(t):
    """strip casts and neutral elements so that sigma(sigma(x)) can be compared with sigma(x)"""
    if isinstance(t, (tuple, list)):
        return tuple(simp(x) for x in t)
    if not isinstance(t, Op):
        return float(t) if is_num(t) else t
    a = [simp(x) for x in t.args]
    if t.op in ("to", "as_tensor"):
        return a[0]
    if t.op in ("sub", "add") and is_num(a[1]) and a[1] == 0:
        return a[0]
    if t.op == "add" and is_num(a[0]) and a[0] == 0:
        return a[1]
    if t.op == "neg" and isinstance(a[0], Op) and a[0].op == "neg":
        return a[0].args[0]
    return Op(t.op, tuple(a), t.kw)


def contradictory(conds):
    """all(gt(a,b)) together with all(gt(neg a, neg b))  (or lt variants) cannot both hold"""
    pos = [c for c, d, _ in conds if d]
    def core(c):
        if isinstance(c, Op) and c.op == "all":
            c = c.args[0]
        return c
    FLIP = {"gt": "lt", "lt": "gt", "ge": "le", "le": "ge"}

    def normal(op, a, b):
        """orient every comparison as  p > q  /  p >= q;  -p < -q  is  p > q"""
        a, b = simp(a), simp(b)
        if isinstance(a, Op) and a.op == "neg" and isinstance(b, Op) and b.op == "neg":
            a, b, op = simp(a.args[0]), simp(b.args[0]), FLIP[op]
        if op in ("lt", "le"):
            a, b, op = b, a, FLIP[op]
        return op, a, b  # a > b or a >= b

    rel = []
    for c in pos:
        c = core(c)
        if isinstance(c, Op) and c.op in FLIP and len(c.args) == 2:
            rel.append(normal(c.op, c.args[0], c.args[1]))
    for op1, a1, b1 in rel:
        for op2, a2, b2 in rel:
            # a > b together with b > a (or b >= a) cannot hold
            if a1 == b2 and b1 == a2 and "gt" in (op1, op2):
                return True
    return False


def check_recursion(ctx, run, rule, fi, kwargs, self_obj=None):
    """interpret fi; report a recursive call that re-enters in the same abstract state"""
    prog, interp = ctx.prog, ctx.interp
    res = interp.explore(fi, [], kwargs, self_obj=self_obj, max_paths=200)
    first = [e for r in res for e in r["events"] if e["kind"] == "call" and e["callee"] == fi.qualname]
    bad = []
    feasible_recursions = 0
    for r in res:
        recs = [e for e in r["events"] if e["kind"] == "recursion" and e["callee"] == fi.qualname]
        if not recs:
            continue
        if contradictory(r["cond"]):
            continue
        feasible_recursions += 1
        lvl1 = [e for e in r["events"] if e["kind"] == "call" and e["callee"] == fi.qualname]
        if not lvl1:
            continue
        a1 = {k: simp(v) for k, v in lvl1[0]["kwargs"].items()}
        a2 = {k: simp(v) for k, v in recs[0]["kwargs"].items()}
        same = all(a1.get(k) == a2.get(k) for k in set(a1) | set(a2) if isinstance(a1.get(k), (Term, tuple, float, int)) or isinstance(a2.get(k), (Term, tuple, float, int)))
        if same:
            guard = [str(c)[:80] for c, d, _ in r["cond"] if d]
            bad.append((guard, {k: str(v)[:60] for k, v in a2.items() if k in ("init_state", "theta", "target", "dim")}))
    ok = not bad
    n_paths = len(res)
    run.oblige(rule, fi.qualname, ok, f"{n_paths} paths, {feasible_recursions} feasible second-level recursions; " + (f"re-enters with identical arguments under {bad[0][0]}" if bad else "every recursive call leaves the guarded state"),
               sample={"rule": rule, "function": fi.qualname, "paths": n_paths, "second_level_recursions": feasible_recursions, "fixed_point": bool(bad)})
    if bad:
        run.fail(Finding(rule, fi.qualname, f"recursive call with {bad[0][1]} under guard {bad[0][0]}", "the recursive call re-enters with the same arguments while its guard still holds: unbounded recursion",
                         file=str(prog.modules[fi.module].path), line=fi.node.lineno))
    return ok


def check_while_bounded(prog, run, rule):
    n = 0
    for q, fi in prog.functions.items():
        for w in ast.walk(fi.node):
            if not isinstance(w, ast.While):
                continue
            n += 1
            if any(isinstance(y_, (ast.Yield, ast.YieldFrom)) for y_ in ast.walk(w)):
                # the loop of a generator runs one step per element its consumer asks for: it is as bounded as its consumers are - every
                # `for` over a call of this generator must take a bounded slice of it (next() takes one element)
                users, unbounded = 0, []
                for q2, fi2 in prog.functions.items():
                    for f_ in ast.walk(fi2.node):
                        if isinstance(f_, (ast.For, ast.comprehension)) and any(isinstance(c_, ast.Call) and isinstance(c_.func, ast.Name) and c_.func.id == fi.node.name for c_ in ast.walk(f_.iter)):
                            users += 1
                            it_ = f_.iter
                            sliced = isinstance(it_, ast.Call) and ast.unparse(it_.func).split(".")[-1] == "islice" and len(it_.args) >= 2
                            zipped = isinstance(it_, ast.Call) and ast.unparse(it_.func) == "zip" and any(isinstance(a_, ast.Call) and ast.unparse(a_.func) == "range" for a_ in it_.args)
                            if not (sliced or zipped):
                                unbounded.append(q2)
                bounded = not unbounded
                run.oblige(rule, f"{q}: generator loop while {ast.unparse(w.test)[:40]}", bounded, f"{users} consuming loops, all over a bounded slice" if bounded else f"consumed without a bound in {unbounded}")
                if not bounded:
                    run.fail(Finding(rule, q, f"generator loop consumed without a bound in {', '.join(unbounded)}", "loop without an iteration bound: may not terminate",
                                     file=str(prog.modules[fi.module].path), line=w.lineno))
                continue
            counters = {s.target.id for s in w.body if isinstance(s, ast.AugAssign) and isinstance(s.target, ast.Name) and isinstance(s.op, ast.Add)}
            bounded = False
            for s in ast.walk(w):
                if isinstance(s, ast.If) and any(isinstance(x, (ast.Raise, ast.Break)) for x in s.body):
                    names = {x.id for x in ast.walk(s.test) if isinstance(x, ast.Name)}
                    if names & counters:
                        bounded = True
            run.oblige(rule, f"{q}: while {ast.unparse(w.test)[:60]}", bounded, f"counters {sorted(counters)}")
            if not bounded:
                run.fail(Finding(rule, q, f"while {ast.unparse(w.test)}", "loop without an iteration counter guarded by raise/break: may not terminate",
                                 file=str(prog.modules[fi.module].path), line=w.lineno))
    return n
