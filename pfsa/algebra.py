"""Pointwise Term -> sympy bridge (prototype): casts and shape ops are transparent."""
import sympy as sp

from .term import Op, Sym, Term, is_num

ncdf = sp.Function("ncdf")
npdf = sp.Function("npdf")
z = sp.Symbol("z", real=True)      # standard normal innovation of the current step
u = sp.Symbol("u", positive=True)  # uniform(0,1) innovation of the current step

TRANSPARENT = {"to", "as_tensor", "unsqueeze", "squeeze", "expand", "view", "float", "double", "tensor", "new_tensor_value",
               "contiguous", "clone", "detach", "attr_values"}


def N(x):
    return (1 + sp.erf(x / sp.sqrt(2))) / 2


def n(x):
    return sp.exp(-x ** 2 / 2) / sp.sqrt(2 * sp.pi)


class ToSympy:
    def __init__(self, symbols=None, hooks=None, assume_positive=()):
        self.symbols = dict(symbols or {})
        self.hooks = hooks or []
        self.assume_positive = set(assume_positive)

    def sym(self, name):
        if name not in self.symbols:
            # `positive=False` would assert non-positivity: only state what is assumed
            extra = {"positive": True} if name in self.assume_positive else {}
            self.symbols[name] = sp.Symbol(name.replace("#", "_").replace(":", "_").replace("@", "_at_"), real=True, **extra)
        return self.symbols[name]

    def conv(self, t):
        for hk in self.hooks:
            r = hk(self, t)
            if r is not None:
                return r
        if isinstance(t, bool):
            return sp.true if t else sp.false
        if is_num(t):
            if isinstance(t, float):
                import math
                from fractions import Fraction
                # constants folded by the interpreter (2 * math.pi, math.sqrt(2 * math.pi), ...) back to closed form
                for bval, bsym in ((1.0, sp.Integer(1)), (math.pi, sp.pi), (math.sqrt(2 * math.pi), sp.sqrt(2 * sp.pi)), (math.sqrt(math.pi), sp.sqrt(sp.pi)),
                                   (math.sqrt(2.0), sp.sqrt(2)), (1 / math.sqrt(2 * math.pi), 1 / sp.sqrt(2 * sp.pi)), (1 / math.pi, 1 / sp.pi)):
                    r = Fraction(t / bval).limit_denominator(16)
                    if r != 0 and abs(float(r) * bval - t) <= 4e-16 * max(1.0, abs(t)):
                        return sp.Rational(r.numerator, r.denominator) * bsym
                return sp.nsimplify(t, rational=True)
            return sp.nsimplify(t)
        if isinstance(t, Sym):
            return self.sym(t.name)
        if not isinstance(t, Op):
            raise TypeError(repr(t))
        a = t.args
        op = t.op
        if op in TRANSPARENT:
            return self.conv(a[0])
        if op == "new_tensor":
            return self.conv(a[1])
        c = self.conv
        if op == "add":
            return c(a[0]) + c(a[1])
        if op == "sub":
            return c(a[0]) - c(a[1])
        if op in ("mul",):
            return c(a[0]) * c(a[1])
        if op in ("div",):
            return c(a[0]) / c(a[1])
        if op == "pow":
            return c(a[0]) ** c(a[1])
        if op == "neg":
            return -c(a[0])
        if op in ("exp", "py_exp"):
            return sp.exp(c(a[0]))
        if op in ("log", "py_log"):
            return sp.log(c(a[0]))
        if op in ("sqrt", "py_sqrt"):
            return sp.sqrt(c(a[0]))
        if op == "square":
            return c(a[0]) ** 2
        if op == "abs":
            return sp.Abs(c(a[0]))
        if op == "relu":
            return sp.Max(0, c(a[0]))
        if op == "clamp":
            x = c(a[0])
            kw = t.kwd()
            if "min" in kw and kw["min"] is not None and not kw.get("assume_inactive"):
                x = sp.Max(x, c(kw["min"]))
            if "max" in kw and kw["max"] is not None:
                x = sp.Min(x, c(kw["max"]))
            return x
        if op == "where":
            return sp.Piecewise((c(a[1]), c(a[0])), (c(a[2]), True))
        if op in ("lt", "le", "gt", "ge", "eq", "ne"):
            rel = {"lt": sp.Lt, "le": sp.Le, "gt": sp.Gt, "ge": sp.Ge, "eq": sp.Eq, "ne": sp.Ne}[op]
            return rel(c(a[0]), c(a[1]))
        if op == "logical_or":
            return sp.Or(c(a[0]), c(a[1]))
        if op == "logical_and":
            return sp.And(c(a[0]), c(a[1]))
        if op == "ncdf":
            return ncdf(c(a[0]))
        if op == "npdf":
            return npdf(c(a[0]))
        if op == "zeros_like":
            return sp.Integer(0)
        if op == "ones_like":
            return sp.Integer(1)
        if op in ("full_like", "new_full"):
            return c(a[-1] if "fill_value" not in t.kwd() else t.kwd()["fill_value"])
        if op == "cos":
            return sp.cos(c(a[0]))
        if op == "sin":
            return sp.sin(c(a[0]))
        if op == "floordiv":
            return sp.floor(c(a[0]) / c(a[1]))
        if op == "py_float":
            return c(a[0])  # float(n) of a count: the same number
        if op == "log1p":
            return sp.log(1 + c(a[0]))
        if op == "expm1":
            return sp.exp(c(a[0])) - 1
        raise NotImplementedError(op)


def gauss_expect(expr, var=z):
    """E over var ~ N(0,1) of an expression polynomial in var."""
    p = sp.Poly(sp.expand(expr), var)
    total = 0
    for (k,), coef in zip(p.monoms(), p.coeffs()):
        m = 0 if k % 2 else (sp.factorial2(k - 1) if k > 0 else 1)
        total += coef * m
    return sp.simplify(total)
