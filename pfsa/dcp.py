"""Shift/scale covariance + curvature/monotonicity certificates (prototype) for risk measures.

Abstract value CV(curv, mono, shift, deg, nonneg) of a term as a function of the sample x.
  curv : 'const' | 'affine' | 'convex' | 'concave' | '?'
  mono : 'const' | 'inc' | 'dec' | '?'
  shift: ('inv',) | ('add', k) | ('mul', k) | '?'     response to x -> x + c
  deg  : homogeneity degree (sympy) or '?'            response to x -> lam*x, lam>0
"""
import sympy as sp

from .term import Op, Sym, Term, is_num


class CV:
    def __init__(self, curv, mono, shift, deg, nonneg=False, note=""):
        self.curv, self.mono, self.shift, self.deg, self.nonneg, self.note = curv, mono, shift, deg, nonneg, note

    def __repr__(self):
        return f"<{self.curv},{self.mono},shift={self.shift},deg={self.deg}{',>=0' if self.nonneg else ''}>"


CONST = lambda: CV("const", "const", ("inv",), 0)
FLIPC = {"convex": "concave", "concave": "convex", "affine": "affine", "const": "const", "?": "?"}
FLIPM = {"inc": "dec", "dec": "inc", "const": "const", "?": "?"}


def join_curv(a, b):
    s = {a, b} - {"const"}
    if not s:
        return "const"
    if s <= {"affine"}:
        return "affine"
    if s <= {"affine", "convex"}:
        return "convex"
    if s <= {"affine", "concave"}:
        return "concave"
    return "?"


def join_mono(a, b):
    s = {a, b} - {"const"}
    if not s:
        return "const"
    return s.pop() if len(s) == 1 else "?"


def shift_k(s):
    return 0 if s == ("inv",) else s[1] if s != "?" and s[0] == "add" else None


class DCP:
    def __init__(self, x_name, signs, ranges=None):
        self.x = x_name
        self.signs = signs  # sym name -> +1 / -1 (parameters of known sign), also sympy symbol map
        self.ranges = ranges or {}  # sym name -> (lo, hi): open interval of admissible values
        self.sym = {}
        self.lemmas = []

    def s(self, name):
        # state only what is assumed: positive=False would assert non-positivity
        return self.sym.setdefault(name, sp.Symbol(name, positive=True) if self.signs.get(name) == 1 else sp.Symbol(name, real=True))

    def const_value(self, t):
        """sympy value of a parameter-only term (no dependence on x), else None."""
        if is_num(t):
            return sp.nsimplify(t)
        if isinstance(t, Sym):
            return None if t.name == self.x else self.s(t.name)
        if isinstance(t, Op):
            if t.op in ("size", "numel", "py_ceil", "py_log", "getitem", "len"):
                return self.s("n_" + t.op)
            vals = [self.const_value(a) for a in t.args if isinstance(a, (Term, int, float)) or is_num(a)]
            if any(v is None for v in vals):
                return None
            try:
                if t.op == "add":
                    return vals[0] + vals[1]
                if t.op == "sub":
                    return vals[0] - vals[1]
                if t.op == "mul":
                    return vals[0] * vals[1]
                if t.op == "div":
                    return vals[0] / vals[1]
                if t.op == "neg":
                    return -vals[0]
                if t.op == "pow":
                    return vals[0] ** vals[1]
                if t.op in ("as_tensor", "to"):
                    return vals[0]
            except Exception:
                return None
        return None

    def sign_of(self, v):
        if v.is_positive:
            return 1
        if v.is_negative:
            return -1
        return None

    def of(self, t):
        c = self.const_value(t)
        if c is not None:
            return CONST()
        if isinstance(t, Sym):
            assert t.name == self.x
            return CV("affine", "inc", ("add", sp.Integer(1)), sp.Integer(1))
        f = getattr(self, "d_" + t.op, None)
        if f is None:
            if t.op in TRANSPARENT:
                return self.of(t.args[0])
            # an operator applied only to shift-invariant arguments is shift-invariant
            subs = [self.of(a) for a in t.args if isinstance(a, Term)]
            inv = all(s.shift == ("inv",) for s in subs)
            return CV("?", "?", ("inv",) if inv else "?", "?", note=f"unknown op {t.op}")
        return f(t, *t.args)

    def scale(self, v, c):
        sg = self.sign_of(c)
        if sg is None:
            return CV("?", "?", "?", v.deg)
        k = shift_k(v.shift)
        shift = "?" if v.shift == "?" else v.shift if v.shift[0] in ("inv",) else ("add", sp.simplify(k * c)) if v.shift[0] == "add" else v.shift if False else "?"
        if v.shift != "?" and v.shift[0] == "mul":
            shift = v.shift
        if sg > 0:
            return CV(v.curv, v.mono, shift, v.deg, v.nonneg)
        return CV(FLIPC[v.curv], FLIPM[v.mono], shift, v.deg)

    def d_neg(self, t, x):
        return self.scale(self.of(x), sp.Integer(-1))

    def d_mul(self, t, x, y):
        cx, cy = self.const_value(x), self.const_value(y)
        if cy is not None:
            return self.scale(self.of(x), cy)
        if cx is not None:
            return self.scale(self.of(y), cx)
        return CV("?", "?", "?", "?")

    def d_div(self, t, x, y):
        cy = self.const_value(y)
        if cy is not None:
            return self.scale(self.of(x), 1 / cy)
        return CV("?", "?", "?", "?")

    def d_add(self, t, x, y, sign=1):
        a, b = self.of(x), self.of(y)
        if sign < 0:
            b = self.scale(b, sp.Integer(-1))
        ka, kb = shift_k(a.shift), shift_k(b.shift)
        if ka is None or kb is None:
            shift = "?"
        else:
            k = sp.simplify(ka + kb)
            shift = ("inv",) if k == 0 else ("add", k)
        deg = a.deg if (a.curv == "const" and False) else (a.deg if a.deg == b.deg else (b.deg if a.curv == "const" and a.deg == 0 and False else "?"))
        if a.curv == "const":
            deg = b.deg if self.const_value(x) == 0 else ("?" if b.deg != 0 else 0)
        elif b.curv == "const":
            deg = a.deg if self.const_value(y) == 0 else ("?" if a.deg != 0 else 0)
        return CV(join_curv(a.curv, b.curv), join_mono(a.mono, b.mono), shift, deg)

    def d_sub(self, t, x, y):
        return self.d_add(t, x, y, -1)

    def d_logsumexp(self, t, x, *r, **k):
        a = self.of(x)
        curv = "convex" if a.curv in ("affine", "convex") else "?"
        return CV(curv, a.mono, a.shift if a.shift != "?" and a.shift[0] in ("add", "inv") else "?", "?")

    def d_exp(self, t, x):
        a = self.of(x)
        curv = "convex" if a.curv in ("affine", "convex") else "?"
        k = shift_k(a.shift)
        return CV(curv, a.mono, ("mul", k) if k not in (None, 0) else ("inv",) if k == 0 else "?", "?", nonneg=True)

    def d_log(self, t, x):
        a = self.of(x)
        curv = "concave" if a.curv in ("affine", "concave") else "?"
        shift = ("add", a.shift[1]) if a.shift != "?" and a.shift[0] == "mul" else a.shift if a.shift == ("inv",) else "?"
        return CV(curv, a.mono, shift, "?")

    def d_mean(self, t, x, *r, **k):
        a = self.of(x)
        if getattr(a, "ksel", None):
            # mean of the k smallest / largest entries
            curv = "concave" if a.ksel == "smallest" else "convex"
            base = a.inner
            ok = base.curv == "affine" and base.mono in ("inc", "dec")
            self.lemmas.append(f"mean of the k {a.ksel} entries is {curv}, non-decreasing, shift-equivariant, positively homogeneous")
            if not ok:
                return CV("?", "?", "?", "?")
            curv2 = curv if base.mono == "inc" else FLIPC[curv]
            return CV(curv2, base.mono, base.shift, base.deg)
        return CV(a.curv, a.mono, a.shift, a.deg, a.nonneg)

    d_sum = d_mean

    def d_topk(self, t, x, k, **kw):
        a = self.of(x)
        v = CV("?", "?", "?", "?")
        v.ksel = "largest" if t.kwd().get("largest", True) else "smallest"
        v.inner = a
        return v

    def d_attr_values(self, t, x):
        return self.of(x)

    def d_relu(self, t, x):
        a = self.of(x)
        curv = "convex" if a.curv in ("affine", "convex") else "?"
        return CV(curv, a.mono, a.shift if a.shift == ("inv",) else "?", a.deg, nonneg=True)

    def d_square(self, t, x):
        a = self.of(x)
        if a.nonneg and a.curv in ("affine", "convex"):
            return CV("convex", a.mono, a.shift if a.shift == ("inv",) else "?", a.deg * 2 if a.deg != "?" else "?", nonneg=True)
        return CV("?", "?", a.shift if a.shift == ("inv",) else "?", "?", nonneg=True)

    def d_pow(self, t, x, p):
        a = self.of(x)
        q = self.const_value(p)
        if q is not None and a.curv in ("affine", "concave"):
            q = sp.simplify(q)
            if self.in_open_unit_interval(q):
                return CV("concave", a.mono, "?", a.deg * q if a.deg != "?" else "?")
        return CV("?", "?", "?", "?")

    def in_open_unit_interval(self, q):
        if q.is_number:
            return bool(0 < q < 1)
        syms = list(q.free_symbols)
        if len(syms) == 1 and syms[0].name in self.ranges and sp.diff(q, syms[0], 2) == 0:
            lo, hi = self.ranges[syms[0].name]
            vals = [q.subs(syms[0], lo), q.subs(syms[0], hi)]
            return all(0 <= v <= 1 for v in vals) and vals[0] != vals[1]
        return False

    def d_amin(self, t, x, *r, **k):
        a = self.of(x)
        return CV("concave" if a.curv == "affine" else "?", a.mono, a.shift, a.deg)

    def d_amax(self, t, x, *r, **k):
        a = self.of(x)
        return CV("convex" if a.curv == "affine" else "?", a.mono, a.shift, a.deg)


TRANSPARENT = {"to", "as_tensor", "unsqueeze", "squeeze", "flatten", "expand", "view", "float", "double"}
