import importlib
import os
import sys
import traceback

from .interp import Interp, Unsupported
from .report import AnalysisError, Run
from .source import Program

LEVELS = {"C01": "proof", "C07": "proof", "C08": "proof", "C09": "proof"}


class Ctx:
    def __init__(self, tier):
        self.tier = tier
        self.prog = Program()
        self.interp = Interp(self.prog, max_depth=20)


class Timeout(Exception):
    pass


def _alarm(signum, frame):
    raise Timeout()


import sys as _sys
_sys.setrecursionlimit(20000)   # terms of unrolled loops and nested closed forms are deep; comparisons and hashes recurse over them


def main(argv=None):
    argv = argv or sys.argv[1:]
    if not argv or argv[0] in ("-h", "--help"):
        print("usage: python -m pfsa <C01..C20> [quick|thorough]  |  python -m pfsa --replay <file>  |  python -m pfsa selfcheck")
        return 2
    if argv[0] == "selfcheck":
        return selfcheck()
    if argv[0] == "--replay":
        return replay(argv[1])
    prop = argv[0]
    tier = argv[1] if len(argv) > 1 else os.environ.get("VERIF_TIER", "quick")
    import signal
    signal.signal(signal.SIGALRM, _alarm)
    signal.alarm(int(os.environ.get("PFSA_TIMEOUT", "600" if tier == "quick" else "3600")))
    run = None

    def partial(msg):
        """an analysis that stops early still reports the violations it has already established"""
        if run is not None and run.findings:
            run.notes.append("analysis incomplete: " + msg)
            code_ = run.finish()
            print(f"ANALYSIS-INCOMPLETE property={prop}: {msg}")
            return code_ if code_ == 1 else 2
        print(f"ANALYSIS-ERROR property={prop}: {msg}")
        return 2

    try:
        mod = importlib.import_module(f"pfsa.rules.{prop.lower()}")
        ctx = Ctx(tier)
        run = Run(prop, tier, LEVELS.get(prop, "other"), (mod.__doc__ or "").strip())
        run.prog = ctx.prog
        try:
            mod.check(ctx, run)
        finally:
            run.functions |= {q for q in ctx.interp.visited if q in ctx.prog.functions}
            run.call_sites = max(run.call_sites, ctx.interp.n_calls)
        code = run.finish()
        n_ok = sum(1 for o in run.obligations if o[2])
        print(f"{prop} {tier}: {len(run.obligations)} obligations, {n_ok} discharged, {len(run.findings)} findings, {run and round(__import__('time').time()-run.t0,2)} s")
        return code
    except Timeout:
        return partial("analysis did not finish within the time limit (a decision procedure did not terminate)")
    except (AnalysisError, Unsupported) as e:
        return partial(str(e))
    except Exception:
        traceback.print_exc()
        return partial("internal error")


def selfcheck():
    """setup command: the analyser imports, parses the repository and its built-in positive examples fire"""
    import sympy
    from . import alias, term
    ctx = Ctx("quick")
    n_f, n_c = len(ctx.prog.functions), len(ctx.prog.classes)
    # positive example for the 'expected count is zero' rules: an in-place op on a view of a buffer must be classified as an alias
    buf = term.Sym("stock.spot", ("tensor", "buffer"))
    view = term.Op("unsqueeze", (term.Op("index", (buf, (slice(None), Ellipsis))), -1))
    copy = term.Op("unsqueeze", (term.Op("index", (buf, (slice(None), [term.Sym("i", ("int",))]))), -1))
    ok = alias.root(view)[0] == "alias" and alias.root(copy)[0] == "fresh"
    # decision procedures must separate what is different and identify what is equal (each line once failed or could fail silently)
    from .equiv import same
    from .dtypes import DATA, DEFAULT, provenance
    x, y, kk = term.Sym("x", ("tensor",)), term.Sym("y", ("tensor",)), term.Sym("K", ("float",))
    relu = term.Op("relu", (x,))
    probes = [
        ("same: relu(x) vs sqrt(relu(x)) differ", not same(relu, term.Op("sqrt", (relu,)))),
        ("same: 2*x[...,-1] == x[...,-1]*2", same(term.mk("mul", 2, term.Op("index", (x, (Ellipsis, -1)))), term.mk("mul", term.Op("index", (x, (Ellipsis, -1))), 2))),
        ("same: x[...,-1] vs x[...,-2] differ", not same(term.Op("index", (x, (Ellipsis, -1))), term.Op("index", (x, (Ellipsis, -2))))),
        ("same: K*exp(x) == exp(x)/(1/K)", same(term.mk("mul", kk, term.Op("exp", (x,))), term.mk("div", term.Op("exp", (x,)), term.mk("div", 1, kk)))),
        ("same: x - y vs y - x differ", not same(term.mk("sub", x, y), term.mk("sub", y, x))),
        ("dtype: cat([x, zeros(n)]) is not DATA", provenance(term.Op("cat", ([x, term.Op("zeros", (term.Sym("n", ("int",)),))],), {"dim": 0}))[0] == DEFAULT),
        ("dtype: cat([x, zeros_like(x)]) is DATA", provenance(term.Op("cat", ([x, term.Op("zeros_like", (x,))],), {"dim": 0}))[0] == DATA),
        ("term: pow(x, 2) canonicalises to square", term.mk("pow", x, 2) == term.Op("square", (x,))),
        ("term: stack(seq, 1) canonicalises to stack(seq, dim=1)", term.Op("stack", ([x, y], 1)) == term.Op("stack", ([x, y],), {"dim": 1})),
    ]
    failed = [name for name, good in probes if not good]
    print(f"pfsa selfcheck: sympy {sympy.__version__}, {len(ctx.prog.modules)} modules, {n_f} functions, {n_c} classes, alias positive example {'ok' if ok else 'FAILED'}, "
          f"{len(probes) - len(failed)}/{len(probes)} engine probes ok" + ("; FAILED: " + "; ".join(failed) if failed else ""))
    return 0 if ok and n_f > 300 and not failed else 2


def replay(path):
    import json
    d = json.load(open(path))
    prop, tier = d["property"], d.get("tier", "quick")
    mod = importlib.import_module(f"pfsa.rules.{prop.lower()}")
    ctx = Ctx(tier)
    run = Run(prop, tier, LEVELS.get(prop, "other"), (mod.__doc__ or "").strip())
    mod.check(ctx, run)
    hits = [f for f in run.findings if f.rule == d["rule"] and f.function == d["function"]]
    if hits:
        print(f"REPRODUCED property={prop} rule={d['rule']} function={d['function']}")
        for f in hits:
            print(f.diagnosis())
        return 1
    print(f"NOT-REPRODUCED property={prop} rule={d['rule']} function={d['function']} (the construct no longer violates the rule on the current tree)")
    return 0


if __name__ == "__main__":
    sys.exit(main())
