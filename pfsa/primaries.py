"""Shared sibling extraction over the primary instruments (C11 / C13 / C17)."""
from . import world as W
from .interp import Obj, Unsupported
from .report import AnalysisError
from .term import Op, Sym

BASE = "pfhedge.instruments.primary.base.BasePrimary"
DEPRECATED = {"pfhedge.instruments.primary.base.Primary"}


def primary_classes(prog):
    out = [c for c in prog.subclasses(BASE) if c not in DEPRECATED and c.startswith("pfhedge.instruments.primary.")]
    return sorted(out)


def simulate_facts(ctx, cls, init_given):
    """interpret <cls>.simulate and return the generator call + registered buffers per path"""
    prog, interp = ctx.prog, ctx.interp
    sim = prog.lookup_method(cls, "simulate")
    if sim is None:
        raise AnalysisError(f"anchor vanished: {cls}.simulate")
    o = Obj(cls, "stock")
    kw = dict(n_paths=W.integer("N"), time_horizon=W.fl("h"))
    if init_given == "scalar":
        kw["init_state"] = Sym("init_scalar", ("float",))
    elif init_given:
        d = default_init(ctx, cls)
        n = len(d) if isinstance(d, (tuple, list)) else 1
        kw["init_state"] = tuple(Sym(f"init{k}", ("float",)) for k in range(n))
    try:
        res = [r for r in interp.explore(sim, [], kw, self_obj=o, max_paths=200) if not r["raises"]]
    except Unsupported as ex:
        raise AnalysisError(f"{cls}.simulate: {ex}")
    facts = []
    for r in res:
        gen = [e for e in r["events"] if e["kind"] == "call" and ".stochastic." in e["callee"] and e["callee"].rsplit(".", 1)[-1].startswith("generate_")]
        regs = [e for e in r["events"] if e["kind"] == "register_buffer" and isinstance(e.get("obj"), Obj) and e["obj"].name == "stock"]
        facts.append(dict(path=r, gen=gen[0] if gen else None, n_gen=len([g for g in gen if g is gen[0]]) if gen else 0, regs=regs, sim=sim))
    return sim, facts


def default_init(ctx, cls):
    prog, interp = ctx.prog, ctx.interp
    fi = prog.lookup_method(cls, "default_init_state")
    o = Obj(cls, "stock")
    res = [r for r in interp.explore(fi, [], {}, self_obj=o) if not r["raises"]]
    return res[0]["value"] if res else None


def init_forwarding_rule(ctx, run, rule, classes=None):
    """A start value the caller gives reaches the generator as given on every path: as a tuple or in the scalar form the generators
    accept (cast_state).  A truthiness test (`init_state or default`) replaces a start at zero by the default."""
    from .report import Finding
    prog = ctx.prog
    classes = classes or primary_classes(prog)
    run.require(rule, len(classes))
    for cls in classes:
        short = cls.rsplit(".", 1)[-1]
        d = default_init(ctx, cls)
        forms = (True, "scalar") if isinstance(d, (tuple, list)) and len(d) == 1 else (True,)  # the scalar form stands for a one-component state
        for form in forms:
            sim, facts = simulate_facts(ctx, cls, form)
            if not facts:
                raise AnalysisError(f"{cls}.simulate: no analysable path with init_state given")
            bad = []
            for f in facts:
                g = f["gen"]
                if g is None:
                    bad.append("no generator call")
                    continue
                ini = g["kwargs"].get("init_state")
                if form == "scalar":
                    ok = isinstance(ini, Sym) and ini.name == "init_scalar"
                else:
                    ok = isinstance(ini, tuple) and all(isinstance(x, Sym) and x.name == f"init{k}" for k, x in enumerate(ini))
                if not ok:
                    conds = ", ".join(f"{str(c)[:40]}={d}" for c, d, _ in f["path"]["cond"])
                    bad.append(f"on the path [{conds}] the generator starts from {str(ini)[:60]}")
            run.oblige(rule, f"{short}.simulate forwards a given init_state ({'scalar' if form == 'scalar' else 'tuple'}) on every path", not bad, "; ".join(bad))
            if bad:
                run.fail(Finding(rule, sim.qualname, f"init_state given as a {'scalar' if form == 'scalar' else 'tuple'}: {bad[0]}"[:300],
                                 "the simulation does not start from the value the caller asked for", file=str(prog.modules[sim.module].path), line=sim.node.lineno,
                                 case="scalar" if form == "scalar" else "tuple"))


def param_forwarding_rule(ctx, run, rule):
    """simulate() hands the generator the instrument's own configuration: every constructor parameter the generator has a parameter of the
    same name for (sigma, mu, kappa, ..., dt, engine) is passed as self.<name> on every path - a parameter left out falls back to the
    generator's default and the paths follow another model than the one the instrument displays."""
    from .report import Finding
    prog = ctx.prog
    classes = primary_classes(prog)
    run.require(rule, len(classes))
    for cls in classes:
        short = cls.rsplit(".", 1)[-1]
        init = prog.lookup_method(cls, "__init__")
        own = [a.arg for a in init.node.args.args[1:] + init.node.args.kwonlyargs if a.arg not in ("cost", "dtype", "device")]
        sim, facts = simulate_facts(ctx, cls, False)
        bad = []
        n = 0
        for f in facts:
            g = f["gen"]
            if g is None:
                bad.append("no generator call")
                continue
            callee = prog.functions.get(g["callee"])
            if callee is None:
                raise AnalysisError(f"{cls}.simulate: generator {g['callee']} not found")
            gparams = [a.arg for a in callee.node.args.args + callee.node.args.kwonlyargs]
            kw = dict(g["kwargs"])
            for k_, v_ in zip(gparams, g["args"]):
                kw[k_] = v_
            for p in own:
                if p not in gparams:
                    continue
                n += 1
                v = kw.get(p, "<left to the generator's default>")
                if not (isinstance(v, Sym) and v.name == "stock." + p):
                    bad.append(f"{p} = {str(v)[:50]}")
        bad = sorted(set(bad))
        run.oblige(rule, f"{short}.simulate passes its own parameters to the generator", not bad and n > 0, "; ".join(bad) or f"{n} parameter bindings")
        if bad or n == 0:
            run.fail(Finding(rule, sim.qualname, "; ".join(bad)[:300] or "no parameter of the instrument reaches the generator", "the generator does not receive the instrument's own parameter: "
                             "the paths follow another model / step size than the instrument displays", file=str(prog.modules[sim.module].path), line=sim.node.lineno))
