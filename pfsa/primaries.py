"""Shared sibling extraction over the primary instruments (C11 / C13 / C17)."""
from . import world as W
from .interp import Obj, Unsupported
from .report import AnalysisError
from .term import Op, Sym

BASE = "pfhedge.instruments.primary.base.BasePrimary"
DEPRECATED = {"pfhedge.instruments.primary.base.Primary"}


def primary_classes(prog):
    out = [c for c in prog.subclasses(BASE) if c not in DEPRECATED and c.startswith("pfhedge.instruments.primary.")]
    return sorted(out)


def simulate_facts(ctx, cls, init_given):
    """interpret <cls>.simulate and return the generator call + registered buffers per path"""
    prog, interp = ctx.prog, ctx.interp
    sim = prog.lookup_method(cls, "simulate")
    if sim is None:
        raise AnalysisError(f"anchor vanished: {cls}.simulate")
    o = Obj(cls, "stock")
    kw = dict(n_paths=W.integer("N"), time_horizon=W.fl("h"))
    if init_given:
        d = default_init(ctx, cls)
        n = len(d) if isinstance(d, (tuple, list)) else 1
        kw["init_state"] = tuple(Sym(f"init{k}", ("float",)) for k in range(n))
    try:
        res = [r for r in interp.explore(sim, [], kw, self_obj=o, max_paths=200) if not r["raises"]]
    except Unsupported as ex:
        raise AnalysisError(f"{cls}.simulate: {ex}")
    facts = []
    for r in res:
        gen = [e for e in r["events"] if e["kind"] == "call" and ".stochastic." in e["callee"] and e["callee"].rsplit(".", 1)[-1].startswith("generate_")]
        regs = [e for e in r["events"] if e["kind"] == "register_buffer" and isinstance(e.get("obj"), Obj) and e["obj"].name == "stock"]
        facts.append(dict(path=r, gen=gen[0] if gen else None, n_gen=len([g for g in gen if g is gen[0]]) if gen else 0, regs=regs, sim=sim))
    return sim, facts


def default_init(ctx, cls):
    prog, interp = ctx.prog, ctx.interp
    fi = prog.lookup_method(cls, "default_init_state")
    o = Obj(cls, "stock")
    res = [r for r in interp.explore(fi, [], {}, self_obj=o) if not r["raises"]]
    return res[0]["value"] if res else None
