import sys
from .cli import main
sys.exit(main())
