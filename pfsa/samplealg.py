"""Algebra of reductions over the sample axis (dim 0) for the risk measures (C05 / C06).

A P&L sample x is represented by its generic element xi; reductions are sympy Functions:
  MEAN(f(xi)), KMEAN(kind, f(xi), k) (mean of the k smallest/largest), QUANT(f, q), MINR(f), MAXR(f).
In `const` mode the sample is the constant c: every reduction of f(xi) returns f(c).
"""
import sympy as sp

from .algebra import ToSympy
from .term import Op, Sym, Term, is_num

xi = sp.Symbol("xi", real=True)
Nn = sp.Symbol("N", positive=True, integer=True)
MEAN = sp.Function("MEAN")
KMEAN_S = sp.Function("KMEAN_SMALLEST")
KMEAN_L = sp.Function("KMEAN_LARGEST")
QUANT = sp.Function("QUANT")
MINR = sp.Function("MINR")
MAXR = sp.Function("MAXR")
CEIL = sp.Function("CEIL")
FLOOR = sp.Function("FLOOR")
NUMEL = sp.Symbol("NUMEL", positive=True, integer=True)  # element count of the whole (N, *) tensor


class SampleAlgebra(ToSympy):
    def __init__(self, x_name="x", const=None, dim_ok=(0,), flat=False, **kw):
        super().__init__(**kw)
        self.x_name, self.const, self.dim_ok = x_name, const, dim_ok
        self.flat = flat  # True only when the sample is analysed as one flattened population (dim=None): numel() is then the sample size
        self.hooks = [self.sample_hook] + list(self.hooks)
        self.dims_seen = []

    def red(self, fn, body, *extra):
        if self.const is not None:
            return body.subs(xi, self.const)
        return fn(body, *extra)

    def dim_of(self, t, pos=1):
        kw = t.kwd()
        d = kw.get("dim", t.args[pos] if len(t.args) > pos and isinstance(t.args[pos], int) else None)
        self.dims_seen.append((t.op, d))
        return d

    def sample_hook(self, ts, t):
        if isinstance(t, Sym) and t.name == self.x_name:
            return xi if self.const is None else self.const
        if not isinstance(t, Op):
            return None
        a = t.args
        if t.op == "mean":
            inner = a[0]
            self.dim_of(t)
            if isinstance(inner, Op) and inner.op == "attr_values" and isinstance(inner.args[0], Op) and inner.args[0].op == "topk":
                tk = inner.args[0]
                body = self.conv(tk.args[0])
                k = self.conv(tk.args[1])
                largest = tk.kwd().get("largest", True)
                self.dims_seen.append(("topk", tk.kwd().get("dim")))
                return self.red(KMEAN_L if largest else KMEAN_S, body, k)
            return self.red(MEAN, self.conv(inner))
        if t.op == "logsumexp":
            self.dim_of(t)
            body = self.conv(a[0])
            if self.const is not None:
                return body.subs(xi, self.const) + sp.log(Nn)
            return sp.log(Nn * MEAN(sp.exp(body)))
        if t.op == "sum" and isinstance(a[0], Op) and a[0].op == "attr_values" and isinstance(a[0].args[0], Op) and a[0].args[0].op == "topk":
            # the sum of the k smallest / largest outcomes = k times their mean
            self.dim_of(t)
            tk = a[0].args[0]
            body, k = self.conv(tk.args[0]), self.conv(tk.args[1])
            self.dims_seen.append(("topk", tk.kwd().get("dim")))
            return k * self.red(KMEAN_L if tk.kwd().get("largest", True) else KMEAN_S, body, k)
        if t.op == "sum":
            self.dim_of(t)
            return self.red(lambda b: Nn * MEAN(b), self.conv(a[0])) if self.const is None else Nn * self.conv(a[0])
        if t.op == "size" and len(a) == 2:
            self.dims_seen.append(("size", a[1]))
            return Nn
        if t.op == "numel":
            # for an (N, *) sample numel() = N * prod(*) is NOT the number of paths; it equals it only for a flattened population
            self.dims_seen.append(("numel", None))
            return Nn if self.flat else NUMEL
        if t.op == "size":
            return Nn
        if t.op == "getitem" and isinstance(a[0], Op) and a[0].op == "size":
            self.dims_seen.append(("size", a[1]))
            return Nn
        if t.op == "call" and isinstance(a[0], Sym) and "callable" in a[0].tags and len(a) == 2:
            return sp.Function("F_" + a[0].name)(self.conv(a[1]))
        if t.op == "py_ceil":
            return CEIL(self.conv(a[0]))
        if t.op == "py_int" and isinstance(a[0], Op) and a[0].op in ("py_ceil", "py_floor", "py_round", "py_int"):
            return self.conv(a[0])  # int() of an integer-valued count is that count
        if t.op in ("py_floor", "py_int", "py_round"):
            return FLOOR(self.conv(a[0])) if t.op != "py_round" else sp.Function("ROUND")(self.conv(a[0]))
        if t.op == "quantile":
            self.dim_of(t, 2)
            return self.red(QUANT, self.conv(a[0]), self.conv(a[1]))
        if t.op in ("min", "amin") and (len(a) == 1 or isinstance(a[1], int) or "dim" in t.kwd()):
            self.dim_of(t)
            return self.red(MINR, self.conv(a[0]))
        if t.op in ("max", "amax") and (len(a) == 1 or isinstance(a[1], int) or "dim" in t.kwd()):
            self.dim_of(t)
            return self.red(MAXR, self.conv(a[0]))
        if t.op in ("squeeze", "flatten"):
            return self.conv(a[0])
        return None


def linearize(e):
    """MEAN is linear: MEAN(c f + g) = c MEAN(f) + MEAN(g) for c free of xi; MEAN(c) = c."""
    def lin(m):
        arg = sp.expand(m.args[0])
        out = 0
        for term in sp.Add.make_args(arg):
            c, f = term.as_independent(xi, as_Add=False)
            out += c * (MEAN(f) if f != 1 else 1)
        return out
    prev = None
    while prev != e:
        prev = e
        e = e.replace(lambda x: isinstance(x, sp.Function) and getattr(x, "func", None) == MEAN, lin)
    return e
