"""Semantic equality of two Terms up to arithmetic normalisation.

Operators outside the pointwise table (index, call, full_like, cat, ...) become uninterpreted functions of their converted
arguments, so `x[..., -1] * 2` equals `2 * x[..., -1]` but not `x[..., -2] * 2`; anything that is not a term (slices, tuples,
objects) is an atom named by its printed form."""
import sympy as sp

from .algebra import ToSympy
from .term import Op, Sym, Term, is_num

SHAPE_SENSITIVE = {"unsqueeze", "squeeze", "expand", "view"}


class Uninterpreted(ToSympy):
    def __init__(self, keep_shape_ops=True, **kw):
        super().__init__(**kw)
        self.keep_shape_ops = keep_shape_ops
        self.atoms = {}

    def atom(self, x):
        key = repr(x)
        if key not in self.atoms:
            self.atoms[key] = sp.Symbol(f"atom{len(self.atoms)}_" + "".join(ch if ch.isalnum() else "_" for ch in key)[:40], real=True)
        return self.atoms[key]

    def any(self, x):
        if isinstance(x, bool) or x is None or isinstance(x, str):
            return self.atom(x)
        if is_num(x) or isinstance(x, Term):
            return self.conv(x)
        if isinstance(x, (tuple, list)):
            return sp.Function("seq")(*[self.any(i) for i in x]) if x else self.atom(x)
        if isinstance(x, slice):
            return sp.Function("slice_")(*[self.any(i) for i in (x.start, x.stop, x.step)])
        return self.atom(x)

    def conv(self, t):
        if isinstance(t, Op) and self.keep_shape_ops and t.op in SHAPE_SENSITIVE:
            return sp.Function("op_" + t.op)(*[self.any(a) for a in t.args], *[sp.Function("kw_" + k)(self.any(v)) for k, v in t.kw])
        try:
            return super().conv(t)
        except NotImplementedError:
            pass
        return sp.Function("op_" + t.op.replace(":", "_").replace(".", "_"))(*[self.any(a) for a in t.args], *[sp.Function("kw_" + k)(self.any(v)) for k, v in t.kw])


def same(t1, t2, keep_shape_ops=True, assume_positive=()):
    """True when the two terms are equal as expressions (arithmetic normalised, everything else uninterpreted)."""
    if t1 is t2:
        return True
    if not isinstance(t1, (Term, int, float)) or not isinstance(t2, (Term, int, float)):
        return t1 == t2
    if t1 == t2:
        return True
    u = Uninterpreted(keep_shape_ops=keep_shape_ops, assume_positive=assume_positive)
    try:
        a, b = u.conv(t1), u.conv(t2)
    except (TypeError, ValueError):
        return False
    if a == b:
        return True
    try:
        if isinstance(a, sp.Basic) and isinstance(b, sp.Basic) and not (a.is_Boolean or b.is_Boolean):
            return sp.simplify(a - b) == 0
    except (TypeError, AttributeError):
        return False
    return False
