"""Units-of-measure checker over Terms (prototype).

Unit = (kind, eT, eD): kind 'lin' or 'log' (log-gauge), exponents of T (time) and D ($) as sympy
expressions affine in alpha.  POLY = unit-polymorphic literal (0 / tolerance).  Records map a
last-axis component index to a unit.
"""
import sympy as sp
from fractions import Fraction

from .term import Op, Sym, Term, is_num

alpha = sp.Symbol("alpha")


class U:
    __slots__ = ("kind", "t", "d")

    def __init__(self, t=0, d=0, kind="lin"):
        self.kind, self.t, self.d = kind, sp.nsimplify(t), sp.nsimplify(d)

    def __eq__(self, o):
        return isinstance(o, U) and sp.simplify(self.t - o.t) == 0 and sp.simplify(self.d - o.d) == 0 and (self.kind == o.kind or self.dimless() )

    def dimless(self):
        return sp.simplify(self.t) == 0 and sp.simplify(self.d) == 0

    def __repr__(self):
        if self.dimless():
            return "1"
        s = []
        if sp.simplify(self.t) != 0:
            s.append(f"T^({self.t})")
        if sp.simplify(self.d) != 0:
            s.append(f"$^({self.d})")
        r = "·".join(s)
        return f"Log[{r}]" if self.kind == "log" else r

    def mul(self, o, sign=1):
        return U(self.t + sign * o.t, self.d + sign * o.d)

    def power(self, p):
        return U(self.t * p, self.d * p)


ONE = U()
POLY = "POLY"


class Rec:
    def __init__(self, comps):
        self.comps = comps

    def __repr__(self):
        return f"Rec{self.comps}"


class UnitError(Exception):
    pass


class UnitChecker:
    def __init__(self, decl, tol=1e-6, poly_names=("EPSILON",)):
        self.decl = decl  # sym name -> U | Rec
        self.tol = tol
        self.errors = []
        self.cache = {}

    def err(self, msg, t):
        self.errors.append((msg, t))

    def lit(self, x, additive=False):
        if isinstance(x, bool):
            return ONE
        if is_num(x):
            if additive and (x == 0 or abs(float(x)) <= self.tol):
                return POLY
            return ONE
        return None

    def unify(self, a, b, t, what):
        if a == POLY:
            return b
        if b == POLY:
            return a
        if isinstance(a, Rec) or isinstance(b, Rec):
            if isinstance(a, Rec) and isinstance(b, Rec):
                return a
            return a if isinstance(a, Rec) else b
        if a is None or b is None:
            return a or b
        if a.kind != b.kind and not (a.dimless() or b.dimless()):
            self.err(f"{what}: mixing log-gauge and linear quantities {a} vs {b}", t)
            return a
        if not (sp.simplify(a.t - b.t) == 0 and sp.simplify(a.d - b.d) == 0):
            self.err(f"{what}: unit mismatch {a} vs {b}", t)
            return a
        return a if a.kind == "log" else b

    def num_exponent(self, p):
        """A dimensionless exponent as a sympy expr affine in alpha, or None."""
        if is_num(p):
            return sp.nsimplify(p)
        if isinstance(p, Sym):
            if p.name == "alpha" or p.name.endswith("alpha") or p.name.endswith("alpha_tensor"):
                return alpha
            if p.name == "a" :
                return alpha
            return None
        if isinstance(p, Op):
            a = [self.num_exponent(x) for x in p.args]
            if p.op in ("to", "as_tensor") :
                return a[0]
            if any(x is None for x in a):
                return None
            if p.op == "add":
                return a[0] + a[1]
            if p.op == "sub":
                return a[0] - a[1]
            if p.op == "mul":
                return a[0] * a[1]
            if p.op == "div":
                return a[0] / a[1]
            if p.op == "neg":
                return -a[0]
        return None

    def of(self, t, additive=False):
        l = self.lit(t, additive)
        if l is not None:
            return l
        if not isinstance(t, Term):
            if isinstance(t, (list, tuple)):
                us = [self.of(x, additive) for x in t]
                us = [u for u in us if u is not None]
                if not us:
                    return ONE
                out = us[0]
                for u in us[1:]:
                    out = self.unify(out, u, t, "sequence")
                return out
            return None
        key = (t, additive)
        if key in self.cache:
            return self.cache[key]
        u = self._of(t, additive)
        self.cache[key] = u
        return u

    def _of(self, t, additive):
        if isinstance(t, Sym):
            if t.name in self.decl:
                return self.decl[t.name]
            for k, v in self.decl.items():
                if k.endswith("*") and t.name.startswith(k[:-1]):
                    return v
            if t.name.startswith("carried:") :
                base = t.name[len("carried:"):].split("@")[0]
                if "carried:" + base in self.decl:
                    return self.decl["carried:" + base]
            if {"int", "loopvar"} & t.tags or t.name in ("N", "T", "n_paths", "n_steps", "dtype", "device"):
                return ONE
            self.err(f"undeclared symbol {t.name}", t)
            return ONE
        op, a = t.op, t.args
        f = getattr(self, "u_" + op.replace(":", "_"), None)
        if f is not None:
            return f(t, *a)
        if op in SAME:  # shape / dtype / reduction ops keep the unit of the first operand
            return self.of(a[0], additive)
        if op in DIMLESS_ARG:
            u = self.of(a[0])
            if u not in (POLY,) and not (isinstance(u, U) and u.dimless()):
                self.err(f"{op} of a dimensional quantity {u}", t)
            return ONE
        if op in ("lt", "le", "gt", "ge", "eq", "ne"):
            self.unify(self.of(a[0], True), self.of(a[1], True), t, "comparison")
            return ONE
        if op in ("and", "or", "not", "logical_and", "logical_or", "all", "any"):
            return ONE
        if op in ("zeros_like", "zeros", "new_zeros"):
            return POLY
        if op in ("ones_like", "ones", "arange", "randn", "rand", "randn_like", "rand_like", "size", "getitem", "numel", "len", "py_ceil", "py_int", "full_like_one"):
            return ONE
        if op in ("empty", "empty_like"):
            return POLY
        self.err(f"operator {op} not in the unit table", t)
        return ONE

    # arithmetic
    def u_add(self, t, x, y):
        a, b = self.of(x, True), self.of(y, True)
        if isinstance(a, U) and isinstance(b, U):
            # Log(u) + c  (c dimensionless) is Log(u): a dimensionless factor inside the log
            if a.kind == "log" and b.kind == "lin" and b.dimless():
                return a
            if b.kind == "log" and a.kind == "lin" and a.dimless():
                return b
            if a.kind == "log" and b.kind == "log":
                sign = -1 if t.op == "sub" else 1
                return U(a.t + sign * b.t, a.d + sign * b.d, "log")
        return self.unify(a, b, t, "add")

    u_sub = u_add

    def u_mul(self, t, x, y):
        a, b = self.of(x), self.of(y)
        if a == POLY or b == POLY:
            return POLY
        if isinstance(a, Rec) or isinstance(b, Rec):
            return a if isinstance(a, Rec) else b
        if a.kind == "log" and b.dimless():
            return a if not is_num(y) else U(a.t * sp.nsimplify(y), a.d * sp.nsimplify(y), "log")
        if b.kind == "log" and a.dimless():
            return b if not is_num(x) else U(b.t * sp.nsimplify(x), b.d * sp.nsimplify(x), "log")
        if a.kind == "log" or b.kind == "log":
            self.err(f"product with a log-gauge quantity {a} * {b}", t)
        return a.mul(b)

    def u_div(self, t, x, y):
        a, b = self.of(x), self.of(y)
        if a == POLY:
            return POLY
        if b == POLY:
            b = ONE
        if a.kind == "log" and b.dimless():
            return a
        return a.mul(b, -1)

    def u_neg(self, t, x):
        return self.of(x)

    def u_pow(self, t, x, p):
        a = self.of(x)
        e = self.num_exponent(p)
        if a == POLY:
            return POLY
        if e is None:
            pu = self.of(p)
            if not (isinstance(a, U) and a.dimless()):
                self.err(f"non-constant exponent on a dimensional base {a}", t)
            return ONE
        return a.power(e)

    def u_sqrt(self, t, x):
        a = self.of(x)
        return a if a == POLY else a.power(sp.Rational(1, 2))

    def u_square(self, t, x):
        a = self.of(x)
        return a if a == POLY else a.power(2)

    def u_exp(self, t, x):
        a = self.of(x)
        if a == POLY:
            return ONE
        if a.kind == "log":
            return U(a.t, a.d)
        if not a.dimless():
            self.err(f"exp of a dimensional quantity {a}", t)
        return ONE

    def u_log(self, t, x):
        a = self.of(x)
        if a == POLY:
            return ONE
        return U(a.t, a.d, "log")

    def u_py_exp(self, t, x):
        return self.u_exp(t, x)

    def u_py_sqrt(self, t, x):
        return self.u_sqrt(t, x)

    def u_py_log(self, t, x):
        return self.u_log(t, x)

    def u_where(self, t, c, x, y):
        self.of(c)
        return self.unify(self.of(x, True), self.of(y, True), t, "where")

    def u_maximum(self, t, x, y):
        return self.unify(self.of(x, True), self.of(y, True), t, "maximum")

    u_minimum = u_maximum

    def u_clamp(self, t, x, *b):
        return self.of(x)

    def u_full_like(self, t, x, v):
        return self.of(v, True)   # a tensor filled with zero fits any unit (zeros_like), any other constant is a pure number

    def u_new_tensor(self, t, x, v):
        return self.of(v)

    def u_tensor(self, t, v, *rest):
        return self.of(v)

    def u_as_tensor(self, t, v, *rest):
        if isinstance(v, (list, tuple)) and v and isinstance(v[0], (list, tuple)):  # matrix literal -> record of sqrt(diag)
            n = len(v)
            diag = [self.of(v[i][i]) for i in range(n)]
            comps = {i: diag[i].power(sp.Rational(1, 2)) for i in range(n)}
            for i in range(n):
                for j in range(n):
                    uij = self.of(v[i][j])
                    exp = comps[i].mul(comps[j])
                    if not uij == exp:
                        self.err(f"covariance entry [{i}][{j}] has unit {uij}, expected {exp}", t)
            return Rec(comps)
        return self.of(v, True)

    def u_cat(self, t, seq, *rest):
        return self.of(seq, True)

    u_stack = u_cat

    def u_setitem(self, t, base, idx, v):
        return self.unify(self.of(base, True), self.of(v, True), t, "store")

    def u_loop(self, t, elem, desc, init, carried, upd):
        ui = self.of(init, True)
        self.decl[carried.name] = ui
        self.cache.clear()
        uu = self.of(upd, True)
        if ui == POLY and uu != POLY:  # e.g. torch.empty(...) filled in the loop: adopt the stored unit
            self.decl[carried.name] = uu
            self.cache.clear()
            uu = self.of(upd, True)
        return self.unify(ui, uu, t, "loop-carried value")

    def u_recursive_call(self, t, *a):
        return self.decl.get("__result__", POLY)

    def u_index(self, t, x, idx):
        u = self.of(x)
        if isinstance(u, Rec):
            last = idx[-1] if isinstance(idx, tuple) else idx
            if isinstance(last, int):
                return u.comps[last]
        return u

    def u_diff(self, t, x, *rest):
        a = self.of(x)
        if isinstance(a, U) and a.kind == "log":
            return ONE
        return a

    def u_sample(self, t, dist, *rest):
        return self.of(dist)

    u_draw = u_sample

    def u_dist(self, t, name, *args):
        kw = t.kwd()
        if name == "Poisson":
            r = self.of(kw.get("rate", args[0] if args else None))
            if not (r == POLY or r.dimless()):
                self.err(f"Poisson rate must be dimensionless, got {r}", t)
            return ONE
        if name == "Exponential":
            r = self.of(kw.get("rate", args[0] if args else None))
            return ONE.mul(r, -1)
        if name == "Uniform":
            return self.unify(self.of(args[0], True), self.of(args[1], True), t, "Uniform bounds")
        if name == "MultivariateNormal":
            cov = self.of(kw["covariance_matrix"])
            return cov
        if name == "SobolEngine":
            return ONE
        self.err(f"distribution {name} not in the unit table", t)
        return ONE

    def u_conv1d(self, t, x, w, *rest):
        a, b = self.of(x), self.of(w)
        if POLY in (a, b):
            return POLY
        return a.mul(b)

    def u_cumprod(self, t, x, *rest):
        a = self.of(x)
        if a != POLY and not a.dimless():
            self.err(f"product over an axis of a dimensional quantity {a}", t)
        return ONE

    u_prod = u_cumprod

    def u_ncdf(self, t, x):
        a = self.of(x)
        if a != POLY and not a.dimless():
            self.err(f"ncdf of a dimensional quantity {a}", t)
        return ONE

    u_npdf = u_ncdf
    u_cos = u_ncdf
    u_sin = u_ncdf

    def u_call(self, t, f, *args):
        if isinstance(f, Sym) and f.name in self.decl:
            return self.decl[f.name]
        self.err(f"opaque call {f}", t)
        return ONE

    def u_attr_values(self, t, x):
        return self.of(x)


SAME = {"to", "unsqueeze", "squeeze", "expand", "view", "flatten", "transpose", "flip", "abs", "relu", "mean", "sum", "cumsum",
        "cummax", "cummin", "max", "min", "amax", "amin", "clone", "detach", "float", "double", "topk", "quantile",
        "elem", "forall", "getitem", "star", "resize_", "requires_grad_", "contiguous", "prod_same"}
DIMLESS_ARG = {"erf", "tanh", "sigmoid"}
