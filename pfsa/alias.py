"""Alias / ownership classification of in-place targets (prototype)."""
from .term import Op, Sym, Term

VIEW_OPS = {"unsqueeze", "squeeze", "view", "expand", "transpose", "attr_T", "attr_mT", "flatten", "detach", "as_tensor",
            "to", "contiguous", "reshape", "permute", "narrow", "select", "attr_data", "requires_grad_", "resize_", "getitem"}


def basic_index(idx):
    items = idx if isinstance(idx, tuple) else (idx,)
    for it in items:
        if isinstance(it, (list, Term)):
            return False  # advanced indexing -> copy
    return True


def root(t, carried=None):
    """Return ('fresh', why) | ('alias', root_sym) | ('opaque', callee)."""
    carried = carried or {}
    if isinstance(t, Sym):
        if t.name.startswith("carried:") and t in carried:
            return root(carried[t], carried)
        return ("alias", t)
    if not isinstance(t, Op):
        return ("fresh", "python value")
    if t.op == "index":
        if basic_index(t.args[1]):
            return root(t.args[0], carried)
        return ("fresh", "advanced indexing copies")
    if t.op in VIEW_OPS:
        return root(t.args[0], carried)
    if t.op == "setitem":
        return root(t.args[0], carried)
    if t.op == "loop":
        return root(t.args[2], carried)
    if t.op == "call":
        return ("opaque", t.args[0], t)
    if t.op == "where" or t.op in ("cat", "stack"):
        return ("fresh", t.op)
    return ("fresh", t.op)
