"""dtype/device provenance of a result term (C11.R3 / C17.R6).

Abstract values
  DATA     the dtype/device of the data the function was given or asked for (a caller tensor, a buffer, `dtype=dtype`,
           a like-cast `.to(x)` to such a tensor, `*_like(x)`, `x.new_*`)
  DEFAULT  created in the global default floating dtype (a factory without dtype, a sampler built from Python numbers,
           an integer tensor multiplied by a Python float)
  FIXED    cast to a literal dtype (`.float()`, `.double()`, `dtype=torch.float32`)
  INDEX    integer / bool tensor (arange, comparisons, counts): takes the dtype of a floating operand it meets
  SCALAR   Python number or 0-dim tensor built from one: does not take part in type promotion
Combination follows torch's promotion for tensors of dimension >= 1: DATA with DEFAULT or FIXED is *not* DATA (the result
has the wider of two unrelated dtypes), DATA with INDEX / SCALAR is DATA.
`explain` returns the offending leaf."""
from .term import Op, Sym, Term, is_num

DATA, DEFAULT, FIXED, INDEX, SCALAR = "data", "default", "fixed", "index", "scalar"

FACTORIES = {"zeros", "ones", "empty", "randn", "rand", "full", "linspace", "eye", "tensor", "as_tensor", "arange", "randperm", "randint"}
LIKE = {"zeros_like", "ones_like", "empty_like", "randn_like", "rand_like", "full_like", "new_zeros", "new_ones", "new_tensor", "new_empty", "new_full"}
UNARY = {"exp", "log", "sqrt", "square", "abs", "neg", "relu", "cumsum", "cumprod", "cummax", "cummin", "flip", "unsqueeze", "squeeze", "expand", "view", "reshape", "transpose",
         "index", "mean", "sum", "prod", "max", "min", "amax", "amin", "logsumexp", "attr_values", "clone", "contiguous", "detach", "ncdf", "npdf", "sin", "cos", "diff", "clamp",
         "flatten", "topk", "quantile", "requires_grad_", "log1p", "expm1", "pow_", "sort", "tanh", "sigmoid", "T", "attr_T", "attr_mT", "getitem", "resize_", "autograd_grad"}
BINARY = {"add", "sub", "mul", "div", "pow", "maximum", "minimum", "lerp", "atan2", "fmod", "mulm"}
COMPARE = {"lt", "le", "gt", "ge", "eq", "ne", "logical_and", "logical_or", "not", "isnan", "isfinite", "all", "any"}


class Provenance:
    def __init__(self, carried=None):
        self.carried = dict(carried or {})  # loop-carried symbol -> abstract value of its initial tensor
        self.leaves = []
        self.narrowed = []  # (cast term, abstract value before it): computed in an unrelated float dtype, converted to the data's dtype afterwards

    def blame(self, t, why):
        self.leaves.append((t, why))

    def combine(self, vals):
        vals = [v for v in vals if v is not None]
        if not vals:
            return SCALAR
        if DEFAULT in vals:
            return DEFAULT
        if FIXED in vals:
            return FIXED
        if DATA in vals:
            return DATA
        if INDEX in vals:
            # an integer tensor combined with a Python float becomes a default-dtype float tensor
            return INDEX
        return SCALAR

    def of(self, t):
        if t is None or isinstance(t, (bool, str)):
            return None
        if is_num(t):
            return SCALAR
        if isinstance(t, (list, tuple)):
            return self.combine([self.of(x) for x in t])
        if type(t).__name__ == "MapList":  # [body for elem in <sequence of unknown length>]: every element is `body`
            return self.of(t.body)
        if type(t).__name__ == "SymList":
            return self.of(t.elem)
        if isinstance(t, Sym):
            if t in self.carried:
                return self.carried[t]
            if "tensor" in t.tags or "buffer" in t.tags or "carried" in t.tags:
                return DATA
            return SCALAR
        if not isinstance(t, Op):
            return None
        op, a, kw = t.op, t.args, t.kwd()
        if op in ("item", "tolist"):
            self.blame(t, f".{op}() leaves the tensor world: the value continues as a Python number")
            return SCALAR
        if op in FACTORIES or op in ("sample", "draw"):
            return self.factory(t)
        if op in LIKE:
            return self.of(a[0])
        if op == "to":
            return self.cast(t)
        if op in ("float", "double", "half", "bfloat16", "long", "int", "bool"):
            if op in ("long", "int", "bool"):
                return INDEX
            self.blame(t, f".{op}() fixes the dtype")
            return FIXED
        if op in COMPARE or op in ("argmax", "argmin", "attr_indices", "size", "numel", "len"):
            return INDEX
        if op == "where":
            return self.combine([self.of(a[1]), self.of(a[2])])
        if op == "setitem":
            return self.of(a[0])  # a store casts the value into the base tensor's dtype
        if op == "loop":
            elem, desc, init, carried, upd = a
            v = self.of(init)
            self.carried[carried] = v
            self.of(upd)  # visit for blame only
            return v
        if op == "forall":
            return self.of(a[2])
        if op in ("cat", "stack"):
            return self.combine([self.of(x) for x in (a[0] if isinstance(a[0], (list, tuple)) else [a[0]])])
        if op == "call":
            if "dtype" in kw and kw["dtype"] is not None:
                return DATA if self.is_data_dtype(kw["dtype"]) else FIXED
            args = [self.of(x) for x in a[1:]] + [self.of(v) for v in kw.values()]
            return self.combine(args)
        if op in ("recursive_call",):
            return self.combine([self.of(x) for x in (a[1] if len(a) > 1 else ())] + [self.of(v) for k, v in kw.items() if k not in ("precision", "max_iter")])
        if op in BINARY:
            vals = [self.of(x) for x in a]
            if INDEX in vals and any(v == SCALAR and self.is_float_scalar(x) for v, x in zip(vals, a)) and DATA not in vals and DEFAULT not in vals and FIXED not in vals:
                self.blame(t, "integer tensor combined with a Python float: result in the global default dtype")
                return DEFAULT
            return self.combine(vals)
        if op in UNARY or op.startswith("attr_"):
            return self.of(a[0]) if a else SCALAR
        if op.startswith("py_"):
            return SCALAR
        if op == "conv1d":
            return self.combine([self.of(a[0]), self.of(a[1])])
        if op == "dist":
            return self.combine([self.of(x) for x in a[1:]] + [self.of(v) for v in kw.values()])
        if op in ("cdf", "log_prob", "icdf"):
            return self.combine([self.of(a[0]), self.of(a[1])]) if self.of(a[1]) != SCALAR else self.of(a[0])
        # unknown operator: promotion semantics of its tensor operands
        return self.combine([self.of(x) for x in a if isinstance(x, (Op, Sym, list, tuple))])

    @staticmethod
    def is_float_scalar(x):
        if isinstance(x, float):
            return True
        if isinstance(x, Sym):
            return "float" in x.tags or not x.tags
        if isinstance(x, Op):
            if x.op.startswith("py_") or x.op in ("div",):
                return True
            if x.op in BINARY or x.op in ("neg", "abs", "sqrt", "exp", "log", "square"):
                # Python-level arithmetic of scalars (mu * dt, sigma ** 2 / 2): a float as soon as one operand is
                return any(Provenance.is_float_scalar(y) for y in x.args if not isinstance(y, bool))
        return False

    @staticmethod
    def all_int(v):
        """a (nested) list of Python integers / integer-valued index expressions"""
        if isinstance(v, (list, tuple)):
            return all(Provenance.all_int(x) for x in v)
        if isinstance(v, bool):
            return False
        if isinstance(v, int):
            return True
        if isinstance(v, Sym):
            return "int" in v.tags
        if isinstance(v, Op) and v.op in ("size", "numel", "len", "py_int", "py_ceil", "py_floor"):
            return True
        if isinstance(v, Op) and v.op in ("getitem", "index") and isinstance(v.args[0], Op) and v.args[0].op in ("size", "attr_shape"):
            return True
        if isinstance(v, Op) and v.op in ("add", "sub", "mul", "mod", "floordiv", "neg"):
            return all(Provenance.all_int(x) for x in v.args if not isinstance(x, dict))
        return False

    @staticmethod
    def is_data_dtype(d):
        """dtype=dtype (the requested dtype), dtype=x.dtype, dtype=self.dtype"""
        if isinstance(d, Sym):
            return d.name == "dtype" or d.name.endswith(".dtype")
        if isinstance(d, Op) and d.op == "attr_dtype":
            return True
        return False

    def factory(self, t):
        op, a, kw = t.op, t.args, t.kwd()
        if "dtype" in kw and kw["dtype"] is not None:
            if self.is_data_dtype(kw["dtype"]):
                return DATA
            self.blame(t, f"{op}(..., dtype=<literal>)")
            return FIXED
        if op in ("sample", "draw"):
            v = self.of(a[0]) if a else SCALAR
            if v in (SCALAR, INDEX, None):
                self.blame(t, "sampler built from Python numbers: draws in the global default dtype")
                return DEFAULT
            return v
        if op in ("arange", "randperm", "randint"):
            if any(isinstance(x, float) for x in a):
                self.blame(t, f"{op} with float arguments and no dtype")
                return DEFAULT
            return INDEX
        if op in ("tensor", "as_tensor"):
            v = a[0] if a else None
            if isinstance(v, (Op, Sym)):
                inner = self.of(v)
                return inner
            if is_num(v):
                return SCALAR
            if isinstance(v, (list, tuple)):
                inner = self.of(list(v))
                if inner in (DATA, DEFAULT, FIXED):
                    return inner
                if self.all_int(v):
                    return INDEX
                self.blame(t, f"{op}([...]) of Python numbers without dtype")
                return DEFAULT
            return SCALAR
        self.blame(t, f"torch.{op}(...) without dtype")
        return DEFAULT

    def cast(self, t):
        a, kw = t.args, t.kwd()
        targets = list(a[1:]) + [v for k, v in kw.items() if k in ("dtype", "other", "tensor")]
        devs = [v for k, v in kw.items() if k == "device"]
        for x in targets:
            if isinstance(x, (Op, Sym)) and not self.is_device(x):
                if self.is_data_dtype(x):
                    self.note_narrow(t)
                    return DATA
                if isinstance(x, Sym) and ("tensor" in x.tags or "buffer" in x.tags or "carried" in x.tags) or isinstance(x, Op):
                    v = self.of(x)
                    if v == DATA:
                        self.note_narrow(t)
                        return DATA
                    if v in (DEFAULT, FIXED):
                        return v
            if getattr(x, "name", "").startswith("torch.") or (hasattr(x, "name") and "float" in str(getattr(x, "name", "")) and "torch" in str(getattr(x, "name", ""))):
                self.blame(t, ".to(<literal dtype>)")
                return FIXED
        # device-only cast (or nothing recognisable): dtype unchanged
        return self.of(a[0])

    def note_narrow(self, t):
        n = len(self.leaves)
        inner = self.of(t.args[0])
        del self.leaves[n:]
        if inner in (DEFAULT, FIXED) and not self.exact_in_float32(t.args[0]):
            self.narrowed.append((t, inner))

    SHAPE_ONLY = {"unsqueeze", "squeeze", "expand", "view", "reshape", "transpose", "index", "getitem", "flip", "clone", "contiguous", "detach", "T", "attr_T", "flatten", "cat", "stack"}

    @classmethod
    def exact_in_float32(cls, t):
        """the value is the same number in every floating dtype (zeros, ones, small integers, float32 constants, re-arrangements of such):
        creating it in the default dtype and converting afterwards loses nothing"""
        if isinstance(t, bool):
            return True
        if isinstance(t, int):
            return abs(t) < 2 ** 24
        if isinstance(t, float):
            import struct
            return t != t or t in (float("inf"), float("-inf")) or struct.unpack("f", struct.pack("f", t))[0] == t
        if isinstance(t, (list, tuple)):
            return all(cls.exact_in_float32(x) for x in t)
        if isinstance(t, Sym):
            return "int" in t.tags
        if isinstance(t, Op):
            if t.op in ("zeros", "ones", "eye", "empty", "zeros_like", "ones_like", "empty_like", "new_zeros", "new_ones", "new_empty"):
                return True
            if t.op in ("arange", "randperm", "randint"):
                return cls.all_int(list(t.args))
            if t.op in ("full", "full_like", "new_full"):
                return cls.exact_in_float32(t.args[-1]) if t.args else False
            if t.op in ("tensor", "as_tensor"):
                return bool(t.args) and (cls.all_int(t.args[0]) or cls.exact_in_float32(t.args[0]))
            if t.op in cls.SHAPE_ONLY:
                return bool(t.args) and cls.exact_in_float32(t.args[0])
            if t.op in ("size", "numel", "len") or cls.all_int(t):
                return True
            if t.op in ("neg", "abs") and t.args:
                return cls.exact_in_float32(t.args[0])
            if t.op in ("add", "sub", "mul") and all(cls.intlike(x) for x in t.args):
                return True  # sums and products of integer-valued tensors (counts, indices) are exact below 2**24
        return False

    @classmethod
    def intlike(cls, t):
        """integer-valued whatever its dtype: Python ints, index expressions, zeros / ones / arange, re-arrangements, sums and products of such"""
        if isinstance(t, bool):
            return False
        if isinstance(t, int) or cls.all_int(t):
            return True
        if isinstance(t, Op):
            if t.op in ("zeros", "ones", "eye", "zeros_like", "ones_like", "new_zeros", "new_ones"):
                return True
            if t.op in ("arange", "randperm", "randint"):
                return cls.all_int(list(t.args))
            if t.op in ("tensor", "as_tensor"):
                return bool(t.args) and cls.all_int(t.args[0])
            if t.op in cls.SHAPE_ONLY or t.op in ("neg", "abs", "to", "float", "double", "long", "int"):
                return bool(t.args) and cls.intlike(t.args[0])
            if t.op in ("add", "sub", "mul"):
                return all(cls.intlike(x) for x in t.args)
        return False

    @staticmethod
    def is_device(x):
        return isinstance(x, Sym) and (x.name == "device" or x.name.endswith(".device"))


def provenance(term, events=()):
    """events: the interpreter's event log of the same run - loop-carried buffers (a hedger's prev_output) take the provenance of
    the value they hold when the loop starts, joined with what the loop stores into them"""
    p = Provenance()
    for e in events:
        if e["kind"] == "loop_begin":
            for k, init in e.get("carried", []):
                sym = Sym(f"carried:{k}@{e['var']!r}", ("carried",))
                if isinstance(init, (Op, Sym)) or is_num(init):
                    p.carried[sym] = p.of(init)
    v = p.of(term)
    return v, p.leaves
