"""Builders of the symbolic objects the rules interpret (derivatives, hedgers, features, modules)."""
from .interp import Obj
from .term import Sym

PRIMARY = "pfhedge.instruments.primary.base.BasePrimary"
OPTION = "pfhedge.features.features.OptionType"
HEDGER = "pfhedge.nn.modules.hedger.Hedger"


def tensor(name, *tags):
    return Sym(name, ("tensor",) + tags)


def fl(name):
    return Sym(name, ("float",))


def integer(name):
    return Sym(name, ("int",))


def option(name="deriv", cls=OPTION, **attrs):
    d = Obj(cls, name)
    d.attrs["strike"] = fl("K")
    d.attrs.update(attrs)
    return d


def feature(cls, derivative=None, hedger=None, **attrs):
    q = cls if "." in cls else "pfhedge.features.features." + cls
    return Obj(q, cls.rsplit(".", 1)[-1].lower(), dict(derivative=derivative or option(), hedger=hedger, **attrs))


def hedger(prog, features, model=None, criterion=None):
    """a symbolic Hedger over the given feature objects, built by interpreting the real constructor (so that what the constructor does to its
    arguments - wrapping, copying, reordering, the hooks it installs - is part of every analysis); built by hand only if the constructor
    cannot be followed (C03.R3a reports on the constructor itself)"""
    from .interp import Interp, Unsupported
    init = prog.lookup_method(HEDGER, "__init__")
    if init is not None:
        it = getattr(prog, "_ctor_interp", None)
        if it is None:
            it = prog._ctor_interp = Interp(prog, max_depth=20)
        hb = Obj(HEDGER, "hedger")
        m_, c_ = model or Sym("model", ("callable",)), criterion or Sym("criterion", ("callable",))
        try:
            res = [r for r in it.explore(init, [m_, list(features), c_], {}, self_obj=hb) if not r["raises"]]
        except (Unsupported, RecursionError, KeyError, TypeError, AttributeError, IndexError, ValueError):
            res = []
        if len(res) == 1 and isinstance(hb.attrs.get("inputs"), Obj) and "model" in hb.attrs and "criterion" in hb.attrs:
            hb.attrs.setdefault("__forward_hooks__", list(registered_hooks(prog)))
            return hb
    h = Obj(HEDGER, "hedger")
    fl_ = Obj("pfhedge.features.container.FeatureList", "inputs")
    fl_.attrs["features"] = list(features)
    h.attrs.update(model=model or Sym("model", ("callable",)), inputs=fl_, criterion=criterion or Sym("criterion", ("callable",)))
    h.attrs["__forward_hooks__"] = list(registered_hooks(prog))
    return h


def registered_hooks(prog):
    """the forward hooks Hedger.__init__ registers on itself, read off the constructor (interpreted once per program): every analysis of
    the recurrent input goes through the hook that is really installed, not through the one that is expected to be"""
    cached = getattr(prog, "_hedger_hooks", None)
    if cached is not None:
        return cached
    from .interp import Interp
    init = prog.lookup_method(HEDGER, "__init__")
    hooks = []
    if init is not None:
        it = Interp(prog, max_depth=20)
        probe = Obj(HEDGER, "hedger_probe")
        try:
            res = [r for r in it.explore(init, [Sym("model", ("callable",)), [], Sym("criterion", ("callable",))], {}, self_obj=probe) if not r["raises"]]
        except Exception:  # noqa: BLE001 - an uninterpretable constructor falls back to the documented hook; C03.R3a reports the constructor itself
            res = []
        for r in res[:1]:
            for e in r["events"]:
                if e["kind"] == "module_method" and e["method"] == "register_forward_hook" and getattr(e["recv"], "name", "") == "hedger_probe" and e["args"]:
                    hooks.append(e["args"][0])
    if not hooks and "pfhedge._utils.hook.save_prev_output" in prog.functions:
        hooks = [prog.functions["pfhedge._utils.hook.save_prev_output"]]
    prog._hedger_hooks = hooks
    return hooks
