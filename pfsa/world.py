"""Builders of the symbolic objects the rules interpret (derivatives, hedgers, features, modules)."""
from .interp import Obj
from .term import Sym

PRIMARY = "pfhedge.instruments.primary.base.BasePrimary"
OPTION = "pfhedge.features.features.OptionType"
HEDGER = "pfhedge.nn.modules.hedger.Hedger"


def tensor(name, *tags):
    return Sym(name, ("tensor",) + tags)


def fl(name):
    return Sym(name, ("float",))


def integer(name):
    return Sym(name, ("int",))


def option(name="deriv", cls=OPTION, **attrs):
    d = Obj(cls, name)
    d.attrs["strike"] = fl("K")
    d.attrs.update(attrs)
    return d


def feature(cls, derivative=None, hedger=None, **attrs):
    q = cls if "." in cls else "pfhedge.features.features." + cls
    return Obj(q, cls.rsplit(".", 1)[-1].lower(), dict(derivative=derivative or option(), hedger=hedger, **attrs))


def hedger(prog, features, model=None, criterion=None):
    h = Obj(HEDGER, "hedger")
    fl_ = Obj("pfhedge.features.container.FeatureList", "inputs")
    fl_.attrs["features"] = list(features)
    h.attrs.update(model=model or Sym("model", ("callable",)), inputs=fl_, criterion=criterion or Sym("criterion", ("callable",)))
    h.attrs["__forward_hooks__"] = [prog.functions["pfhedge._utils.hook.save_prev_output"]]
    return h
