"""Source model of /repo/pfhedge built from ast only (prototype)."""
import ast
import os
import pathlib
from dataclasses import dataclass, field
from typing import Dict, List, Optional

REPO = pathlib.Path(os.environ.get("PFSA_REPO", "/repo"))
PKG = "pfhedge"


@dataclass
class FuncInfo:
    qualname: str  # module.Class.func or module.func
    module: str
    node: ast.FunctionDef
    cls: Optional[str] = None  # qualified class name
    decorators: List[str] = field(default_factory=list)

    @property
    def is_property(self):
        return "property" in self.decorators or "cached_property" in self.decorators

    @property
    def is_cached_property(self):
        return "cached_property" in self.decorators

    @property
    def is_classmethod(self):
        return "classmethod" in self.decorators

    @property
    def is_staticmethod(self):
        return "staticmethod" in self.decorators


@dataclass
class ClassInfo:
    qualname: str
    module: str
    node: ast.ClassDef
    bases: List[str] = field(default_factory=list)  # resolved qualified names or raw names
    methods: Dict[str, FuncInfo] = field(default_factory=dict)
    attrs: Dict[str, ast.expr] = field(default_factory=dict)  # class-level assignments
    annotations: Dict[str, ast.expr] = field(default_factory=dict)
    aliases: Dict[str, str] = field(default_factory=dict)  # name -> qualified function (re-binding idiom)


@dataclass
class ModuleInfo:
    name: str
    path: pathlib.Path
    tree: ast.Module
    imports: Dict[str, str] = field(default_factory=dict)  # local name -> qualified target
    functions: Dict[str, FuncInfo] = field(default_factory=dict)
    classes: Dict[str, ClassInfo] = field(default_factory=dict)
    globals: Dict[str, ast.expr] = field(default_factory=dict)


class Program:
    def __init__(self, repo: pathlib.Path = REPO):
        self.repo = repo
        self.modules: Dict[str, ModuleInfo] = {}
        self.functions: Dict[str, FuncInfo] = {}
        self.classes: Dict[str, ClassInfo] = {}
        self._load()
        self._resolve_bases()
        self._apply_rebinding()

    # ------------------------------------------------------------------ loading
    def _load(self):
        root = self.repo / PKG
        for path in sorted(root.rglob("*.py")):
            rel = path.relative_to(self.repo).with_suffix("")
            parts = list(rel.parts)
            if parts[-1] == "__init__":
                parts = parts[:-1]
            name = ".".join(parts)
            import warnings

            with warnings.catch_warnings():
                warnings.simplefilter("ignore")
                tree = ast.parse(path.read_text(), filename=str(path))
            mod = ModuleInfo(name, path, tree)
            mod.is_pkg = path.name == "__init__.py"
            self.modules[name] = mod
        for mod in self.modules.values():
            self._index_module(mod)

    def _abs_module(self, mod: ModuleInfo, level: int, target: Optional[str]) -> str:
        if level == 0:
            return target or ""
        parts = mod.name.split(".")
        if not mod.is_pkg:
            parts = parts[:-1]
        if level > 1:
            parts = parts[: len(parts) - (level - 1)]
        if target:
            parts = parts + target.split(".")
        return ".".join(parts)

    def _index_module(self, mod: ModuleInfo):
        for st in mod.tree.body:
            if isinstance(st, ast.Import):
                for a in st.names:
                    mod.imports[a.asname or a.name.split(".")[0]] = a.name if a.asname else a.name.split(".")[0]
            elif isinstance(st, ast.ImportFrom):
                base = self._abs_module(mod, st.level, st.module)
                for a in st.names:
                    mod.imports[a.asname or a.name] = base + "." + a.name
            elif isinstance(st, ast.FunctionDef):
                fi = FuncInfo(mod.name + "." + st.name, mod.name, st, None, [self._deco(d) for d in st.decorator_list])
                mod.functions[st.name] = fi
                self.functions[fi.qualname] = fi
            elif isinstance(st, ast.ClassDef):
                ci = ClassInfo(mod.name + "." + st.name, mod.name, st)
                ci.raw_bases = [ast.unparse(b) for b in st.bases]
                for b in st.body:
                    if isinstance(b, ast.FunctionDef):
                        fi = FuncInfo(ci.qualname + "." + b.name, mod.name, b, ci.qualname, [self._deco(d) for d in b.decorator_list])
                        # property setter etc. ignored (none in repo)
                        ci.methods[b.name] = fi
                        self.functions[fi.qualname] = fi
                    elif isinstance(b, ast.Assign):
                        for t in b.targets:
                            if isinstance(t, ast.Name):
                                ci.attrs[t.id] = b.value
                    elif isinstance(b, ast.AnnAssign) and isinstance(b.target, ast.Name):
                        ci.annotations[b.target.id] = b.annotation
                        if b.value is not None:
                            ci.attrs[b.target.id] = b.value
                mod.classes[st.name] = ci
                self.classes[ci.qualname] = ci
            elif isinstance(st, ast.Assign):
                for t in st.targets:
                    if isinstance(t, ast.Name):
                        mod.globals[t.id] = st.value
            elif isinstance(st, ast.AnnAssign) and isinstance(st.target, ast.Name) and st.value is not None:
                mod.globals[st.target.id] = st.value

    @staticmethod
    def _deco(d: ast.expr) -> str:
        s = ast.unparse(d)
        return s.split("(")[0].split(".")[-1] if s.startswith("torch.") is False else s

    # ------------------------------------------------------------------ names
    def resolve_name(self, module: str, name: str, _depth=0) -> Optional[str]:
        """Resolve a dotted/global name used in `module` to a qualified name of a
        function/class/module in the program, following re-exports."""
        mod = self.modules.get(module)
        if mod is None or _depth > 10:
            return None
        head, _, rest = name.partition(".")
        if head in mod.functions:
            return mod.functions[head].qualname if not rest else None
        if head in mod.classes:
            q = mod.classes[head].qualname
            return q + ("." + rest if rest else "")
        if head in mod.imports:
            target = mod.imports[head]
            q = self.canonical(target)
            if q is None:
                return target + ("." + rest if rest else "")  # external (torch, math, ...)
            if rest:
                if q in self.modules:
                    return self.resolve_name(q, rest, _depth + 1)
                return q + "." + rest
            return q
        return None

    def canonical(self, qual: str, _depth=0) -> Optional[str]:
        """Follow re-exports: 'pfhedge.instruments.BaseDerivative' -> defining qualname."""
        if _depth > 10:
            return None
        if qual in self.functions or qual in self.classes or qual in self.modules:
            return qual
        modname, _, attr = qual.rpartition(".")
        if modname in self.modules:
            mod = self.modules[modname]
            if attr in mod.functions:
                return mod.functions[attr].qualname
            if attr in mod.classes:
                return mod.classes[attr].qualname
            if attr in mod.imports:
                return self.canonical(mod.imports[attr], _depth + 1)
            sub = modname + "." + attr
            if sub in self.modules:
                return sub
        elif modname:
            parent = self.canonical(modname, _depth + 1)
            if parent and parent != modname:
                return self.canonical(parent + "." + attr, _depth + 1)
        return None

    # ------------------------------------------------------------------ classes
    def _resolve_bases(self):
        for ci in self.classes.values():
            ci.bases = []
            for rb in ci.raw_bases:
                q = self.resolve_name(ci.module, rb)
                ci.bases.append(q if q else rb)

    def mro(self, cls: str) -> List[str]:
        ci = self.classes.get(cls)
        if ci is None:
            return [cls]
        seqs = [self.mro(b) for b in ci.bases] + [list(ci.bases)]
        res = [cls]
        seqs = [s for s in seqs if s]
        while seqs:
            for s in seqs:
                cand = s[0]
                if not any(cand in t[1:] for t in seqs):
                    break
            else:
                raise RuntimeError("inconsistent MRO for " + cls)
            res.append(cand)
            seqs = [[x for x in s if x != cand] for s in seqs]
            seqs = [s for s in seqs if s]
        return res

    def method(self, q: str) -> Optional[FuncInfo]:
        """`pkg.mod.Class.name` resolved the way an attribute access on an instance of Class resolves it (a method pulled up into a base
        class is still found); a plain function name is looked up as such"""
        cls, _, name = q.rpartition(".")
        if cls in self.classes:
            return self.lookup_method(cls, name)
        return self.functions.get(q)

    def lookup_method(self, cls: str, name: str, after: Optional[str] = None) -> Optional[FuncInfo]:
        mro = self.mro(cls)
        if after is not None and after in mro:
            mro = mro[mro.index(after) + 1 :]
        for c in mro:
            ci = self.classes.get(c)
            if ci is None:
                continue
            if name in ci.aliases:
                return self.functions.get(ci.aliases[name])
            if name in ci.methods:
                return ci.methods[name]
        return None

    def lookup_class_attr(self, cls: str, name: str):
        for c in self.mro(cls):
            ci = self.classes.get(c)
            if ci and name in ci.attrs:
                return ci, ci.attrs[name]
        return None, None

    def lookup_annotation(self, cls: str, name: str):
        for c in self.mro(cls):
            ci = self.classes.get(c)
            if ci and name in ci.annotations:
                return ci, ci.annotations[name]
        return None, None

    def instance_attrs(self, cls: str):
        """Names assigned as `self.<name> = ...` in any method of the classes in the MRO."""
        cache = self.__dict__.setdefault("_iattr", {})
        if cls in cache:
            return cache[cls]
        out = set()
        for c in self.mro(cls):
            ci = self.classes.get(c)
            if ci is None:
                continue
            for fi in ci.methods.values():
                args = fi.node.args.args
                if not args:
                    continue
                me = args[0].arg
                for n in ast.walk(fi.node):
                    if isinstance(n, (ast.Assign, ast.AnnAssign, ast.AugAssign)):
                        targets = n.targets if isinstance(n, ast.Assign) else [n.target]
                        for t in targets:
                            for tt in ast.walk(t):
                                if isinstance(tt, ast.Attribute) and isinstance(tt.value, ast.Name) and tt.value.id == me:
                                    out.add(tt.attr)
        cache[cls] = out
        return out

    def memo_attrs(self, cls: str):
        """private instance attributes that some method of the MRO sets to the constant None (`self._x = None`, `self._x: Optional[T] = None`):
        the shape of a memo - `self._x is None` on such an attribute is a live hit/miss decision, not a constant"""
        cache = self.__dict__.setdefault("_mattr", {})
        if cls in cache:
            return cache[cls]
        out = set()
        for c in self.mro(cls):
            ci = self.classes.get(c)
            if ci is None:
                continue
            for fi in ci.methods.values():
                args = fi.node.args.args
                if not args:
                    continue
                me = args[0].arg
                for n in ast.walk(fi.node):
                    if isinstance(n, (ast.Assign, ast.AnnAssign)) and isinstance(getattr(n, "value", None), ast.Constant) and n.value.value is None:
                        for t in (n.targets if isinstance(n, ast.Assign) else [n.target]):
                            if isinstance(t, ast.Attribute) and isinstance(t.value, ast.Name) and t.value.id == me and t.attr.startswith("_"):
                                out.add(t.attr)
        cache[cls] = out
        return out

    def subclasses(self, cls: str) -> List[str]:
        return [c for c in self.classes if cls in self.mro(c)[1:]]

    def rebinding_args(self, call):
        """(class expr, name expr, value expr) of `_set_attr_and_docstring(Cls, "name", value)` / `_set_docstring(...)`, by position or by the
        parameter names of the helper"""
        helper = self.functions.get("pfhedge._utils.doc." + call.func.id) if isinstance(call.func, ast.Name) else None
        names = [a.arg for a in helper.node.args.args] if helper is not None else ["object", "name", "value"]
        got = dict(zip(names, call.args))
        for k in call.keywords:
            if k.arg is not None:
                got[k.arg] = k.value
        if len(names) >= 3 and all(n in got for n in names[:3]):
            return [got[n] for n in names[:3]]
        return None

    def _apply_rebinding(self):
        """_set_attr_and_docstring(Cls, "name", Base.name) re-binds a class attribute."""
        for mod in self.modules.values():
            for st in mod.tree.body:
                if isinstance(st, ast.Expr) and isinstance(st.value, ast.Call):
                    c = st.value
                    if isinstance(c.func, ast.Name) and c.func.id == "_set_attr_and_docstring":
                        a3 = self.rebinding_args(c)
                        if a3 is None:
                            continue
                        cls = self.resolve_name(mod.name, ast.unparse(a3[0]))
                        name = a3[1].value if isinstance(a3[1], ast.Constant) else None
                        target = self.resolve_name(mod.name, ast.unparse(a3[2]))
                        if cls in self.classes and name and target:
                            # Base.name -> resolve through MRO of Base
                            bcls, _, meth = target.rpartition(".")
                            fi = self.lookup_method(bcls, meth) if bcls in self.classes else None
                            if fi is not None:
                                self.classes[cls].aliases[name] = fi.qualname


if __name__ == "__main__":
    p = Program()
    print(len(p.modules), "modules", len(p.functions), "functions", len(p.classes), "classes")
    print(p.mro("pfhedge.instruments.derivative.european.EuropeanOption"))
    print(p.lookup_method("pfhedge.instruments.derivative.european.EuropeanOption", "simulate").qualname)
    print(p.resolve_name("pfhedge.nn.modules.hedger", "pl"), p.resolve_name("pfhedge.features._base", "BaseDerivative"))
    print(p.mro("pfhedge.features.features.MaxLogMoneyness"))
    print(p.mro("pfhedge.features.container.ModuleOutput"))
