"""Shared extraction of Black-Scholes functional terms as sympy expressions (C07/C08/C09)."""
import sympy as sp

from .algebra import N, ToSympy, n, ncdf, npdf
from .interp import Interp
from .term import Sym
from .report import AnalysisError

F = "pfhedge.nn.functional."
S, K, t, v, M = sp.symbols("S K t v M", positive=True)
s_expr = sp.log(S / K)
m_expr = sp.log(M / K)

s_, t_, v_, K_, m_ = [Sym(x, ("tensor",)) for x in ("s", "t", "v", "K", "m")]


def extract(prog, interp, fname, regime=None, **flags):
    """sympy expression of pfhedge.nn.functional.<fname> on the interior domain.
    regime: None | 'below' (running max below strike: m<0) | 'above' (m>0)"""
    fi = prog.functions.get(F + fname)
    if fi is None:
        raise AnalysisError(f"anchor vanished: {F + fname}")
    return extract_fi(prog, interp, fi, regime, None, **flags)


def extract_fi(prog, interp, fi, regime=None, self_obj=None, **flags):
    """the same for any function or (with self_obj) method taking the Black-Scholes arguments by their usual names"""
    fname = fi.qualname
    params = [a.arg for a in fi.node.args.args if a.arg != "self"]
    kw = {}
    for p in params:
        if p == "log_moneyness":
            kw[p] = s_
        elif p == "time_to_maturity":
            kw[p] = t_
        elif p == "volatility":
            kw[p] = v_
        elif p == "strike":
            kw[p] = K_
        elif p == "max_log_moneyness":
            kw[p] = m_
        elif p in flags:
            kw[p] = flags[p]
    res = [r for r in interp.explore(fi, [], kw, self_obj=self_obj, max_paths=50) if r["raises"] is None]
    if len(res) != 1:
        raise AnalysisError(f"{fname}: expected one non-raising path, found {len(res)}")
    term = res[0]["value"]
    msym = sp.Symbol("m", negative=True) if regime == "below" else sp.Symbol("m", positive=True) if regime == "above" else sp.Symbol("m", real=True)
    ts = ToSympy(symbols={"s": sp.Symbol("s", real=True), "t": t, "v": v, "K": K, "m": msym})
    e = ts.conv(term)
    e = e.subs({ts.symbols["s"]: s_expr})
    Q = sp.Symbol("Q_regime", positive=True)
    if regime == "above":
        e = e.subs(msym, m_expr)
        cond_subs = {M: K * (1 + Q)}
    elif regime == "below":
        cond_subs = {msym: -sp.log(1 + Q)}
    elif regime == "at":  # the running maximum equals the strike exactly (e.g. an at-the-money option at inception)
        e = e.subs(msym, 0)
        cond_subs = {}
    else:
        cond_subs = {}
    e = resolve_piecewise(e, cond_subs)
    return term, e, res[0]


def resolve_piecewise(e, cond_subs):
    """decide the conditions of where()-terms under the regime's assumptions and keep the selected branch"""
    def pick(pw):
        for val, cond in pw.args:
            c = cond
            if cond_subs:
                c = decide_rel(cond.subs(cond_subs))
            if c == True:
                return val
            if c == False:
                continue
            return pw  # undecided: leave as is
        return pw
    prev = None
    while prev != e:
        prev = e
        e = e.replace(lambda x: isinstance(x, sp.Piecewise), pick)
    return e


def concretize(e):
    return e.replace(ncdf, N).replace(npdf, n)


def is_zero(e, timeout=30):
    r = sp.simplify(concretize(e))
    return r == 0, r


def decide_rel(c):
    if c in (sp.true, sp.false):
        return c
    if isinstance(c, sp.core.relational.Relational):
        d = sp.factor(sp.simplify(c.lhs - c.rhs))
        pos, neg, zero = d.is_positive, d.is_negative, d == 0
        if isinstance(c, (sp.Gt,)):
            return sp.true if pos else sp.false if (neg or zero) else c
        if isinstance(c, (sp.Ge,)):
            return sp.true if (pos or zero or d.is_nonnegative) else sp.false if neg else c
        if isinstance(c, (sp.Lt,)):
            return sp.true if neg else sp.false if (pos or zero) else c
        if isinstance(c, (sp.Le,)):
            return sp.true if (neg or zero or d.is_nonpositive) else sp.false if pos else c
    return sp.simplify(c)


def default_call_is_call(prog, interp, run, rule, fnames, base=F, extra=None):
    """a functional called without `call=` is the call-option form (the documented default)"""
    from .report import Finding
    for fname in fnames:
        fi = prog.functions.get(base + fname)
        if fi is None:
            raise AnalysisError(f"anchor vanished: {base + fname}")
        params = [a.arg for a in fi.node.args.args]
        if "call" not in params:
            continue
        kw = {}
        for p_ in params:
            if p_ == "call":
                continue
            kw[p_] = {"log_moneyness": s_, "time_to_maturity": t_, "volatility": v_, "strike": K_, "max_log_moneyness": m_}.get(p_, (extra or {}).get(p_))
        kw = {k: v for k, v in kw.items() if v is not None}
        r0 = [r for r in interp.explore(fi, [], dict(kw)) if r["raises"] is None]
        r1 = [r for r in interp.explore(fi, [], dict(kw, call=True)) if r["raises"] is None]
        ok = len(r0) == 1 and len(r1) == 1 and r0[0]["value"] == r1[0]["value"]
        run.oblige(rule, f"{fname}: call=True is the default", ok, "")
        if not ok:
            run.fail(Finding(rule, fi.qualname, f"{fname}(...) differs from {fname}(..., call=True)", "without the flag the functional must be the call-option form",
                             file=str(prog.modules[fi.module].path), line=fi.node.lineno, case="default"))
