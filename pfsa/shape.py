"""Symbolic shape inference over Terms (prototype of the SHAPE engine)."""
import sympy as sp

from .term import Op, Sym, Term, is_num

T = sp.Symbol("T", integer=True, positive=True)
N = sp.Symbol("N", integer=True, positive=True)


class ShapeError(Exception):
    pass


class Unknown(Exception):
    pass


def dim_expr(x, env=None):
    if isinstance(x, bool):
        raise Unknown(x)
    if isinstance(x, int):
        return sp.Integer(x)
    if isinstance(x, Sym):
        return {"T": T, "N": N}.get(x.name, sp.Symbol(x.name, integer=True, positive=True))
    if isinstance(x, Op):
        if x.op in ("add", "sub", "mul"):
            u, v = dim_expr(x.args[0], env), dim_expr(x.args[1], env)
            return {"add": u + v, "sub": u - v, "mul": u * v}[x.op]
        if x.op == "py_int" or x.op == "py_ceil":
            return sp.Symbol("n_" + str(abs(hash(x)) % 10000), integer=True, positive=True)
        if x.op == "getitem" and isinstance(x.args[0], Op) and x.args[0].op == "size":
            return shape_of(x.args[0].args[0], env)[x.args[1]]
        if x.op == "size" and len(x.args) == 2 and isinstance(x.args[1], int):
            return shape_of(x.args[0], env)[x.args[1]]
    raise Unknown(f"size {x!r}")


def size_tuple(args, env=None):
    if len(args) == 1 and isinstance(args[0], (tuple, list)):
        args = args[0]
    return tuple(dim_expr(a, env) for a in args)


def broadcast(*shapes):
    shapes = [s for s in shapes if s is not None]
    if not shapes:
        return ()
    n = max(len(s) for s in shapes)
    out = []
    for k in range(1, n + 1):
        ds = [s[-k] for s in shapes if len(s) >= k]
        big = [d for d in ds if d != 1]
        if not big:
            out.append(sp.Integer(1))
            continue
        if any(sp.simplify(d - big[0]) != 0 for d in big):
            raise ShapeError(f"cannot broadcast extents {sorted({str(d) for d in big})}")
        out.append(big[0])
    return tuple(reversed(out))


def norm_dim(d, n):
    return d + n if d < 0 else d


def shape_of(t, env=None):
    env = env or {}
    if is_num(t) or isinstance(t, bool):
        return ()
    if isinstance(t, Sym):
        if t.name in env:
            return env[t.name]
        return ()  # scalars / parameters
    if not isinstance(t, Op):
        raise Unknown(repr(t))
    op, a, kw = t.op, t.args, t.kwd()
    so = lambda x: shape_of(x, env)
    if op in ("empty", "zeros", "ones", "randn", "rand"):
        return size_tuple(a, env)
    if op == "call" and "__call__" in env:
        r = env["__call__"](t, so)
        if r is not None:
            return r
    if op == "call":
        try:
            return size_tuple(a[1:], env)
        except Unknown:
            return so(a[1]) if len(a) > 1 and isinstance(a[1], Term) else ()
    if op in ("sample", "draw"):
        base = size_tuple(a[1:2], env) if len(a) > 1 else ()
        d = a[0]
        if isinstance(d, Op) and d.op == "dist" and d.args and d.args[0] == "MultivariateNormal":
            return base + (sp.Integer(2),)
        return base
    if op == "arange":
        if len(a) == 1:
            return (dim_expr(a[0], env),)
        return (dim_expr(a[1], env) - dim_expr(a[0], env),)
    if op in ("as_tensor", "tensor", "new_tensor"):
        v = a[-1] if op == "new_tensor" else a[0]
        if isinstance(v, Term):
            return so(v)
        if isinstance(v, Sym):
            return so(v)
        def lit(x):
            return (sp.Integer(len(x)),) + lit(x[0]) if isinstance(x, (list, tuple)) and x else ()
        return lit(v)
    if op in ("clone", "contiguous", "detach", "requires_grad_", "float", "double", "half"):
        return so(a[0])
    if op in ("empty_like", "zeros_like", "ones_like", "randn_like", "rand_like", "full_like"):
        return so(a[0])
    if op == "new_zeros":
        return size_tuple(a[1:], env)
    if op in ("loop",):
        return so(a[2])
    if op == "setitem":
        return so(a[0])
    if op == "where":
        return broadcast(so(a[0]), so(a[1]), so(a[2]))
    if op in ("add", "sub", "mul", "div", "pow", "maximum", "minimum", "lt", "le", "gt", "ge", "eq", "ne", "logical_and", "logical_or", "lerp"):
        return broadcast(*[so(x) for x in a if isinstance(x, Term)])
    if op in ("cumsum", "cumprod", "cummax", "cummin", "flip", "exp", "log", "sqrt", "square", "abs", "neg", "relu", "to", "clamp", "ncdf", "npdf", "sin", "cos", "attr_values", "float", "double", "not"):
        return so(a[0])
    if op in ("mean", "sum", "prod", "max", "min", "amax", "amin", "logsumexp", "any", "all"):
        s = so(a[0])
        d = kw.get("dim", a[1] if len(a) > 1 and isinstance(a[1], (int, tuple)) else None)
        if d is None:
            return ()
        ds = {norm_dim(x, len(s)) for x in (d if isinstance(d, tuple) else (d,))}
        if kw.get("keepdim"):
            return tuple(sp.Integer(1) if k in ds else e for k, e in enumerate(s))
        return tuple(e for k, e in enumerate(s) if k not in ds)
    if op == "diff":
        s = so(a[0])
        d = norm_dim(kw.get("dim", -1), len(s))
        return tuple(e - 1 if k == d else e for k, e in enumerate(s))
    if op == "unsqueeze":
        s = list(so(a[0]))
        d = a[1] if a[1] >= 0 else a[1] + len(s) + 1
        s.insert(d, sp.Integer(1))
        return tuple(s)
    if op == "squeeze":
        s = list(so(a[0]))
        if len(a) > 1:
            d = norm_dim(a[1], len(s))
            if s[d] == 1:
                s.pop(d)
            return tuple(s)
        return tuple(e for e in s if e != 1)
    if op == "transpose":
        s = list(so(a[0]))
        i, k = norm_dim(a[1], len(s)), norm_dim(a[2], len(s))
        s[i], s[k] = s[k], s[i]
        return tuple(s)
    if op == "view":
        s = so(a[0])
        tgt = a[1:]
        if tuple(tgt) == (-1, 1):
            return (sp.Mul(*s) if s else sp.Integer(1), sp.Integer(1))
    if op in ("reshape", "view") and len(a) > 1:
        s = so(a[0])
        raw = a[1:]
        if len(raw) == 1 and isinstance(raw[0], (tuple, list)):
            raw = tuple(raw[0])
        total = sp.Mul(*s) if s else sp.Integer(1)
        known = [dim_expr(e, env) for e in raw if not (isinstance(e, int) and e == -1)]
        if len(known) < len(raw) - 1:
            raise ShapeError(f"{op}: more than one inferred extent")
        rest = sp.Mul(*known) if known else sp.Integer(1)
        tgt = tuple(sp.simplify(total / rest) if (isinstance(e, int) and e == -1) else dim_expr(e, env) for e in raw)
        diff = sp.simplify(total - sp.Mul(*tgt))
        if diff.is_zero is False:
            raise ShapeError(f"{op}: {tuple(str(e) for e in s)} cannot be viewed as {tuple(str(e) for e in tgt)}")
        # a re-shape keeps the order of the elements in memory: rules that care about the layout look at the pairs recorded here
        if isinstance(env, dict):
            env.setdefault("__reshapes__", []).append((tuple(s), tgt))
        return tgt
    if op in ("expand_as", "view_as", "reshape_as"):
        tgt = so(a[1])
        if op == "expand_as":
            broadcast(so(a[0]), tgt)  # raises ShapeError when the source cannot be expanded to the target
        return tgt
    if op == "expand":
        s = so(a[0])
        tgt = a[1:]
        out = []
        for k, e in enumerate(tgt):
            out.append(s[k - len(tgt) + len(s)] if e == -1 else dim_expr(e, env))
        return tuple(out)
    if op in ("cat", "stack"):
        seq = a[0]
        dim = kw.get("dim", a[1] if len(a) > 1 else 0)
        if not isinstance(seq, (list, tuple)):
            raise Unknown("cat of a symbolic list")
        reps = [dim_expr(x.args[1][1], env) if isinstance(x, Op) and x.op == "forall" and isinstance(x.args[1], tuple) and x.args[1][0] == "range" and len(x.args[1]) == 2 else sp.Integer(1) for x in seq]
        shapes = [so(x) for x in seq]
        n = len(shapes[0])
        if op == "cat" and any(r != 1 for r in reps):
            d = norm_dim(dim, n)
            shapes = [tuple(e * r if k == d else e for k, e in enumerate(sh)) for sh, r in zip(shapes, reps)]
        if op == "stack":
            d = dim if dim >= 0 else dim + n + 1
            base = broadcast(*shapes)
            return base[:d] + (sum(reps, sp.Integer(0)),) + base[d:]   # a `forall` element stands for one tensor per index of its range
        d = norm_dim(dim, n)
        for sh in shapes:
            if len(sh) != n:
                raise ShapeError("cat of tensors of different rank")
            for k in range(n):
                if k != d and sp.simplify(sh[k] - shapes[0][k]) != 0:
                    raise ShapeError(f"cat: extents differ on axis {k}: {sh[k]} vs {shapes[0][k]}")
        return tuple(sum(sh[k] for sh in shapes) if k == d else shapes[0][k] for k in range(n))
    if op == "index":
        s = so(a[0])
        idx = a[1] if isinstance(a[1], tuple) else (a[1],)
        # expand Ellipsis
        n_explicit = len([i for i in idx if i is not Ellipsis and i is not None])
        full = []
        seen_ellipsis = False
        n_explicit += max(0, len([i for i in idx if i is Ellipsis]) - 1)
        for i in idx:
            if i is Ellipsis and seen_ellipsis:
                full.append(slice(None))  # x[..., index] with index = ... (the whole axis)
            elif i is Ellipsis:
                seen_ellipsis = True
                full.extend([slice(None)] * (len(s) - n_explicit))
            else:
                full.append(i)
        full += [slice(None)] * (len(s) - len([i for i in full if i is not None]))
        out = []
        k = 0
        for i in full:
            if i is None:
                out.append(sp.Integer(1))
                continue
            e = s[k]
            k += 1
            if isinstance(i, slice):
                def bound(b):
                    # Python's wrap-around for negative bounds: -k counts from the end (k <= extent assumed and checked below)
                    if isinstance(b, int) and b < 0:
                        return e + b
                    if isinstance(b, Op) and b.op == "neg":
                        k_ = dim_expr(b.args[0], env)
                        if sp.simplify(e - k_).is_negative:
                            raise ShapeError(f"slice bound -{k_} exceeds the extent {e}")
                        return e - k_
                    return dim_expr(b, env)

                start = 0 if i.start is None else bound(i.start)
                if isinstance(i.start, (Op, Sym)) and not (isinstance(i.start, Op) and i.start.op == "neg") and sp.simplify(e - start).is_negative:
                    raise ShapeError(f"slice start {start} exceeds the extent {e}")
                if i.stop is None:
                    out.append(e - start)
                else:
                    stop = dim_expr(i.stop, env) if not isinstance(i.stop, int) else sp.Integer(i.stop)
                    out.append((e + stop - start) if (isinstance(i.stop, int) and i.stop < 0) else sp.Min(stop, e) - start if False else stop - start)
            elif isinstance(i, list):
                out.append(sp.Integer(len(i)))
            elif isinstance(i, Term):
                si = so(i)
                if si == ():
                    continue
                raise Unknown("tensor index")
            else:
                continue  # integer index drops the axis
        return tuple(out)
    if op.startswith("py_") or op in ("getitem", "size", "numel", "len", "attr_tiny", "finfo"):
        return ()  # Python-level scalar
    if op == "conv1d":
        # conv1d(input (B, Cin, L), weight (Cout, Cin, Lw), padding=p) -> (B, Cout, L + 2p - Lw + 1)   (stride 1, dilation 1)
        si, sw = so(a[0]), so(a[1])
        if len(si) != 3 or len(sw) != 3:
            raise ShapeError(f"conv1d of tensors of rank {len(si)} and {len(sw)}")
        p_ = kw.get("padding", 0)
        p_ = dim_expr(p_, env) if not isinstance(p_, int) else sp.Integer(p_)
        if any(k in kw for k in ("stride", "dilation", "groups")):
            raise Unknown("conv1d with stride/dilation/groups")
        return (si[0], sw[0], sp.simplify(si[2] + 2 * p_ - sw[2] + 1))
    if op == "forall":
        return so(a[2])
    raise Unknown(op)
