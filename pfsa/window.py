"""Time-dependence (window) analysis over Terms (prototype).

dep(term) -> {root_name: (lo, hi)} meaning: the value at *its own* time coordinate reads
columns lo..hi of the market series `root` (bounds are sympy expressions in j (own column),
i (step) and T).  For tensors whose time axis was reduced/selected, bounds do not contain j.
A tensor value is described by (deps, has_time_axis).
"""
import sympy as sp

from .term import Op, Sym, Term, is_num

j = sp.Symbol("j", integer=True, nonnegative=True)
T = sp.Symbol("T", integer=True, positive=True)
ALL = ("all",)


def to_sp(x, env):
    if is_num(x):
        return sp.nsimplify(x)
    if isinstance(x, Sym):
        return env.setdefault(x.name, sp.Symbol(x.name.replace("#", "_"), integer=True, nonnegative=True))
    if isinstance(x, Op) and x.op in ("add", "sub", "mul"):
        a, b = to_sp(x.args[0], env), to_sp(x.args[1], env)
        return {"add": a + b, "sub": a - b, "mul": a * b}[x.op]
    if isinstance(x, Op) and x.op == "mod":
        return to_sp(x.args[0], env)  # 0 <= i < T
    if isinstance(x, Op) and x.op == "getitem" and isinstance(x.args[0], Op) and x.args[0].op == "size" and x.args[1] in (1, -1) and len(x.args[0].args) == 1:
        return T  # number of columns of a (N, T) market buffer
    if isinstance(x, Op) and x.op == "size" and len(x.args) == 2 and x.args[1] in (1, -1):
        return T
    raise ValueError(f"index expression {x!r}")


class Dep:
    def __init__(self, deps=None, time=False):
        self.deps, self.time = dict(deps or {}), time

    def join(self, o):
        d = dict(self.deps)
        for k, (lo, hi) in o.deps.items():
            if k in d:
                lo0, hi0 = d[k]
                d[k] = (sp.Min(lo0, lo), sp.Max(hi0, hi))
            else:
                d[k] = (lo, hi)
        return Dep(d, self.time or o.time)

    def __repr__(self):
        return "{" + ", ".join(f"{k}:[{sp.simplify(lo)},{sp.simplify(hi)}]" for k, (lo, hi) in self.deps.items()) + "}" + ("@j" if self.time else "")


SHAPE_ONLY = {"zeros_like", "ones_like", "empty_like", "full_like", "new_zeros", "size", "attr_dtype", "attr_device", "attr_shape", "numel"}
POINTWISE1 = {"log", "exp", "sqrt", "square", "abs", "relu", "neg", "clamp", "unsqueeze", "squeeze", "expand", "attr_values", "to_value",
              "ncdf", "npdf", "pow", "float", "double"}


class Window:
    def __init__(self, market_tags=("buffer",), market_names=()):
        self.env = {}
        self.market_tags = set(market_tags)
        self.market_names = set(market_names)
        self.notes = []

    def is_market(self, s):
        return bool(self.market_tags & s.tags) or s.name in self.market_names

    def of(self, t):
        if not isinstance(t, Term):
            if isinstance(t, (list, tuple)):
                d = Dep()
                for x in t:
                    d = d.join(self.of(x))
                return d
            return Dep()
        if isinstance(t, Sym):
            if self.is_market(t):
                return Dep({t.name: (j, j)}, True)
            return Dep()
        op, a = t.op, t.args
        if op in SHAPE_ONLY:
            return Dep()
        if op == "to":  # x.to(y): value of x, dtype of y
            return self.of(a[0])
        if op == "index":
            return self.index(t, a[0], a[1])
        if op in ("cummax", "cummin", "cumsum", "cumprod"):
            d = self.of(a[0])
            return Dep({k: (0 * j, hi) for k, (lo, hi) in d.deps.items()}, d.time)
        if op in ("max", "min", "amax", "amin", "sum", "mean", "prod", "logsumexp", "topk", "quantile", "std", "var"):
            d = self.of(a[0])
            dim = t.kwd().get("dim", a[1] if len(a) > 1 else None)
            if d.time and dim in (-1, None) or (isinstance(dim, tuple) and -1 in dim):
                return Dep({k: (sp.Min(lo.subs(j, 0), lo.subs(j, T - 1)), sp.Max(hi.subs(j, 0), hi.subs(j, T - 1))) for k, (lo, hi) in d.deps.items()}, False)
            return d
        if op == "diff":
            d = self.of(a[0])
            return Dep({k: (lo, hi + 1) for k, (lo, hi) in d.deps.items()}, d.time)
        if op == "flip":
            d = self.of(a[0])
            return Dep({k: (T - 1 - hi, T - 1 - lo) for k, (lo, hi) in d.deps.items()}, d.time)
        if op == "call":
            f = a[0]
            d = self.of(list(a[1:]))
            self.notes.append(("opaque call", f))
            if isinstance(f, Sym) and (f.name in self.market_names or self.is_market(f)):
                d = d.join(Dep({f.name: (j, j)}, True))
            return d
        # default: pointwise join of tensor operands
        d = Dep()
        for x in list(a) + [v for _, v in t.kw]:
            d = d.join(self.of(x))
        return d

    def index(self, t, base, idx):
        d = self.of(base)
        if not d.time:
            return d
        items = idx if isinstance(idx, tuple) else (idx,)
        last = items[-1]
        if last is Ellipsis or (isinstance(last, slice) and last == slice(None, None, None)):
            return d
        if isinstance(last, list) and len(last) == 1:
            col = to_sp(last[0], self.env)
            return Dep({k: (lo.subs(j, col), hi.subs(j, col)) for k, (lo, hi) in d.deps.items()}, False)
        if isinstance(last, int) or isinstance(last, Term):
            col = (T + last) if isinstance(last, int) and last < 0 else to_sp(last, self.env)
            return Dep({k: (lo.subs(j, col), hi.subs(j, col)) for k, (lo, hi) in d.deps.items()}, False)
        if isinstance(last, slice):
            start = 0 if last.start is None else to_sp(last.start, self.env)
            if last.stop is None:
                # x[..., s:] : own column j reads base column j+s
                return Dep({k: (lo.subs(j, j + start), hi.subs(j, j + start)) for k, (lo, hi) in d.deps.items()}, True)
            stop = to_sp(last.stop, self.env)
            # x[..., s:e] : a window; its own columns are base columns s..e-1 (shifted by s); remember the cap through hi<=e-1
            dd = {k: (lo.subs(j, j + start), sp.Min(hi.subs(j, j + start), hi.subs(j, stop - 1))) for k, (lo, hi) in d.deps.items()}
            out = Dep(dd, True)
            out.cap = stop  # number of base columns visible
            out.window = (start, stop)
            return out
        raise ValueError(f"index {idx!r}")
