"""Findings, obligations, evidence files, known-findings matching, exit codes."""
import json
import os
import pathlib
import re
import sys
import time

VERIF = pathlib.Path(os.environ.get("PFSA_VERIF", "/verif"))
EVIDENCE_DIR = VERIF / "evidence"
REPLAY_DIR = EVIDENCE_DIR / "replay"
KNOWN = VERIF / "known_findings.json"


class AnalysisError(Exception):
    """The analyser could not decide (vanished anchor, unsupported construct, too few instances)."""


def norm(text):
    return re.sub(r"\s+", " ", str(text)).strip()


class Finding:
    def __init__(self, rule, function, construct, message, file=None, line=None, case=None, witness=None):
        self.rule, self.function, self.construct = rule, function, norm(construct)
        self.message, self.file, self.line, self.case, self.witness = norm(message), file, line, case, witness

    def key(self):
        return (self.rule, self.function, self.construct)

    def to_json(self):
        return {k: v for k, v in self.__dict__.items() if v is not None}

    def diagnosis(self):
        loc = f"{self.file}:{self.line}" if self.file else "-"
        case = f" case={self.case}" if self.case else ""
        return f"  {loc}  {self.rule}  {self.function}{case}  {self.construct[:160]}  :: {self.message[:300]}"


class Run:
    """Collects obligations and findings of one check run and writes evidence."""

    def __init__(self, prop, tier, level, rule_doc):
        self.prop, self.tier, self.level, self.rule_doc = prop, tier, level, rule_doc
        self.t0 = time.time()
        self.obligations = []  # (rule, instance, ok, detail)
        self.findings = []
        self.functions = set()
        self.call_sites = 0
        self.samples = []
        self.assumptions = []
        self.trusted = []
        self.min_instances = {}
        self.matched = {}
        self.notes = []

    def oblige(self, rule, instance, ok, detail="", sample=None):
        inst = norm(instance)
        for k, (r, i, o, d) in enumerate(self.obligations):
            if r == rule and i == inst:  # same obligation reached again (other path / entry point): keep the worst verdict
                if o and not ok:
                    self.obligations[k] = (rule, inst, False, norm(detail)[:400])
                return ok
        self.obligations.append((rule, inst, bool(ok), norm(detail)[:400]))
        self.matched[rule] = self.matched.get(rule, 0) + 1
        if sample is not None and len(self.samples) < 12:
            self.samples.append(sample)
        return ok

    def fail(self, finding):
        if any(f.key() == finding.key() for f in self.findings):
            return
        self.findings.append(finding)

    def require(self, rule, minimum):
        self.min_instances[rule] = minimum

    def check_minimums(self):
        for rule, m in self.min_instances.items():
            if self.matched.get(rule, 0) < m:
                raise AnalysisError(f"{rule}: matched {self.matched.get(rule, 0)} instances, at least {m} were confirmed on the pinned tree")

    # ------------------------------------------------------------------ output
    def finish(self):
        if not self.findings:  # with a finding on the table the run is already a violation; skipped obligations are expected
            self.check_minimums()
        known = load_known()
        unexplained, known_hits = [], []
        for f in self.findings:
            hit = match_known(known, self.prop, f)
            (known_hits if hit else unexplained).append((f, hit))
        EVIDENCE_DIR.mkdir(parents=True, exist_ok=True)
        REPLAY_DIR.mkdir(parents=True, exist_ok=True)
        for old in REPLAY_DIR.glob(f"{self.prop}-*.json"):
            old.unlink()
        for f, hit in known_hits:
            print(f"KNOWN-FINDING: property={self.prop} {f.rule} {f.function}: {hit.get('what', f.message)[:300]}")
        for i, (f, _) in enumerate(unexplained):
            path = REPLAY_DIR / f"{self.prop}-{i}.json"
            path.write_text(json.dumps({"property": self.prop, "tier": self.tier, **f.to_json()}, indent=1, default=str))
            print(f"VIOLATION property={self.prop} replay={path}")
            print(f.diagnosis())
        self.write_evidence(len(unexplained), len(known_hits))
        return 1 if unexplained else 0

    def files_of(self):
        """source files of the functions this run interpreted (resolved through the program model when available)"""
        out = set()
        prog = getattr(self, "prog", None)
        for q in self.functions:
            fi = prog.functions.get(q) if prog is not None else None
            if fi is not None:
                try:
                    out.add(str(prog.modules[fi.module].path))
                except Exception:
                    pass
        return sorted(out)

    def write_evidence(self, n_viol, n_known):
        # non-trivial = the obligation was decided on an abstract value obtained from the sources (its detail: a term, window, shape, unit,
        # residual, event order ...); distinct = distinct (rule, value) pairs, so 40 features that all read "{spot:[i,i]}" count once
        distinct = {(r, d) for r, _, _, d in self.obligations if d} or {(r, i) for r, i, _, _ in self.obligations}
        discharged = sum(1 for _, _, ok, _ in self.obligations if ok)
        cov = {
            "explanation": self.rule_doc,
            "evaluations": max(1, len(self.obligations)),
            "distinct_nontrivial": len(distinct),
            "rule": "one evaluation = one (rule, construct, case) obligation decided on the current sources; non-trivial = decided on an abstract value (term, window, "
                    "shape, unit, residual, event order) extracted from the sources; distinct = distinct (rule, abstract value) pairs, so constructs with the same value count once",
            "samples": self.samples or [{"note": "no obligations"}],
            "obligations": len(self.obligations),
            "discharged": discharged,
            "checker_cmd": f"./check {self.prop} {self.tier}",
            "trusted_base": sorted(set(self.trusted)),
            "functions_analysed": sorted(self.functions),
            "call_sites": self.call_sites,
            "rule_instances": dict(sorted(self.matched.items())),
            "obligation_list": [{"rule": r, "instance": i, "ok": ok, "value": d[:160]} for r, i, ok, d in self.obligations],
            "files": self.files_of(),
            "min_instances": self.min_instances,
            "known_findings_reported": n_known,
            "notes": self.notes[:20],
            "exhaustive": True,
        }
        ev = {
            "property_id": self.prop,
            "tier": self.tier,
            "seed": int(os.environ.get("VERIF_SEED", "0") or 0),
            "level": self.level,
            "coverage": cov,
            "assumptions": sorted(set(self.assumptions)),
            "wall_s": round(time.time() - self.t0, 3),
            "violations": n_viol,
        }
        (EVIDENCE_DIR / f"{self.prop}.json").write_text(json.dumps(ev, indent=1, default=str))


def load_known():
    if KNOWN.exists():
        return json.loads(KNOWN.read_text()).get("findings", [])
    return []


def match_known(known, prop, f):
    for k in known:
        if k.get("status") != "known" or k.get("property") != prop:
            continue
        if k.get("rule") == f.rule and k.get("function") == f.function and norm(k.get("construct", "")) == f.construct:
            return k
    return None


def single(results, what="the interpreted function"):
    """the one non-raising path of an exploration; more (a helper that branches, a memo hit) or none is an analysis error - never silently the first"""
    ok = [r for r in results if not r["raises"]]
    if len(ok) != 1:
        conds = "; ".join(",".join(f"{str(c)[:30]}={d}" for c, d, _ in r["cond"]) for r in ok[:4])
        raise AnalysisError(f"{what}: expected one non-raising path, found {len(ok)}" + (f" [{conds}]" if conds else ""))
    return ok[0]
