"""Histories of the derivative's registries (C12.R9, C13.R7, C01.R8h).

Everywhere else the analyser reads `ul()`, `underliers()`, `clauses()`, attribute access to an underlier and `register_underlier` through
short summaries (interp.DEFAULT_INTRINSICS): "ul() is the registered underlier", "clauses() are the registered clauses in order".  Here the
summaries are put to the test.  A second interpreter with those summaries removed and `faithful_registry` on (the class's own `__setattr__`
and `__getattr__` are interpreted) runs short call histories on each concrete derivative class - the calls a user makes between creating a
derivative and reading its payoff - and compares what the object hands out afterwards with what the history put in:

  clauses      add_clause a, b, list, delist           -> named_clauses() == [(a, c1), (b, c2)], clauses() == [c1, c2], pricer None, cost 0.0
  relist       add_clause, list(p, c)                   -> same clauses, spot == p(self), cost == c, is_listed
  relist-zero  list(p0, 0.5), spot, list(p, 0.0)        -> spot == p(self), cost == 0.0
  rebind       ul(), payoff(), d.underlier = u2         -> ul() is u2, d.underlier is u2, underliers() == [u2], payoff() reads u2 only
  re-register  ul(), register_underlier(name, u2)       -> ul() is u2, underliers() == [u2]
  second       register_underlier("other", u3)          -> underliers() == [u1, u3], ul(1) is u3, ul(0) is u1
  fold         payoff(), add_clause a, payoff(), add b  -> c1(self, payoff_fn()), then c2(self, c1(self, payoff_fn()))

The same is done for the buffer registry of the primary instruments (`register_buffer`, `spot`, `get_buffer`, attribute access, `buffers()`,
`named_buffers()`), which the other analyses read through summaries as well:

  buffers      register spot=x, read, register aux=v, spot=y -> spot is y cast to (device, dtype) of the instrument, get_buffer("spot") and the
                                                             attribute agree, names are [spot, aux] in first-registration order, one buffer each
  resimulate   simulate(N), read spot, simulate(M)       -> the second spot is a function of M only, the first of N only, same buffer names

and for what a derivative computes from the simulated paths, with a real BrownianStock as the underlier:

  resim-payoff  d.simulate(N), payoff(), u.simulate(M), payoff(), d.simulate(P), payoff()   -> each payoff is a function of its own simulation only
  resim-state   the same with moneyness / log_moneyness / max_moneyness / max_log_moneyness / time_to_maturity, single step and all steps

A lazily filled cache that one of the writers forgets to invalidate, a reset that takes a registry with it, a reader that keeps the first
answer: each shows up as a history whose last reads do not match.  Every non-raising path of a history is judged; a history without any
non-raising path is an analysis error."""
import ast

from .interp import ClassRef, Interp, Obj, Unsupported
from .report import AnalysisError, Finding
from .source import FuncInfo
from .term import Op, Sym, subst, walk

D = "pfhedge.instruments.derivative."
CLASSES = ["european.EuropeanOption", "lookback.LookbackOption", "european_binary.EuropeanBinaryOption", "american_binary.AmericanBinaryOption",
           "cliquet.EuropeanForwardStartOption", "variance_swap.VarianceSwap"]
P = "pfhedge.instruments.primary.base.BasePrimary"

HISTORIES = {
    "clauses": '''
def history(cls, u1, u2, u3, c1, c2, pricer, cost):
    d = cls(u1)
    d.add_clause("a", c1)
    d.add_clause("b", c2)
    d.list(pricer, cost)
    mid = list(d.named_clauses())
    d.delist()
    return mid, list(d.named_clauses()), list(d.clauses()), d.pricer, d.cost, d.is_listed
''',
    "relist": '''
def history(cls, u1, u2, u3, c1, c2, pricer, cost):
    d = cls(u1)
    d.list(c1, 0.5)
    d.delist()
    d.add_clause("a", c1)
    d.list(pricer, cost)
    return d, list(d.clauses()), d.spot, d.cost, d.is_listed
''',
    "relist-zero": '''
def history(cls, u1, u2, u3, c1, c2, pricer, cost):
    d = cls(u1)
    d.list(c1, 0.5)
    first = d.spot
    d.list(pricer, 0.0)
    return d, d.spot, d.cost
''',
    "rebind": '''
def history(cls, u1, u2, u3, c1, c2, pricer, cost):
    d = cls(u1)
    first = d.ul()
    p0 = d.payoff()
    d.underlier = u2
    return first, d.ul(), d.underlier, list(d.underliers()), p0, d.payoff()
''',
    "re-register": '''
def history(cls, u1, u2, u3, c1, c2, pricer, cost):
    d = cls(u1)
    first = d.ul()
    names = [n for n, _ in d.named_underliers()]
    d.register_underlier(names[0], u2)
    return first, d.ul(), list(d.underliers()), [n for n, _ in d.named_underliers()] == names
''',
    "second": '''
def history(cls, u1, u2, u3, c1, c2, pricer, cost):
    d = cls(u1)
    first = d.ul()
    d.register_underlier("other", u3)
    return list(d.underliers()), d.ul(0), d.ul(1), d.other
''',
    "fold": '''
def history(cls, u1, u2, u3, c1, c2, pricer, cost):
    d = cls(u1)
    p0 = d.payoff()
    d.add_clause("a", c1)
    p1 = d.payoff()
    d.add_clause("b", c2)
    return d, p0, p1, d.payoff()
''',
    "amend": '''
def history(cls, u1, u2, u3, c1, c2, pricer, cost):
    d = cls(u1)
    p0 = d.payoff()
    d.add_clause("a", c1)
    p1 = d.payoff()
    d.add_clause("a", c2)
    return d, p0, p1, d.payoff()
''',
}


def _world():
    mk = lambda n: Obj(P, n, {"dtype": Sym(n + ".dtype"), "device": Sym(n + ".device")})  # noqa: E731
    return dict(u1=mk("u1"), u2=mk("u2"), u3=mk("u3"), c1=Sym("c1", ("callable",)), c2=Sym("c2", ("callable",)),
                pricer=Sym("pricer", ("callable",)), cost=Sym("cost", ("float",)))


def _reads(t, prefix):
    return any(isinstance(s, Sym) and s.name.startswith(prefix + ".") for s in walk(t)) if not isinstance(t, (list, tuple)) else any(_reads(x, prefix) for x in t)


def _rename(t, a, b):
    m = {s: Sym(b + s.name[len(a):], s.tags) for s in walk(t) if isinstance(s, Sym) and s.name.startswith(a + ".")}
    return subst(t, m)


def _judge(name, v, w):
    """list of discrepancies between what the history returned and what it put in"""
    u1, u2, u3, c1, c2, pricer, cost = (w[k] for k in ("u1", "u2", "u3", "c1", "c2", "pricer", "cost"))
    bad = []
    if name == "clauses":
        mid, named, cl, pr, co, listed = v
        if list(mid) != [("a", c1), ("b", c2)]:
            bad.append(f"after list(): named_clauses() == {mid}")
        if list(named) != [("a", c1), ("b", c2)]:
            bad.append(f"after list() and delist(): named_clauses() == {named}, registered were a, b")
        if list(cl) != [c1, c2]:
            bad.append(f"after list() and delist(): clauses() == {cl}")
        if pr is not None or co != 0.0 or listed is not False:
            bad.append(f"after delist(): pricer {pr}, cost {co}, is_listed {listed}")
    elif name == "relist":
        d, cl, spot, co, listed = v
        if list(cl) != [c1]:
            bad.append(f"clauses() == {cl} after list/delist/add_clause/list")
        if not (isinstance(spot, Op) and spot.op == "call" and spot.args[0] == pricer and len(spot.args) == 2 and spot.args[1] is d):
            bad.append(f"spot == {str(spot)[:80]}, listed last with `pricer`")
        if co != cost:
            bad.append(f"cost == {co} after list(pricer, cost)")
        if listed is not True:
            bad.append(f"is_listed == {listed}")
    elif name == "relist-zero":
        d, spot, co = v
        if not (isinstance(spot, Op) and spot.op == "call" and spot.args[0] == pricer and len(spot.args) == 2 and spot.args[1] is d):
            bad.append(f"listed again with another pricer: spot == {str(spot)[:80]}")
        if co != 0.0:
            bad.append(f"listed again with cost 0.0: the cost rate is {co}")
    elif name == "rebind":
        first, ul, attr, uls, p0, p1 = v
        if first is not u1:
            bad.append(f"ul() of a new derivative is {first}")
        if ul is not u2:
            bad.append(f"after `d.underlier = u2`: ul() is {ul}")
        if attr is not u2:
            bad.append(f"after `d.underlier = u2`: d.underlier is {attr}")
        if [x for x in uls] != [u2] or any(x is not u2 for x in uls):
            bad.append(f"after `d.underlier = u2`: underliers() == {uls}")
        if _reads(p1, "u1"):
            bad.append("after `d.underlier = u2`: payoff() still reads the paths of the replaced underlier")
        elif _rename(p0, "u1", "u2") != p1:
            bad.append(f"payoff() on the new underlier is not the payoff on the old one with the underlier exchanged: {str(p1)[:80]}")
    elif name == "re-register":
        first, ul, uls, same_names = v
        if ul is not u2:
            bad.append(f"after register_underlier(<same name>, u2): ul() is {ul}")
        if len(uls) != 1 or uls[0] is not u2:
            bad.append(f"after register_underlier(<same name>, u2): underliers() == {uls}")
        if same_names is not True:
            bad.append("re-registering a name changes the set of names")
    elif name == "second":
        uls, a, b, attr = v
        if len(uls) != 2 or uls[0] is not u1 or uls[1] is not u3:
            bad.append(f"after registering a second underlier: underliers() == {uls}")
        if a is not u1 or b is not u3:
            bad.append(f"ul(0) is {a}, ul(1) is {b}")
        if attr is not u3:
            bad.append(f"d.other is {attr}")
    elif name == "fold":
        d, p0, p1, p2 = v
        want1 = Op("call", (c1, d, p0))
        if not (isinstance(p1, Op) and p1.op == "call" and len(p1.args) == 3 and p1.args[0] == c1 and p1.args[1] is d and p1.args[2] == p0):
            bad.append(f"payoff() after add_clause(a) is {str(p1)[:80]}, expected c1(self, payoff_fn())")
        if not (isinstance(p2, Op) and p2.op == "call" and len(p2.args) == 3 and p2.args[0] == c2 and p2.args[1] is d and p2.args[2] == want1):
            bad.append(f"payoff() after add_clause(a), add_clause(b) is {str(p2)[:100]}, expected c2(self, c1(self, payoff_fn()))")
    elif name == "amend":
        # the clause registered under a name is the LAST one registered under it: a payoff evaluated before the amendment must not survive it
        d, p0, p1, p2 = v
        if not (isinstance(p2, Op) and p2.op == "call" and len(p2.args) == 3 and p2.args[0] == c2 and p2.args[1] is d and p2.args[2] == p0):
            bad.append(f"payoff() after add_clause(a, c1), payoff(), add_clause(a, c2) is {str(p2)[:100]}, expected c2(self, payoff_fn())")
    return bad


def histories_rule(ctx, run, rule, only=None, classes=None):
    prog = ctx.prog
    interp = Interp(prog, max_depth=20)
    for k in list(interp.intrinsics):
        if ".BaseDerivative." in k:
            interp.intrinsics.pop(k)
    interp.faithful_registry = True
    names = [n for n in HISTORIES if only is None or n in only]
    classes = classes or CLASSES
    run.require(rule, len(names) * len(classes))
    for c in classes:
        q = D + c
        if q not in prog.classes:
            raise AnalysisError(f"anchor vanished: {q}")
        short = c.rsplit(".", 1)[-1]
        for name in names:
            fi = FuncInfo("synthetic.history_" + name.replace("-", "_"), D + "base", ast.parse(HISTORIES[name]).body[0])
            w = _world()
            try:
                allres = interp.explore(fi, [ClassRef(q)], dict(w), max_paths=60)
            except Unsupported as ex:
                raise AnalysisError(f"history '{name}' on {short}: {ex}")
            res = [r for r in allres if not r["raises"]]
            bad = []
            if not res:
                # every call of the history is documented use of the API on a freshly created derivative: none of them may fail
                bad.append("the history ends in an exception on every path: " + "; ".join(sorted({str(getattr(r["raises"], "exc", r["raises"]))[:80] for r in allres}))[:200])
            for r in res:
                try:
                    bad += _judge(name, r["value"], w)
                except (TypeError, ValueError) as ex:
                    raise AnalysisError(f"history '{name}' on {short}: result not in the expected form ({ex})")
            bad = sorted(set(bad))
            run.oblige(rule, f"{short}: history '{name}'", not bad, "; ".join(bad) or "reads return what the history registered")
            if bad:
                where = _blame(prog, name, q)
                run.fail(Finding(rule, where.qualname if where else q, f"{short}, history '{name}': " + "; ".join(bad)[:300],
                                 "what the derivative hands out after this call history is not what was registered: payoff, features and the hedger read a stale or emptied registry",
                                 file=str(prog.modules[(where or prog.classes[q]).module].path), line=(where.node if where else prog.classes[q].node).lineno, case=name))
    run.functions |= {f for f in interp.visited if f in prog.functions}


def _blame(prog, name, q):
    """the report is anchored at the method the history turns on; the message carries the history itself"""
    return prog.lookup_method(q, {"clauses": "delist", "relist": "list", "relist-zero": "list", "rebind": "ul", "re-register": "register_underlier", "second": "register_underlier", "fold": "payoff", "amend": "payoff"}[name])


PRIMARY_HISTORIES = {
    "buffers": '''
def history(cls, extra, x, y, v, N, M, h):
    s = cls(*extra)
    s.register_buffer("spot", x)
    a = s.spot
    s.register_buffer("aux", v)
    s.register_buffer("spot", y)
    return a, s.spot, s.get_buffer("spot"), s.aux, [n for n, _ in s.named_buffers()], list(s.buffers()), s.device, s.dtype
''',
    "resimulate": '''
def history(cls, extra, x, y, v, N, M, h):
    s = cls(*extra)
    s.simulate(n_paths=N, time_horizon=h)
    a = s.spot
    n1 = [n for n, _ in s.named_buffers()]
    s.simulate(n_paths=M, time_horizon=h)
    return a, s.spot, n1, [n for n, _ in s.named_buffers()], len(list(s.buffers()))
''',
}


def _is_cast_of(t, x, dev, dt):
    """t is x converted to the instrument's device and dtype (or x itself where no conversion is made)"""
    if t is x or t == x:
        return True
    if not (isinstance(t, Op) and t.op == "to" and t.args and t.args[0] == x):
        return False
    targets = list(t.args[1:]) + [v for _, v in t.kw]
    return len(targets) == 2 and any(a == dev for a in targets) and any(a == dt for a in targets)


def _judge_primary(name, v):
    bad = []
    if name == "buffers":
        a, b, g, aux, names, bufs, dev, dt = v
        x, y, vv = Sym("x", ("tensor",)), Sym("y", ("tensor",)), Sym("v", ("tensor",))
        if not _is_cast_of(a, x, dev, dt):
            bad.append(f"spot after register_buffer('spot', x) is {str(a)[:80]}")
        if not _is_cast_of(b, y, dev, dt):
            bad.append(f"spot after registering y under the same name is {str(b)[:80]}")
        if g != b:
            bad.append("get_buffer('spot') and .spot disagree")
        if not _is_cast_of(aux, vv, dev, dt):
            bad.append(f"attribute access to the buffer 'aux' gives {str(aux)[:80]}")
        if list(names) != ["spot", "aux"]:
            bad.append(f"buffer names {names}, registered spot, aux, spot")
        if list(bufs) != [b, aux]:
            bad.append(f"buffers() yields {len(bufs)} tensors, expected the current spot and aux once each")
    elif name == "resimulate":
        a, b, n1, n2, nb = v
        sa = {s.name for s in walk(a) if isinstance(s, Sym)}
        sb = {s.name for s in walk(b) if isinstance(s, Sym)}
        if "N" not in sa or "M" in sa:
            bad.append("the first simulation does not have the requested number of paths")
        if "M" not in sb or "N" in sb:
            bad.append("after simulate(n_paths=M) the spot still depends on the previous simulation (n_paths=N)")
        if list(n1) != list(n2) or nb != len(n2):
            bad.append(f"buffer names change between simulations: {n1} then {n2} ({nb} buffers)")
    return bad


def primary_histories_rule(ctx, run, rule, only=None):
    from .primaries import primary_classes
    prog = ctx.prog
    interp = Interp(prog, max_depth=20)
    for k in list(interp.intrinsics):
        if ".BaseDerivative." in k or ".BasePrimary." in k:
            interp.intrinsics.pop(k)
    interp.faithful_registry = True
    classes = primary_classes(prog)
    names = [n for n in PRIMARY_HISTORIES if only is None or n in only]
    run.require(rule, len(names) * len(classes))
    for q in classes:
        short = q.rsplit(".", 1)[-1]
        init = prog.lookup_method(q, "__init__")
        required = [a.arg for a in init.node.args.args[1:len(init.node.args.args) - len(init.node.args.defaults)]] if init else []
        extra = tuple(Sym(n, ("callable",)) if n.endswith("_fn") else Sym(n, ("float",)) for n in required)
        for name in names:
            fi = FuncInfo("synthetic.primary_history_" + name, "pfhedge.instruments.primary.base", ast.parse(PRIMARY_HISTORIES[name]).body[0])
            args = dict(extra=extra, x=Sym("x", ("tensor",)), y=Sym("y", ("tensor",)), v=Sym("v", ("tensor",)), N=Sym("N", ("int",)), M=Sym("M", ("int",)), h=Sym("h", ("float",)))
            try:
                allres = interp.explore(fi, [ClassRef(q)], args, max_paths=100)
            except Unsupported as ex:
                raise AnalysisError(f"history '{name}' on {short}: {ex}")
            res = [r for r in allres if not r["raises"]]
            bad = []
            if not res:
                bad.append("the history ends in an exception on every path: " + "; ".join(sorted({str(getattr(r["raises"], "exc", r["raises"]))[:80] for r in allres}))[:200])
            for r in res:
                try:
                    bad += _judge_primary(name, r["value"])
                except (TypeError, ValueError) as ex:
                    raise AnalysisError(f"history '{name}' on {short}: result not in the expected form ({ex})")
            bad = sorted(set(bad))
            run.oblige(rule, f"{short}: history '{name}'", not bad, "; ".join(bad) or "reads return what the history registered")
            if bad:
                where = prog.lookup_method(q, "register_buffer" if name == "buffers" else "simulate")
                run.fail(Finding(rule, where.qualname if where else q, f"{short}, history '{name}': " + "; ".join(bad)[:300],
                                 "what the instrument hands out after this call history is not what was registered last",
                                 file=str(prog.modules[(where or prog.classes[q]).module].path), line=(where.node if where else prog.classes[q].node).lineno, case=name))
    run.functions |= {f for f in interp.visited if f in prog.functions}


STATE_READS = "(d.moneyness(i), d.log_moneyness(i), d.max_moneyness(i), d.max_log_moneyness(i), d.time_to_maturity(i), d.moneyness(), d.log_moneyness(), d.max_moneyness(), d.max_log_moneyness(), d.time_to_maturity())"
STATE_NAMES = ["moneyness(i)", "log_moneyness(i)", "max_moneyness(i)", "max_log_moneyness(i)", "time_to_maturity(i)", "moneyness()", "log_moneyness()", "max_moneyness()", "max_log_moneyness()", "time_to_maturity()"]
RESIM = '''
def history(cls, stock, N, M, P, i):
    u = stock()
    d = cls(u)
    d.simulate(n_paths=N)
    a = READS
    u.simulate(n_paths=M)
    b = READS
    d.simulate(n_paths=P)
    return a, b, READS
'''


def resimulation_rule(ctx, run, rule, only=None):
    """what a derivative computes from the paths follows the paths: after the underlier is simulated again - directly or through the
    derivative - every reader returns a function of the new simulation only"""
    prog = ctx.prog
    interp = Interp(prog, max_depth=20)
    for k in list(interp.intrinsics):
        if ".BaseDerivative." in k or ".BasePrimary." in k:
            interp.intrinsics.pop(k)
    interp.faithful_registry = True
    stock = "pfhedge.instruments.primary.brownian.BrownianStock"
    if stock not in prog.classes:
        raise AnalysisError("anchor vanished: BrownianStock")
    mix = D + "base.OptionMixin"
    n_obl = 0
    for c in CLASSES:
        q = D + c
        if q not in prog.classes:
            raise AnalysisError(f"anchor vanished: {q}")
        short = c.rsplit(".", 1)[-1]
        kinds = [("resim-payoff", "(d.payoff(),)", ["payoff()"])]
        if mix in prog.mro(q):
            kinds.append(("resim-state", STATE_READS, STATE_NAMES))
        for name, reads, labels in kinds:
            if only is not None and name not in only:
                continue
            fi = FuncInfo("synthetic." + name.replace("-", "_"), D + "base", ast.parse(RESIM.replace("READS", reads)).body[0])
            args = dict(N=Sym("N", ("int",)), M=Sym("M", ("int",)), P=Sym("P", ("int",)), i=Sym("i", ("int",)))
            try:
                allres = interp.explore(fi, [ClassRef(q), ClassRef(stock)], args, max_paths=100)
            except Unsupported as ex:
                raise AnalysisError(f"history '{name}' on {short}: {ex}")
            res = [r for r in allres if not r["raises"]]
            bad = []
            if not res:
                bad.append("the history ends in an exception on every path: " + "; ".join(sorted({str(getattr(r["raises"], "exc", r["raises"]))[:80] for r in allres}))[:200])
            for r in res:
                for stage, own, vals in zip(("d.simulate(N)", "u.simulate(M)", "d.simulate(P)"), "NMP", r["value"]):
                    for lab, v in zip(labels, vals):
                        names = {s_.name for s_ in walk(v) if isinstance(s_, Sym)} if not isinstance(v, (int, float)) else set()
                        stale = sorted(n_ for n_ in "NMP" if n_ != own and n_ in names)
                        if stale:
                            bad.append(f"{lab} after {stage} still depends on the simulation with n_paths={stale[0]}")
                        elif own not in names:
                            bad.append(f"{lab} after {stage} does not depend on that simulation")
            # order independence: each reader evaluated alone on a fresh derivative (same first simulation) returns the same term as in the
            # sequence above, where other readers ran before it (a cache shared by two readers and keyed too coarsely serves one the other's value)
            if res and not bad:
                exprs = [e_.strip() for e_ in reads.strip()[1:-1].rstrip(",").split("), ")]
                exprs = [e_ if e_.endswith(")") else e_ + ")" for e_ in exprs if e_]
                for lab, ex_ in zip(labels, exprs):
                    src1 = f"def history(cls, stock, N, M, P, i):\n    u = stock()\n    d = cls(u)\n    d.simulate(n_paths=N)\n    return {ex_}\n"
                    fi1 = FuncInfo("synthetic.single_read", D + "base", ast.parse(src1).body[0])
                    try:
                        r1 = [r for r in interp.explore(fi1, [ClassRef(q), ClassRef(stock)], args, max_paths=100) if not r["raises"]]
                    except Unsupported as ex:
                        raise AnalysisError(f"single read {lab} on {short}: {ex}")
                    alone = {repr(r["value"]) for r in r1}  # printed form: the terms mention the instrument objects, which are fresh per exploration
                    k_ = labels.index(lab)
                    in_seq = {repr(r["value"][0][k_]) for r in res}
                    if alone and in_seq and not (in_seq <= alone):
                        bad.append(f"{lab} evaluated after the other readers differs from {lab} evaluated alone on the same paths")
            bad = sorted(set(bad))
            n_obl += 1
            run.oblige(rule, f"{short}: history '{name}'", not bad, "; ".join(bad) or "every read follows the latest simulation")
            if bad:
                where = prog.lookup_method(q, "payoff" if name == "resim-payoff" else "max_moneyness")
                run.fail(Finding(rule, where.qualname if where else q, f"{short}, history '{name}': " + "; ".join(bad)[:300],
                                 "a value computed from the simulated paths survives a new simulation: payoff, features and hedge are evaluated on paths that no longer exist",
                                 file=str(prog.modules[(where or prog.classes[q]).module].path), line=(where.node if where else prog.classes[q].node).lineno, case=name))
    run.require(rule, n_obl)
    run.functions |= {f for f in interp.visited if f in prog.functions}


def reconfigure_rule(ctx, run, rule):
    """history 'reconfigure': create the instrument with parameters old_*, simulate(N), read the series, assign new_* to every parameter,
    simulate(M), read again - the second reads are the first ones with old -> new and N -> M: nothing derived from the old configuration
    (a memoised volatility, a grid, a constant tensor) is left"""
    from .primaries import primary_classes
    prog = ctx.prog
    interp = Interp(prog, max_depth=20)
    for k in list(interp.intrinsics):
        if ".BaseDerivative." in k or ".BasePrimary." in k:
            interp.intrinsics.pop(k)
    interp.faithful_registry = True
    classes = primary_classes(prog)
    run.require(rule, len(classes))
    for q in classes:
        short = q.rsplit(".", 1)[-1]
        init = prog.lookup_method(q, "__init__")
        params = [a.arg for a in init.node.args.args[1:] + init.node.args.kwonlyargs if a.arg not in ("dtype", "device", "engine", "cost")]
        series = [n for n in ("spot", "volatility", "variance") if prog.lookup_method(q, n) is not None or n in ("spot",)]
        fn_params = [p_ for p_ in params if p_.endswith("_fn")]
        reads = "(" + ", ".join(f"s.{n}" for n in series) + ",)"
        src = "def history(cls, old, new, N, M):\n    s = cls(**old)\n    s.simulate(n_paths=N)\n    a = " + reads + "\n"
        for p_ in params:
            src += f"    s.{p_} = new['{p_}']\n"
        src += "    s.simulate(n_paths=M)\n    return a, " + reads + "\n"
        fi = FuncInfo("synthetic.primary_history_reconfigure", "pfhedge.instruments.primary.base", ast.parse(src).body[0])
        mk = lambda pre: {p_: Sym(f"{pre}_{p_}", ("callable",) if p_ in fn_params else ("float",)) for p_ in params}  # noqa: E731
        old, new = mk("old"), mk("new")
        try:
            allres = interp.explore(fi, [ClassRef(q), old, new, Sym("N", ("int",)), Sym("M", ("int",))], {}, max_paths=200)
        except Unsupported as ex:
            raise AnalysisError(f"history 'reconfigure' on {short}: {ex}")
        res = [r for r in allres if not r["raises"]]
        bad = []
        if not res:
            bad.append("the history ends in an exception on every path: " + "; ".join(sorted({str(getattr(r["raises"], "exc", r["raises"]))[:80] for r in allres}))[:200])
        for r in res:
            a, b = r["value"]
            for n, x, y in zip(series, a, b):
                nb = {s_.name for s_ in walk(y) if isinstance(s_, Sym)}
                stale = sorted(n_ for n_ in nb if n_.startswith("old_") or n_ == "N")
                if stale:
                    bad.append(f"{n} after reconfiguring and simulating again still depends on {', '.join(stale)}")
        bad = sorted(set(bad))
        run.oblige(rule, f"{short}: history 'reconfigure'", not bad, "; ".join(bad) or f"{', '.join(series)} follow the current parameters and the latest simulation")
        if bad:
            where = prog.lookup_method(q, "simulate")
            run.fail(Finding(rule, where.qualname if where else q, f"{short}, history 'reconfigure': " + "; ".join(bad)[:300],
                             "a series of the instrument is computed from a configuration or a simulation that has been replaced",
                             file=str(prog.modules[(where or prog.classes[q]).module].path), line=(where.node if where else prog.classes[q].node).lineno, case="reconfigure"))
    run.functions |= {f for f in interp.visited if f in prog.functions}


# ---------------------------------------------------------------------------------------------------------------- all short histories
ALPHABET = {
    "add(a)": 'd.add_clause("ka", c1)',
    "add(b)": 'd.add_clause("kb", c2)',
    "list(p1,k)": "d.list(p1, cost)",
    "list(p2,0)": "d.list(p2, 0.0)",
    "delist": "d.delist()",
    "register(same,u2)": "d.register_underlier(name0, u2)",
    "register(other,u3)": 'd.register_underlier("other", u3)',
    "underlier=u2": "d.underlier = u2",
    "ul()": "_ = d.ul()",
    "payoff()": "_ = d.payoff()",
    "spot": "_ = d.spot",  # only where the reference model says the derivative is listed at that point
}


def _model(seq, w):
    """reference semantics of the registry operations: (clauses, underliers, pricer, cost)"""
    clauses, uls, pricer, cost = [], [("underlier", w["u1"])], None, 0.0

    def put(lst, k, v):
        for i, (k0, _) in enumerate(lst):
            if k0 == k:
                lst[i] = (k, v)
                return
        lst.append((k, v))
    for op in seq:
        if op == "add(a)":
            put(clauses, "ka", w["c1"])
        elif op == "add(b)":
            put(clauses, "kb", w["c2"])
        elif op == "list(p1,k)":
            pricer, cost = w["p1"], w["cost"]
        elif op == "list(p2,0)":
            pricer, cost = w["p2"], 0.0
        elif op == "delist":
            pricer, cost = None, 0.0
        elif op in ("register(same,u2)", "underlier=u2"):
            put(uls, "underlier", w["u2"])
        elif op == "register(other,u3)":
            put(uls, "other", w["u3"])
    return clauses, uls, pricer, cost


def _exhaustive_unit(prog, q, depth, only=None):
    """all histories of at most `depth` operations on class q (restricted to those that start with `first`): (count, failures, visited)"""
    import itertools
    interp = Interp(prog, max_depth=20)
    for k in list(interp.intrinsics):
        if ".BaseDerivative." in k or ".BasePrimary." in k:
            interp.intrinsics.pop(k)
    interp.faithful_registry = True
    stock = "pfhedge.instruments.primary.brownian.BrownianStock"
    if stock not in prog.classes:
        raise AnalysisError("anchor vanished: BrownianStock")
    seqs = [s_ for n in range(1, depth + 1) for s_ in itertools.product(ALPHABET, repeat=n)]
    if only is not None:
        seqs = seqs[only[0]::only[1]]
    short = q.rsplit(".", 1)[-1]
    # the underliers are real instruments holding one simulated series each (x1, x2, x3)
    w = dict(u1="u1", u2="u2", u3="u3", c1=Sym("c1", ("callable",)), c2=Sym("c2", ("callable",)), p1=Sym("p1", ("callable",)),
             p2=Sym("p2", ("callable",)), cost=Sym("cost", ("float",)))
    args = dict(stock=ClassRef(stock), x1=Sym("x1", ("tensor",)), x2=Sym("x2", ("tensor",)), x3=Sym("x3", ("tensor",)),
                **{k_: v_ for k_, v_ in w.items() if k_ not in ("u1", "u2", "u3")})
    head = ("def history(cls, stock, x1, x2, x3, c1, c2, p1, p2, cost):\n    u1 = stock()\n    u1.register_buffer(\"spot\", x1)\n    u2 = stock()\n"
            "    u2.register_buffer(\"spot\", x2)\n    u3 = stock()\n    u3.register_buffer(\"spot\", x3)\n")
    fi_s = FuncInfo("synthetic.setup", D + "base", ast.parse(head + "    return u1, u2, u3\n").body[0])
    rs = [r for r in interp.explore(fi_s, [ClassRef(q)], dict(args), max_paths=20) if not r["raises"]]
    if len(rs) != 1:
        raise AnalysisError(f"{short}: setting up three simulated underliers has {len(rs)} non-raising paths")
    objs0 = rs[0]["value"]  # built once: no operation of the alphabet writes to an underlier
    args = dict(u1=objs0[0], u2=objs0[1], u3=objs0[2], **{k_: v_ for k_, v_ in w.items() if k_ not in ("u1", "u2", "u3")})
    head = "def history(cls, u1, u2, u3, c1, c2, p1, p2, cost):\n"
    base = {}
    for un in ("u1", "u2"):
        fi0 = FuncInfo("synthetic.base_payoff", D + "base", ast.parse(head + f"    return cls({un}).payoff_fn()\n").body[0])
        r0 = [r for r in interp.explore(fi0, [ClassRef(q)], dict(args), max_paths=20) if not r["raises"]]
        if len(r0) != 1:
            raise AnalysisError(f"{short}: payoff_fn() of a new derivative has {len(r0)} non-raising paths")
        base[un] = r0[0]["value"]
    failures, total = [], 0
    for seq in seqs:
        if any(op == "spot" and _model(seq[:k_], w)[2] is None for k_, op in enumerate(seq)):
            continue  # reading the price of an unlisted derivative is an error by contract
        body = "".join(f"    {ALPHABET[op]}\n" for op in seq)
        src = (head + "    d = cls(u1)\n    name0 = [n for n, _ in d.named_underliers()][0]\n" + body +
               "    return d, list(d.named_clauses()), list(d.named_underliers()), d.ul(), d.underlier, d.pricer, d.cost, d.is_listed, d.payoff(), (d.spot if d.is_listed else None), (u1, u2, u3)\n")
        fi = FuncInfo("synthetic.history_seq", D + "base", ast.parse(src).body[0])
        try:
            allres = interp.explore(fi, [ClassRef(q)], dict(args), max_paths=40)
        except Unsupported as ex:
            raise AnalysisError(f"history {' ; '.join(seq)} on {short}: {ex}")
        total += 1
        res = [r for r in allres if not r["raises"]]
        clauses, uls_names, pricer, cost = _model(seq, w)
        bad = []
        if not res:
            bad.append("ends in an exception on every path: " + "; ".join(sorted({str(getattr(r["raises"], "exc", r["raises"]))[:60] for r in allres}))[:120])
        for r in res:
            d, ncl, nul, ul0, attr, pr, co, listed, pay, spot, objs = r["value"]
            uls = [(k_, objs[int(v_[1]) - 1]) for k_, v_ in uls_names]
            if pricer is not None and spot != Op("call", (pricer, d)):
                bad.append(f"spot is {str(spot)[:60]}, expected {pricer}(self)")
            if [(k_, v_) for k_, v_ in ncl] != clauses:
                bad.append(f"named_clauses() == {[k_ for k_, _ in ncl]}, expected {[k_ for k_, _ in clauses]}")
            if [k_ for k_, _ in nul] != [k_ for k_, _ in uls] or any(a_ is not b_ for (_, a_), (_, b_) in zip(nul, uls)):
                bad.append(f"named_underliers() == {[(k_, _which(v_, objs)) for k_, v_ in nul]}, expected {uls_names}")
            if ul0 is not uls[0][1]:
                bad.append(f"ul() is {_which(ul0, objs)}, expected {uls_names[0][1]}")
            if attr is not uls[0][1]:
                bad.append(f"the attribute `underlier` is {_which(attr, objs)}, expected {uls_names[0][1]}")
            if pr is not pricer and pr != pricer:
                bad.append(f"pricer is {pr}, expected {pricer}")
            if co != cost:
                bad.append(f"cost is {co}, expected {cost}")
            if listed is not (pricer is not None):
                bad.append(f"is_listed is {listed}")
            want = base[uls_names[0][1]]
            for _, cl_ in clauses:
                want = Op("call", (cl_, d, want))
            if pay != want:
                bad.append("payoff() is not the registered clauses folded in order over payoff_fn() of the current underlier")
        if bad:
            failures.append((seq, sorted(set(bad))))
    return total, failures, {f for f in interp.visited if f in prog.functions}


def _exhaustive_worker(job):
    """process-pool entry: the program is parsed again in the worker (the terms it returns are plain strings)"""
    q, depth, share = job
    from .source import Program
    try:
        total, failures, visited = _exhaustive_unit(Program(), q, depth, share)
        return q, total, failures, sorted(visited), None
    except (AnalysisError, Unsupported) as ex:
        return q, 0, [], [], str(ex)


def exhaustive_histories_rule(ctx, run, rule, depth, jobs=1):
    """every sequence of at most `depth` operations from ALPHABET on a freshly created derivative of each class, judged against the reference
    semantics of _model: afterwards named_clauses(), named_underliers(), ul(), the `underlier` attribute, pricer, cost, is_listed, spot and
    payoff() are those of the model (payoff() = the registered clauses folded in order over payoff_fn() of the current first underlier)"""
    prog = ctx.prog
    for c in CLASSES:
        if D + c not in prog.classes:
            raise AnalysisError(f"anchor vanished: {D + c}")
    run.require(rule, len(CLASSES))
    per_class = {D + c: [0, []] for c in CLASSES}
    if jobs <= 1:
        for c in CLASSES:
            total, failures, visited = _exhaustive_unit(prog, D + c, depth)
            per_class[D + c] = [total, failures]
            run.functions |= visited
    else:
        import concurrent.futures as cf
        units = [(D + c, depth, (k_, 2 * jobs)) for c in CLASSES for k_ in range(2 * jobs)]
        with cf.ProcessPoolExecutor(max_workers=jobs) as ex:
            for q, total, failures, visited, err in ex.map(_exhaustive_worker, units):
                if err:
                    raise AnalysisError(err)
                per_class[q][0] += total
                per_class[q][1] += failures
                run.functions |= set(visited)
    grand = 0
    for c in CLASSES:
        q = D + c
        short = c.rsplit(".", 1)[-1]
        total, failures = per_class[q]
        grand += total
        failures.sort(key=lambda f: (len(f[0]), f[0]))
        # a longer failing history that contains a shorter failing one adds nothing: report the minimal ones
        minimal = []
        for seq, bad in failures:
            if not any(_subseq(m_, seq) for m_, _ in minimal):
                minimal.append((seq, bad))
        run.oblige(rule, f"{short}: all {total} histories of at most {depth} registry operations agree with the reference semantics", not failures,
                   "; ".join(" -> ".join(s_) + ": " + b_[0] for s_, b_ in minimal[:3]))
        for seq, bad in minimal[:4]:
            where = prog.lookup_method(q, "ul")
            run.fail(Finding(rule, where.qualname if where else q, f"{short} after [{' ; '.join(seq)}]: " + "; ".join(bad)[:260],
                             "after this sequence of calls the derivative does not hand out what was registered",
                             file=str(prog.modules[(where or prog.classes[q]).module].path), line=(where.node if where else prog.classes[q].node).lineno, case=" ; ".join(seq)))
    run.notes.append(f"{rule}: {grand} call histories interpreted (alphabet of {len(ALPHABET)} operations, depth {depth}, {len(CLASSES)} classes)")


def _which(o, objs):
    for n_, x_ in zip(("u1", "u2", "u3"), objs):
        if o is x_:
            return n_
    return str(o)[:30]


def _subseq(a, b):
    it = iter(b)
    return all(x in it for x in a)


# ---------------------------------------------------------------------------------------------------------------- the hedger
HEDGER_METHODS = ("compute_hedge", "compute_portfolio", "compute_pl", "compute_loss", "price")


def hedger_histories_rule(ctx, run, rule):
    """second sentence of C16 on the hedger itself: for every ordered pair (m1, m2) of computing methods and both evaluation modes, the value of
    h.m2(d2) after h.m1(d1) is a function of d2 (and the hedger's model and criterion) only - no symbol of d1, and none of the derivative
    the input features happened to be bound to before, occurs in it"""
    from . import world as W
    prog, interp = ctx.prog, ctx.interp
    L = "pfhedge.nn.modules.loss."
    run.require(rule, 2 * len(HEDGER_METHODS) ** 2 + 2 * len(HEDGER_METHODS))
    # two hedgers that share their input feature objects (a list of Feature instances handed to both constructors) and hedge the same derivative:
    # what the second computes is a function of its own model and its own previous hedge
    for m2, wrapped in [(m_, w_) for m_ in HEDGER_METHODS for w_ in (False, True)]:
        src = f"def history(h1, h2, d):\n    a = h1.{m2}(d)\n    b = h2.{m2}(d)\n    return a, b\n"
        fi = FuncInfo("synthetic.hedger_pair", "pfhedge.nn.modules.hedger", ast.parse(src).body[0])
        shared = [W.feature("Moneyness", derivative=W.option("bound_before"), log=False), W.feature("PrevHedge", derivative=W.option("bound_before"))]
        if wrapped:
            # the same two features inside one ModuleOutput (which binds its inputs in place) shared by both hedgers
            inner = Obj("pfhedge.features.container.FeatureList", "mo_inputs", {"features": shared})
            shared = [Obj("pfhedge.features.container.ModuleOutput", "mo", {"inputs": inner, "module": Sym("feature_module", ("callable",))})]
        hs = []
        for k_ in (1, 2):
            h_ = W.hedger(prog, shared, model=Sym(f"model{k_}", ("callable",)))
            h_.name = f"h{k_}"
            h_.attrs["criterion"] = Obj(L + "EntropicRiskMeasure", "criterion", dict(a=W.fl("a")))
            hs.append(h_)
        try:
            allres = interp.explore(fi, [hs[0], hs[1], W.option("d")], {}, max_paths=200)
        except Unsupported as ex:
            raise AnalysisError(f"hedger pair history {m2}: {ex}")
        res = [r for r in allres if not r["raises"]]
        if not res:
            raise AnalysisError(f"hedger pair history {m2}: no non-raising path")
        bad = []
        for r in res:
            a, b = r["value"]
            nb = {s_.name for s_ in walk(b) if isinstance(s_, Sym)}
            leak = sorted(n_ for n_ in nb if n_ == "model1" or n_.startswith("h1.") or n_.startswith("h1#") or "@h1" in n_)
            if leak:
                bad.append(f"h2.{m2}(d) after h1.{m2}(d) with shared input features depends on the first hedger ({leak[0]})")
            if "model2" not in nb:
                bad.append(f"h2.{m2}(d) does not evaluate the second hedger's model")
        bad = sorted(set(bad))
        run.oblige(rule, f"two hedgers sharing their input features{' (inside a ModuleOutput)' if wrapped else ''}: h2.{m2}(d) is a function of h2 only", not bad, "; ".join(bad))
        if bad:
            fi2 = prog.lookup_method(W.HEDGER, m2)
            run.fail(Finding(rule, fi2.qualname, f"h1.{m2}(d) ; h2.{m2}(d) with shared features: " + "; ".join(bad)[:260], "a feature bound by one hedger keeps reading that hedger's state when another hedger uses it",
                             file=str(prog.modules[fi2.module].path), line=fi2.node.lineno, case=f"pair: {m2}"))
    for feats in (["Moneyness"], ["Moneyness", "PrevHedge"]):
        mode = "recurrent" if "PrevHedge" in feats else "vectorised"
        for m1 in HEDGER_METHODS:
            for m2 in HEDGER_METHODS:
                if prog.lookup_method(W.HEDGER, m1) is None or prog.lookup_method(W.HEDGER, m2) is None:
                    raise AnalysisError(f"anchor vanished: Hedger.{m1} / Hedger.{m2}")
                src = f"def history(h, d1, d2):\n    a = h.{m1}(d1)\n    b = h.{m2}(d2)\n    return a, b\n"
                fi = FuncInfo("synthetic.hedger_history", "pfhedge.nn.modules.hedger", ast.parse(src).body[0])
                fobjs = [W.feature(c, derivative=W.option("bound_before"), **({"log": False} if c == "Moneyness" else {})) for c in feats]
                h = W.hedger(prog, fobjs)
                h.attrs["criterion"] = Obj(L + "EntropicRiskMeasure", "criterion", dict(a=W.fl("a")))
                try:
                    allres = interp.explore(fi, [h, W.option("d1"), W.option("d2")], {}, max_paths=200)
                except Unsupported as ex:
                    raise AnalysisError(f"hedger history {m1}(d1); {m2}(d2) [{mode}]: {ex}")
                res = [r for r in allres if not r["raises"]]
                if not res:
                    raise AnalysisError(f"hedger history {m1}(d1); {m2}(d2) [{mode}]: no non-raising path")
                bad = []
                for r in res:
                    a, b = r["value"]
                    na = {s_.name for s_ in walk(a) if isinstance(s_, Sym)}
                    nb = {s_.name for s_ in walk(b) if isinstance(s_, Sym)}
                    if any(n_ == "d1" or n_.startswith("d1.") for n_ in nb):
                        bad.append(f"{m2}(d2) after {m1}(d1) depends on d1 ({sorted(n_ for n_ in nb if n_.startswith('d1'))[0]})")
                    if any(n_.startswith("bound_before") for n_ in na | nb):
                        bad.append("the result reads the derivative the input features were bound to before the call")
                    if not any(n_.startswith("d2.") for n_ in nb):
                        bad.append(f"{m2}(d2) does not depend on d2")
                bad = sorted(set(bad))
                run.oblige(rule, f"Hedger [{mode}]: {m2}(d2) after {m1}(d1) is a function of d2 only", not bad, "; ".join(bad))
                if bad:
                    fi2 = prog.lookup_method(W.HEDGER, m2)
                    run.fail(Finding(rule, fi2.qualname, f"[{mode}] {m1}(d1) ; {m2}(d2): " + "; ".join(bad)[:260], "the result of hedging a derivative depends on what the hedger was used with before",
                                     file=str(prog.modules[fi2.module].path), line=fi2.node.lineno, case=f"{mode}: {m1} ; {m2}"))


# ---------------------------------------------------------------------------------------------------------------- cast / simulate sequences
CAST_ALPHABET = {
    "to(dtype=D1)": "s.to(dtype=D1)",
    "to(D2)": "s.to(D2)",
    "to(device=V1)": "s.to(device=V1)",
    "to(other)": "s.to(other)",
    "double()": "s.double()",
    "float()": "s.float()",
    "half()": "s.half()",
    "simulate(N)": "s.simulate(n_paths=N)",
    "register(aux)": 's.register_buffer("aux", v)',
}
ALIAS_DTYPE = {"double()": "torch.float64", "float()": "torch.float32", "half()": "torch.float16"}


def _cast_model(seq, sim_names, simulated=False):
    """declared (dtype, device) and buffer names after the sequence; dtype / device are tags compared with the interpreted values"""
    dtype, device, names = None, None, (list(sim_names) if simulated else [])
    for op in seq:
        if op == "to(dtype=D1)":
            dtype = "D1"
        elif op == "to(D2)":
            dtype = "D2"
        elif op == "to(device=V1)":
            device = "V1"
        elif op == "to(other)":
            dtype, device = "D3", "V3"
        elif op in ALIAS_DTYPE:
            dtype = ALIAS_DTYPE[op]
        elif op == "simulate(N)":
            names = names + [n for n in sim_names if n not in names]  # a dict keeps the position of a name that is registered again
        elif op == "register(aux)":
            if "aux" not in names:
                names.append("aux")
    return dtype, device, names


def _tag(v):
    from .interp import ExtRef
    if isinstance(v, Sym):
        return v.name
    if isinstance(v, ExtRef):
        return v.name
    return v


def _effective(t):
    """(device, dtype) a buffer term ends up in: the outermost cast that names one, going inwards through nested .to(device, dtype)"""
    dev = dt = None
    while isinstance(t, Op) and t.op == "to":
        kw = t.kwd()
        pos = list(t.args[1:])
        d_, t_ = kw.get("device", pos[0] if pos else None), kw.get("dtype", pos[1] if len(pos) > 1 else None)
        if dev is None and d_ is not None:
            dev = d_
        if dt is None and t_ is not None:
            dt = t_
        t = t.args[0]
    return dev, dt


def _cast_unit(prog, q, depth, only=None):
    import itertools
    interp = Interp(prog, max_depth=20)
    for k in list(interp.intrinsics):
        if ".BaseDerivative." in k or ".BasePrimary." in k:
            interp.intrinsics.pop(k)
    interp.faithful_registry = True
    short = q.rsplit(".", 1)[-1]
    init = prog.lookup_method(q, "__init__")
    required = [a.arg for a in init.node.args.args[1:len(init.node.args.args) - len(init.node.args.defaults)]] if init else []
    extra = tuple(Sym(n, ("callable",)) if n.endswith("_fn") else Sym(n, ("float",)) for n in required)
    has_dt = init is not None and any(a.arg == "dt" for a in init.node.args.args)
    args = dict(extra=extra, D1=Sym("D1", ("dtype",)), D2=Sym("D2", ("dtype",)), D3=Sym("D3", ("dtype",)), V1=Sym("V1", ("device",)), V3=Sym("V3", ("device",)),
                v=Sym("v", ("tensor",)), N=Sym("N", ("int",)), dt0=Sym("dt0", ("float",)))
    mk = "cls(*extra, dt=dt0)" if has_dt else "cls(*extra)"
    head = (f"def history(cls, extra, D1, D2, D3, V1, V3, v, N, dt0):\n    s = {mk}\n    other = {mk}\n    other.to(dtype=D3, device=V3)\n")
    # buffer names of a simulation of this class
    fi0 = FuncInfo("synthetic.sim_names", "pfhedge.instruments.primary.base", ast.parse(head + "    s.simulate(n_paths=N)\n    return [n for n, _ in s.named_buffers()]\n").body[0])
    r0 = [r for r in interp.explore(fi0, [ClassRef(q)], dict(args), max_paths=60) if not r["raises"]]
    if not r0:
        raise AnalysisError(f"{short}: simulate() of a new instrument has no non-raising path")
    sim_names = list(r0[0]["value"])
    seqs = [s_ for n in range(1, depth + 1) for s_ in itertools.product(CAST_ALPHABET, repeat=n)]
    work = [(st_, s_) for st_ in (False, True) for s_ in seqs]
    if only is not None:
        work = work[only[0]::only[1]]  # every only[1]-th history starting at only[0]: an even share of cheap and expensive ones
    failures, total = [], 0
    for simulated, seq0 in work:
        seq = (("<simulated>",) if simulated else ()) + seq0
        body = ("    s.simulate(n_paths=N)\n" if simulated else "") + "".join(f"    {CAST_ALPHABET[op]}\n" for op in seq0)
        fi = FuncInfo("synthetic.cast_history", "pfhedge.instruments.primary.base", ast.parse(head + body + "    return s.dtype, s.device, list(s.named_buffers())\n").body[0])
        try:
            allres = interp.explore(fi, [ClassRef(q)], dict(args), max_paths=400)
        except Unsupported as ex:
            raise AnalysisError(f"cast history {' ; '.join(seq)} on {short}: {ex}")
        total += 1
        res = [r for r in allres if not r["raises"]]
        dtype, device, names = _cast_model(seq0, sim_names, simulated)
        bad = []
        if not res:
            bad.append("ends in an exception on every path: " + "; ".join(sorted({str(getattr(r["raises"], "exc", r["raises"]))[:60] for r in allres}))[:120])
        for r in res:
            dt, dev, bufs = r["value"]
            if _tag(dt) != dtype:
                bad.append(f"declared dtype is {_tag(dt)}, expected {dtype}")
            if _tag(dev) != device:
                bad.append(f"declared device is {_tag(dev)}, expected {device}")
            if [n for n, _ in bufs] != names:
                bad.append(f"buffers {[n for n, _ in bufs]}, expected {names}")
            for n, b in bufs:
                e_dev, e_dt = _effective(b)
                if dtype is not None and _tag(e_dt) != dtype:
                    bad.append(f"buffer '{n}' ends up in dtype {_tag(e_dt)} while the instrument declares {dtype}")
                if device is not None and _tag(e_dev) != device:
                    bad.append(f"buffer '{n}' ends up on device {_tag(e_dev)} while the instrument declares {device}")
        if bad:
            failures.append((seq, sorted(set(bad))))
    return total, failures, {f for f in interp.visited if f in prog.functions}


def _cast_worker(job):
    q, depth, share = job
    from .source import Program
    try:
        total, failures, visited = _cast_unit(Program(), q, depth, share)
        return q, total, failures, sorted(visited), None
    except (AnalysisError, Unsupported) as ex:
        return q, 0, [], [], str(ex)


def cast_histories_rule(ctx, run, rule, depth, classes=None, jobs=1):
    """C17 taken literally: every sequence of at most `depth` calls from CAST_ALPHABET (to with a dtype / device / instrument, the aliases,
    simulate, register_buffer) on a new instrument; afterwards the declared dtype and device are those of the last call that named one, the
    buffers are the registered ones, and every buffer's outermost effective cast is the declared dtype / device"""
    from .primaries import primary_classes
    prog = ctx.prog
    classes = classes or primary_classes(prog)
    run.require(rule, len(classes))
    per = {q: [0, []] for q in classes}
    if jobs <= 1:
        for q in classes:
            total, failures, visited = _cast_unit(prog, q, depth)
            per[q] = [total, failures]
            run.functions |= visited
    else:
        import concurrent.futures as cf
        units = [(q, depth, (k_, 2 * jobs)) for q in classes for k_ in range(2 * jobs)]
        with cf.ProcessPoolExecutor(max_workers=jobs) as ex:
            for q, total, failures, visited, err in ex.map(_cast_worker, units):
                if err:
                    raise AnalysisError(err)
                per[q][0] += total
                per[q][1] += failures
                run.functions |= set(visited)
    grand = 0
    for q in classes:
        short = q.rsplit(".", 1)[-1]
        total, failures = per[q]
        grand += total
        failures.sort(key=lambda f: (len(f[0]), f[0]))
        minimal = []
        for seq, bad in failures:
            if not any(_subseq(m_, seq) for m_, _ in minimal):
                minimal.append((seq, bad))
        run.oblige(rule, f"{short}: all {total} sequences of at most {depth} cast / simulate / register calls keep the dtype-device contract", not failures,
                   "; ".join(" -> ".join(s_) + ": " + b_[0] for s_, b_ in minimal[:3]))
        for seq, bad in minimal[:4]:
            where = prog.lookup_method(q, "to")
            run.fail(Finding(rule, where.qualname if where else q, f"{short} after [{' ; '.join(seq)}]: " + "; ".join(bad)[:260],
                             "after this sequence of calls a buffer is not in the dtype / on the device the instrument declares",
                             file=str(prog.modules[(where or prog.classes[q]).module].path), line=(where.node if where else prog.classes[q].node).lineno, case=" ; ".join(seq)))
    run.notes.append(f"{rule}: {grand} cast / simulate sequences interpreted (alphabet of {len(CAST_ALPHABET)}, depth {depth}, {len(classes)} classes)")


def python_container_store_nodes(ctx):
    """ids of the AST nodes at which the scripted registry histories store into a Python container (dict / list registries of clauses,
    underliers, buffers): C16's in-place coverage scan treats those sites as registry writes, which the histories judge, not as tensor writes"""
    from .primaries import primary_classes
    prog = ctx.prog
    interp = Interp(prog, max_depth=20)
    for k in list(interp.intrinsics):
        if ".BaseDerivative." in k or ".BasePrimary." in k:
            interp.intrinsics.pop(k)
    interp.faithful_registry = True
    nodes = set()

    def collect(results):
        for r in results:
            for e in r["events"]:
                if e["kind"] in ("dict_store", "store", "list_append") and e.get("node") is not None:
                    nodes.add(id(e["node"]))
    for c in CLASSES:
        q = D + c
        if q not in prog.classes:
            continue
        for name in ("clauses", "second", "rebind"):
            fi = FuncInfo("synthetic.history_" + name, D + "base", ast.parse(HISTORIES[name]).body[0])
            try:
                collect(interp.explore(fi, [ClassRef(q)], dict(_world()), max_paths=40))
            except Unsupported:
                pass
    for q in primary_classes(prog):
        init = prog.lookup_method(q, "__init__")
        required = [a.arg for a in init.node.args.args[1:len(init.node.args.args) - len(init.node.args.defaults)]] if init else []
        extra = tuple(Sym(n, ("callable",)) if n.endswith("_fn") else Sym(n, ("float",)) for n in required)
        fi = FuncInfo("synthetic.primary_history_buffers", "pfhedge.instruments.primary.base", ast.parse(PRIMARY_HISTORIES["buffers"]).body[0])
        args = dict(extra=extra, x=Sym("x", ("tensor",)), y=Sym("y", ("tensor",)), v=Sym("v", ("tensor",)), N=Sym("N", ("int",)), M=Sym("M", ("int",)), h=Sym("h", ("float",)))
        try:
            collect(interp.explore(fi, [ClassRef(q)], args, max_paths=40))
        except Unsupported:
            pass
    return nodes
