"""Histories of the derivative's registries (C12.R9, C13.R7, C01.R8h).

Everywhere else the analyser reads `ul()`, `underliers()`, `clauses()`, attribute access to an underlier and `register_underlier` through
short summaries (interp.DEFAULT_INTRINSICS): "ul() is the registered underlier", "clauses() are the registered clauses in order".  Here the
summaries are put to the test.  A second interpreter with those summaries removed and `faithful_registry` on (the class's own `__setattr__`
and `__getattr__` are interpreted) runs short call histories on each concrete derivative class - the calls a user makes between creating a
derivative and reading its payoff - and compares what the object hands out afterwards with what the history put in:

  clauses      add_clause a, b, list, delist           -> named_clauses() == [(a, c1), (b, c2)], clauses() == [c1, c2], pricer None, cost 0.0
  relist       add_clause, list(p, c)                   -> same clauses, spot == p(self), cost == c, is_listed
  relist-zero  list(p0, 0.5), list(p, 0.0)              -> spot == p(self), cost == 0.0
  rebind       ul(), payoff(), d.underlier = u2         -> ul() is u2, d.underlier is u2, underliers() == [u2], payoff() reads u2 only
  re-register  ul(), register_underlier(name, u2)       -> ul() is u2, underliers() == [u2]
  second       register_underlier("other", u3)          -> underliers() == [u1, u3], ul(1) is u3, ul(0) is u1
  fold         payoff(), add_clause a, payoff(), add b  -> c1(self, payoff_fn()), then c2(self, c1(self, payoff_fn()))

A lazily filled cache that one of the writers forgets to invalidate, a reset that takes a registry with it, a reader that keeps the first
answer: each shows up as a history whose last reads do not match.  Every non-raising path of a history is judged; a history without any
non-raising path is an analysis error."""
import ast

from .interp import ClassRef, Interp, Obj, Unsupported
from .report import AnalysisError, Finding
from .source import FuncInfo
from .term import Op, Sym, subst, walk

D = "pfhedge.instruments.derivative."
CLASSES = ["european.EuropeanOption", "lookback.LookbackOption", "european_binary.EuropeanBinaryOption", "american_binary.AmericanBinaryOption",
           "cliquet.EuropeanForwardStartOption", "variance_swap.VarianceSwap"]
P = "pfhedge.instruments.primary.base.BasePrimary"

HISTORIES = {
    "clauses": '''
def history(cls, u1, u2, u3, c1, c2, pricer, cost):
    d = cls(u1)
    d.add_clause("a", c1)
    d.add_clause("b", c2)
    d.list(pricer, cost)
    mid = list(d.named_clauses())
    d.delist()
    return mid, list(d.named_clauses()), list(d.clauses()), d.pricer, d.cost, d.is_listed
''',
    "relist": '''
def history(cls, u1, u2, u3, c1, c2, pricer, cost):
    d = cls(u1)
    d.list(c1, 0.5)
    d.delist()
    d.add_clause("a", c1)
    d.list(pricer, cost)
    return d, list(d.clauses()), d.spot, d.cost, d.is_listed
''',
    "relist-zero": '''
def history(cls, u1, u2, u3, c1, c2, pricer, cost):
    d = cls(u1)
    d.list(c1, 0.5)
    d.list(pricer, 0.0)
    return d, d.spot, d.cost
''',
    "rebind": '''
def history(cls, u1, u2, u3, c1, c2, pricer, cost):
    d = cls(u1)
    first = d.ul()
    p0 = d.payoff()
    d.underlier = u2
    return first, d.ul(), d.underlier, list(d.underliers()), p0, d.payoff()
''',
    "re-register": '''
def history(cls, u1, u2, u3, c1, c2, pricer, cost):
    d = cls(u1)
    first = d.ul()
    names = [n for n, _ in d.named_underliers()]
    d.register_underlier(names[0], u2)
    return first, d.ul(), list(d.underliers()), [n for n, _ in d.named_underliers()] == names
''',
    "second": '''
def history(cls, u1, u2, u3, c1, c2, pricer, cost):
    d = cls(u1)
    first = d.ul()
    d.register_underlier("other", u3)
    return list(d.underliers()), d.ul(0), d.ul(1), d.other
''',
    "fold": '''
def history(cls, u1, u2, u3, c1, c2, pricer, cost):
    d = cls(u1)
    p0 = d.payoff()
    d.add_clause("a", c1)
    p1 = d.payoff()
    d.add_clause("b", c2)
    return d, p0, p1, d.payoff()
''',
}


def _world():
    mk = lambda n: Obj(P, n, {"dtype": Sym(n + ".dtype"), "device": Sym(n + ".device")})  # noqa: E731
    return dict(u1=mk("u1"), u2=mk("u2"), u3=mk("u3"), c1=Sym("c1", ("callable",)), c2=Sym("c2", ("callable",)),
                pricer=Sym("pricer", ("callable",)), cost=Sym("cost", ("float",)))


def _reads(t, prefix):
    return any(isinstance(s, Sym) and s.name.startswith(prefix + ".") for s in walk(t)) if not isinstance(t, (list, tuple)) else any(_reads(x, prefix) for x in t)


def _rename(t, a, b):
    m = {s: Sym(b + s.name[len(a):], s.tags) for s in walk(t) if isinstance(s, Sym) and s.name.startswith(a + ".")}
    return subst(t, m)


def _judge(name, v, w):
    """list of discrepancies between what the history returned and what it put in"""
    u1, u2, u3, c1, c2, pricer, cost = (w[k] for k in ("u1", "u2", "u3", "c1", "c2", "pricer", "cost"))
    bad = []
    if name == "clauses":
        mid, named, cl, pr, co, listed = v
        if list(mid) != [("a", c1), ("b", c2)]:
            bad.append(f"after list(): named_clauses() == {mid}")
        if list(named) != [("a", c1), ("b", c2)]:
            bad.append(f"after list() and delist(): named_clauses() == {named}, registered were a, b")
        if list(cl) != [c1, c2]:
            bad.append(f"after list() and delist(): clauses() == {cl}")
        if pr is not None or co != 0.0 or listed is not False:
            bad.append(f"after delist(): pricer {pr}, cost {co}, is_listed {listed}")
    elif name == "relist":
        d, cl, spot, co, listed = v
        if list(cl) != [c1]:
            bad.append(f"clauses() == {cl} after list/delist/add_clause/list")
        if not (isinstance(spot, Op) and spot.op == "call" and spot.args[0] == pricer and len(spot.args) == 2 and spot.args[1] is d):
            bad.append(f"spot == {str(spot)[:80]}, listed last with `pricer`")
        if co != cost:
            bad.append(f"cost == {co} after list(pricer, cost)")
        if listed is not True:
            bad.append(f"is_listed == {listed}")
    elif name == "relist-zero":
        d, spot, co = v
        if not (isinstance(spot, Op) and spot.op == "call" and spot.args[0] == pricer and len(spot.args) == 2 and spot.args[1] is d):
            bad.append(f"listed again with another pricer: spot == {str(spot)[:80]}")
        if co != 0.0:
            bad.append(f"listed again with cost 0.0: the cost rate is {co}")
    elif name == "rebind":
        first, ul, attr, uls, p0, p1 = v
        if first is not u1:
            bad.append(f"ul() of a new derivative is {first}")
        if ul is not u2:
            bad.append(f"after `d.underlier = u2`: ul() is {ul}")
        if attr is not u2:
            bad.append(f"after `d.underlier = u2`: d.underlier is {attr}")
        if [x for x in uls] != [u2] or any(x is not u2 for x in uls):
            bad.append(f"after `d.underlier = u2`: underliers() == {uls}")
        if _reads(p1, "u1"):
            bad.append("after `d.underlier = u2`: payoff() still reads the paths of the replaced underlier")
        elif _rename(p0, "u1", "u2") != p1:
            bad.append(f"payoff() on the new underlier is not the payoff on the old one with the underlier exchanged: {str(p1)[:80]}")
    elif name == "re-register":
        first, ul, uls, same_names = v
        if ul is not u2:
            bad.append(f"after register_underlier(<same name>, u2): ul() is {ul}")
        if len(uls) != 1 or uls[0] is not u2:
            bad.append(f"after register_underlier(<same name>, u2): underliers() == {uls}")
        if same_names is not True:
            bad.append("re-registering a name changes the set of names")
    elif name == "second":
        uls, a, b, attr = v
        if len(uls) != 2 or uls[0] is not u1 or uls[1] is not u3:
            bad.append(f"after registering a second underlier: underliers() == {uls}")
        if a is not u1 or b is not u3:
            bad.append(f"ul(0) is {a}, ul(1) is {b}")
        if attr is not u3:
            bad.append(f"d.other is {attr}")
    elif name == "fold":
        d, p0, p1, p2 = v
        want1 = Op("call", (c1, d, p0))
        if not (isinstance(p1, Op) and p1.op == "call" and len(p1.args) == 3 and p1.args[0] == c1 and p1.args[1] is d and p1.args[2] == p0):
            bad.append(f"payoff() after add_clause(a) is {str(p1)[:80]}, expected c1(self, payoff_fn())")
        if not (isinstance(p2, Op) and p2.op == "call" and len(p2.args) == 3 and p2.args[0] == c2 and p2.args[1] is d and p2.args[2] == want1):
            bad.append(f"payoff() after add_clause(a), add_clause(b) is {str(p2)[:100]}, expected c2(self, c1(self, payoff_fn()))")
    return bad


def histories_rule(ctx, run, rule, only=None, classes=None):
    prog = ctx.prog
    interp = Interp(prog, max_depth=20)
    for k in list(interp.intrinsics):
        if ".BaseDerivative." in k:
            interp.intrinsics.pop(k)
    interp.faithful_registry = True
    names = [n for n in HISTORIES if only is None or n in only]
    classes = classes or CLASSES
    run.require(rule, len(names) * len(classes))
    for c in classes:
        q = D + c
        if q not in prog.classes:
            raise AnalysisError(f"anchor vanished: {q}")
        short = c.rsplit(".", 1)[-1]
        for name in names:
            fi = FuncInfo("synthetic.history_" + name.replace("-", "_"), D + "base", ast.parse(HISTORIES[name]).body[0])
            w = _world()
            try:
                allres = interp.explore(fi, [ClassRef(q)], dict(w), max_paths=60)
            except Unsupported as ex:
                raise AnalysisError(f"history '{name}' on {short}: {ex}")
            res = [r for r in allres if not r["raises"]]
            bad = []
            if not res:
                # every call of the history is documented use of the API on a freshly created derivative: none of them may fail
                bad.append("the history ends in an exception on every path: " + "; ".join(sorted({str(getattr(r["raises"], "exc", r["raises"]))[:80] for r in allres}))[:200])
            for r in res:
                try:
                    bad += _judge(name, r["value"], w)
                except (TypeError, ValueError) as ex:
                    raise AnalysisError(f"history '{name}' on {short}: result not in the expected form ({ex})")
            bad = sorted(set(bad))
            run.oblige(rule, f"{short}: history '{name}'", not bad, "; ".join(bad) or "reads return what the history registered")
            if bad:
                where = _blame(prog, name, q)
                run.fail(Finding(rule, where.qualname if where else q, f"{short}, history '{name}': " + "; ".join(bad)[:300],
                                 "what the derivative hands out after this call history is not what was registered: payoff, features and the hedger read a stale or emptied registry",
                                 file=str(prog.modules[(where or prog.classes[q]).module].path), line=(where.node if where else prog.classes[q].node).lineno, case=name))
    run.functions |= {f for f in interp.visited if f in prog.functions}


def _blame(prog, name, q):
    """the report is anchored at the method the history turns on; the message carries the history itself"""
    return prog.lookup_method(q, {"clauses": "delist", "relist": "list", "relist-zero": "list", "rebind": "ul", "re-register": "register_underlier", "second": "register_underlier", "fold": "payoff"}[name])
