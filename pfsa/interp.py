"""Symbolic interpreter over the pfhedge AST (prototype).

Produces Terms (term.py) for tensor values, real Python objects for Python-level values,
and an event log (calls, in-place effects, guards, with-regions, loops).  No repository code
is imported or executed.
"""
import ast
import dataclasses
import math
import re
from fractions import Fraction

from .source import FuncInfo, Program
from .term import NUM, Op, Sym, Term, is_num, mk, subst, walk


class Unsupported(Exception):
    pass


class NeedDecision(Exception):
    def __init__(self, cond, node):
        self.cond, self.node = cond, node


class _Return(Exception):
    def __init__(self, value):
        self.value = value


class _Break(Exception):
    pass


class _Continue(Exception):
    pass


def own_yields(node):
    """the yield expressions of a function itself (not those of functions defined inside it)"""
    out, stack = [], list(getattr(node, "body", [])) if not isinstance(node, ast.Lambda) else [node.body]
    while stack:
        n = stack.pop()
        if isinstance(n, (ast.FunctionDef, ast.AsyncFunctionDef, ast.Lambda, ast.ClassDef)):
            continue
        if isinstance(n, (ast.Yield, ast.YieldFrom)):
            out.append(n)
        stack.extend(ast.iter_child_nodes(n))
    return out


class _GenYield(Exception):
    """a yield reached while one step of a generator object is run"""
    def __init__(self, value):
        self.value = value


class _BlockReturn(Exception):
    """`return` inside the block of a with statement whose manager is a generator: unwinds through the manager's frames"""
    def __init__(self, value):
        self.value = value


class PathRaises(Exception):
    """The explored path ends in a `raise`."""

    def __init__(self, exc, node):
        self.exc, self.node = exc, node


class Obj:
    """Symbolic instance of a repo class."""

    REGISTRY = []

    def __init__(self, cls, name, attrs=None, tags=()):
        self.cls, self.name, self.attrs, self.tags = cls, name, dict(attrs or {}), set(tags)
        Obj.REGISTRY.append(self)

    def __repr__(self):
        return f"<{self.cls.rsplit('.', 1)[-1]} {self.name}>"


def _f32_exact(x):
    import struct
    try:
        return struct.unpack("f", struct.pack("f", x))[0] == x
    except (OverflowError, struct.error):
        return False


class Closure:
    def __init__(self, node, env, module, fi=None, self_obj=None, cls_ctx=None):
        self.node, self.env, self.module, self.fi, self.self_obj, self.cls_ctx = node, env, module, fi, self_obj, cls_ctx

    def __repr__(self):
        return f"<closure {getattr(self.node, 'name', 'lambda')}>"


class BoundMethod:
    def __init__(self, obj, fi):
        self.obj, self.fi = obj, fi

    def __repr__(self):
        return f"<bound {self.fi.qualname} of {self.obj!r}>"


class ClassRef:
    def __init__(self, qualname):
        self.qualname = qualname

    def __repr__(self):
        return f"<class {self.qualname}>"


class ExtRef:
    """Reference to something outside the program (torch.where, math.ceil, copy.copy ...)."""

    def __init__(self, name):
        self.name = name

    def __repr__(self):
        return f"<ext {self.name}>"


class SuperRef:
    def __init__(self, obj, after_cls):
        self.obj, self.after_cls = obj, after_cls


class SymList:
    """A list of statically unknown length: elements are `elem` for a generic element symbol."""

    def __init__(self, name, elem, length=None):
        self.name, self.elem, self.length = name, elem, length

    def __repr__(self):
        return f"<symlist {self.name}>"


class Partial:
    """functools.partial(f, *args, **kwargs) / operator.methodcaller / itemgetter / attrgetter: a callable the interpreter can apply"""

    def __init__(self, kind, target, args=(), kwargs=None):
        self.kind, self.target, self.args, self.kwargs = kind, target, tuple(args), dict(kwargs or {})

    def __repr__(self):
        return f"<{self.kind} {self.target!r}>"


PASS_DECORATORS = {"property", "cached_property", "staticmethod", "classmethod", "abstractmethod", "overload", "no_type_check", "lru_cache", "cache",
                   "torch.enable_grad()", "torch.no_grad()", "torch.inference_mode()", "final", "contextmanager"}

EFFECT_EVENTS = {"inplace", "obj_setattr", "dict_store", "setattr", "store", "register_buffer", "list_append", "delete", "class_setattr", "backward",
                 "module_call", "ext_call", "opaque_call", "abstract_call", "with_enter"}


class EagerGen(list):
    """values of a generator whose body was run at creation; `effects` = kinds of the effect events its body logged"""
    effects = ()


class MapList:
    """[body for elem in src]"""

    def __init__(self, src, elem, body):
        self.src, self.elem, self.body = src, elem, body

    def __repr__(self):
        return f"[{self.body!r} for {self.elem!r} in {self.src!r}]"


def may_be_none(t):
    """opaque optional values: a component of torch's _parse_to result, or a symbol the rule declared optional"""
    if isinstance(t, Sym):
        return "optional" in t.tags
    return isinstance(t, Op) and t.op == "getitem" and isinstance(t.args[0], Op) and t.args[0].op.endswith("_parse_to")


PURE_EXT = {"print", "logging", "warnings.warn"}

TENSOR_ATTRS = {"values", "indices", "T", "mT", "dtype", "device", "shape", "data", "grad", "requires_grad", "real"}


class Interp:
    def __init__(self, prog: Program, intrinsics=None, max_depth=10):
        self.prog = prog
        self.intrinsics = dict(DEFAULT_INTRINSICS)
        if intrinsics:
            self.intrinsics.update(intrinsics)
        self.max_depth = max_depth
        self.faithful_registry = False  # True: a class's own __setattr__ is interpreted and no registry shortcut is taken (C12.R9 checks the summaries)
        self.shapes = {}  # symbol name -> tuple of extents (ints or Syms) for folding x.size(k)
        self.reset([])

    def reset(self, decisions):
        self.events = []
        self.decisions = list(decisions)
        self.dec_idx = 0
        self.path_cond = []
        self.depth = 0
        self.fresh_id = 0
        self.stack = []
        if not hasattr(self, "visited"):
            self.visited = set()  # qualified names of every repository function whose body was interpreted (kept across explorations)
            self.n_calls = 0
        self.loop_stack = []
        self.loop_kinds = []
        self.imperative_grad = []   # grad modes switched on by statement, innermost last
        self.memo = {}   # functools.lru_cache tables: qualified name -> [(key, value)]

    # ------------------------------------------------------------------ driver
    def explore(self, target, args=(), kwargs=None, self_obj=None, max_paths=64):
        """Run `target` (FuncInfo) along every path through undecided symbolic branches."""
        results = []
        work = [[]]
        base_objs = list(Obj.REGISTRY)
        base_attrs = [(o, dict(o.attrs)) for o in base_objs]
        while work:
            dec = work.pop()
            self.reset(dec)
            del Obj.REGISTRY[len(base_objs):]
            for o, a in base_attrs:
                o.attrs.clear()
                o.attrs.update({k: (list(v) if isinstance(v, list) else v) for k, v in a.items()})
            try:
                val = self.call_function(target, list(args), dict(kwargs or {}), self_obj=self_obj)
                results.append(dict(decisions=dec, cond=list(self.path_cond), value=val, events=list(self.events), raises=None))
            except NeedDecision:
                work.append(dec + [False])
                work.append(dec + [True])
            except PathRaises as e:
                results.append(dict(decisions=dec, cond=list(self.path_cond), value=None, events=list(self.events), raises=e))
            if len(results) + len(work) > max_paths:
                raise Unsupported("too many paths")
        return self.fold_sound_memos(results) if self.fold_memos else results

    fold_memos = True

    def fold_sound_memos(self, results):
        """A validated memo - `m = getattr(self, "_memo", None); if m is None or m[0] != key: m = (key, value); self._memo = m; use m[1]` -
        is not state in the sense of the purity rules and its hit path is not a path of its own IF the remembered value is a function of the
        key alone (every leaf of `value` is a component of `key`, a tensor that only donates its dtype / device counting as those two) and
        every use of the stored pair is guarded by the comparison of its first component with that same key. Then the hit path returns what
        the miss path computes: the hit paths are dropped and the store is re-labelled `memo_store`. Anything less leaves everything as
        it is (the store is a state store, the hit path returns an unknown earlier value) and the rules report it."""
        memos = {}
        for r in results:
            for e in r["events"]:
                v = e.get("value")
                if e["kind"] == "obj_setattr" and isinstance(e.get("obj"), Obj) and isinstance(v, tuple) and len(v) == 2 and isinstance(v[0], tuple) and isinstance(v[1], Term):
                    memos.setdefault((id(e["obj"]), e["attr"]), []).append((e, r, v[0], v[1], Sym(f"{e['obj'].name}.{e['attr']}")))
        if not memos:
            return results
        drop, relabel = set(), []
        for (_, attr), stores_ in memos.items():
            S = stores_[0][4]
            keys = {st[2] for st in stores_}
            if len(keys) != 1:
                continue
            K = stores_[0][2]
            if not all(self._memo_value_is_function_of_key(st[3], K) for st in stores_):
                continue
            hit, ok = [], True
            for k_, r in enumerate(results):
                mentions = any(x_ == S for t_ in [r["value"]] + [c_ for c_, _, _ in r["cond"]] for x_ in walk(t_ if isinstance(t_, (Term, tuple, list)) else ()))
                if not mentions:
                    continue
                guards = [(c_, d_) for c_, d_, _ in r["cond"] if isinstance(c_, Op) and c_.op in ("ne", "eq") and Op("getitem", (S, 0)) in c_.args or
                          isinstance(c_, Op) and c_.op in ("ne", "eq") and Op("index", (S, 0)) in c_.args]
                same_key = [(c_, d_) for c_, d_ in guards if any(a_ == K or (isinstance(a_, tuple) and tuple(a_) == tuple(K)) for a_ in c_.args)]
                if not same_key:
                    ok = False   # the stored pair is used without comparing its key with the current one
                    break
                c_, d_ = same_key[0]
                if (c_.op == "ne") != bool(d_):
                    hit.append(k_)   # keys equal: the remembered value is used
                elif any(x_ == S for x_ in walk(r["value"] if isinstance(r["value"], (Term, tuple, list)) else ())):
                    ok = False   # a miss that still returns something of the old pair
                    break
            if not ok:
                continue
            drop |= set(hit)
            relabel += [st[0] for st in stores_]
        if not relabel:
            return results
        for e in relabel:
            e["kind"] = "memo_store"
        out = []
        for k_, r in enumerate(results):
            if k_ in drop:
                continue
            # the copies of the events in the result lists are the same dict objects: re-labelled above
            out.append(r)
        return out

    @staticmethod
    def _memo_value_is_function_of_key(value, key):
        comps = list(key)
        have_dtype = {c_.args[0] for c_ in comps if isinstance(c_, Op) and c_.op == "attr_dtype"}
        have_device = {c_.args[0] for c_ in comps if isinstance(c_, Op) and c_.op == "attr_device"}

        def ok(t, donor=False):
            if not isinstance(t, Term):
                if isinstance(t, (tuple, list)):
                    return all(ok(x_, donor) for x_ in t)
                return not isinstance(t, (Obj, Closure, Partial))
            if any(t == c_ for c_ in comps):
                return True
            if donor:
                return t in have_dtype and t in have_device
            if isinstance(t, Sym):
                return False
            if t.op in ("to",) and len(t.args) == 2 and isinstance(t.args[1], Term) and not t.kw:
                return ok(t.args[0]) and ok(t.args[1], True)
            if t.op in ("zeros_like", "ones_like", "empty_like", "full_like", "new_zeros", "new_ones", "new_tensor", "new_full", "new_empty"):
                return ok(t.args[0], True) and all(ok(x_) for x_ in t.args[1:]) and all(ok(v_) for _, v_ in t.kw)
            return all(ok(x_) for x_ in t.args) and all(ok(v_) for _, v_ in t.kw)

        return ok(value)

    def ev(self, kind, **kw):
        kw["kind"] = kind
        kw["fn"] = self.stack[-1] if self.stack else None
        self.events.append(kw)

    def fresh(self, prefix, tags=()):
        self.fresh_id += 1
        return Sym(f"{prefix}#{self.fresh_id}", tags)

    # ------------------------------------------------------------------ calls
    def call_function(self, fi: FuncInfo, args, kwargs, self_obj=None, closure=None):
        if fi is not None and fi.qualname in self.intrinsics:
            return self.intrinsics[fi.qualname](self, self_obj, args, kwargs)
        if fi is not None and "abstractmethod" in fi.decorators:
            self.ev("abstract_call", callee=fi.qualname, recv=self_obj)
            return Op("abstract", (fi.qualname, Sym(self_obj.name) if isinstance(self_obj, Obj) else self_obj) + tuple(args), kwargs)
        if fi is not None and closure is None:
            custom = [d for d in fi.decorators if d not in PASS_DECORATORS]
            if custom:
                # a decorator of the repository's own: the name denotes whatever the decorator returned
                f_ = self.decorated_value(fi)
                is_m = fi.cls is not None and not fi.is_staticmethod
                return self.call_value(f_, ([self_obj] if is_m else []) + list(args), kwargs)
            if "lru_cache" in fi.decorators or "cache" in fi.decorators:
                key = (self_obj, tuple(args), tuple(sorted(kwargs.items(), key=lambda kv: kv[0])))
                table = self.memo.setdefault(fi.qualname, [])
                for k_, v_ in table:
                    if self.same_memo_key(k_, key):
                        self.ev("memo_hit", callee=fi.qualname, key=key)
                        return v_
                raw = dataclasses.replace(fi, decorators=[d for d in fi.decorators if d not in ("lru_cache", "cache")])
                v_ = self.call_function(raw, args, kwargs, self_obj=self_obj)
                table.append((key, v_))
                return v_
        node = fi.node if fi is not None else closure.node
        module = fi.module if fi is not None else closure.module
        if self.depth >= self.max_depth:
            raise Unsupported("inline depth exceeded at " + (fi.qualname if fi else "closure"))
        qual = fi.qualname if fi else getattr(node, "name", "<lambda>")
        if self.stack.count(qual) >= (2 if closure is None else 8):   # nested instances of one inner function (composed closures) are not a recursion
            self.ev("recursion", callee=qual, args=args, kwargs=kwargs)
            return Op("recursive_call", (qual, tuple(args)), kwargs)
        env = {"__module__": module, "__parent__": closure.env if closure else None}
        env["__cls__"] = fi.cls if fi is not None else (closure.cls_ctx if closure else None)
        a = node.args
        params = [p.arg for p in a.posonlyargs + a.args]
        pos = list(args)
        is_method = fi is not None and fi.cls is not None and not fi.is_staticmethod and not isinstance(node, ast.Lambda)
        if is_method:
            if fi.is_classmethod:
                pos = [ClassRef(self_obj.cls if isinstance(self_obj, Obj) else self_obj.qualname)] + pos
            else:
                pos = [self_obj] + pos
            env["__self__"] = self_obj
        elif closure is not None:
            env["__self__"] = closure.self_obj
        defaults = a.defaults
        ndef = len(defaults)
        for i, p in enumerate(params):
            if i < len(pos):
                env[p] = pos[i]
            elif p in kwargs:
                env[p] = kwargs.pop(p)
            else:
                j = i - (len(params) - ndef)
                if j >= 0:
                    env[p] = self.eval(defaults[j], {"__module__": module, "__parent__": None, "__cls__": None})
                else:
                    raise Unsupported(f"missing argument {p} calling {qual}")
        extra = pos[len(params):]
        if a.vararg:
            env[a.vararg.arg] = tuple(extra)
        elif extra:
            raise Unsupported(f"too many positional args calling {qual}")
        for p, d in zip(a.kwonlyargs, a.kw_defaults):
            if p.arg in kwargs:
                env[p.arg] = kwargs.pop(p.arg)
            elif d is not None:
                env[p.arg] = self.eval(d, {"__module__": module, "__parent__": None, "__cls__": None})
            else:
                raise Unsupported(f"missing kw-only {p.arg} calling {qual}")
        if a.kwarg:
            env[a.kwarg.arg] = dict(kwargs)
        elif kwargs:
            raise Unsupported(f"unexpected kwargs {list(kwargs)} calling {qual}")
        self.depth += 1
        self.stack.append(qual)
        self.visited.add(qual)
        self.n_calls += 1
        self.ev("enter", callee=qual)
        ret = [None]
        try:
            if isinstance(node, ast.Lambda):
                ret[0] = self.eval(node.body, env)
                return ret[0]
            is_gen = bool(own_yields(node))
            if is_gen and fi is not None and "contextmanager" in fi.decorators:
                # contextlib.contextmanager: `<enter>; yield v; <exit>` or `<enter>; try: yield v; finally: <exit>` - run by the with statement
                ret[0] = Obj("contextmanager", qual.rsplit(".", 1)[-1], {"env": env, "body": node.body, "qual": qual}, {"contextmanager"})
                return ret[0]
            if is_gen:
                shape = self.loop_generator_shape(node)
                if shape is not None:
                    # `<setup>; while True: <step>; yield <value>`: nothing runs until the first next(); every next() runs one step
                    ret[0] = Obj("generator", qual.rsplit(".", 1)[-1], {"env": env, "started": False, "shape": shape, "qual": qual}, {"generator"})
                    return ret[0]
                env["__yield__"] = []
                n_ev = len(self.events)
            try:
                self.exec_block(node.body, env)
            except _Return as r:
                if not is_gen:
                    ret[0] = r.value
                    return r.value
            if is_gen:
                # the body of any other generator is run where the generator is created; that is the wrong time when the generator is kept
                # for later and its body has effects, so such a result is marked and may only be consumed on the spot (see exec_stmt)
                effects = [e_["kind"] for e_ in self.events[n_ev:] if e_["kind"] in EFFECT_EVENTS]
                ret[0] = EagerGen(env["__yield__"])
                ret[0].effects = effects
                return ret[0]
            return None
        finally:
            self.ev("exit", callee=qual, value=ret[0])
            self.stack.pop()
            self.depth -= 1

    def call_folded(self, f, args, kwargs, node):
        """F = reduce(compose, seq, f0) called with arguments a: with F_0 = f0 and F_k = compose(F_{k-1}, x_k), and provided every F_k calls
        F_{k-1} with the same a, the values v_k = F_k(a) satisfy v_0 = f0(a), v_k = compose(<function returning v_{k-1}>, x_k)(a): a loop over
        seq carrying one value"""
        fn_, seq_, init_ = f.target
        holder = {"__module__": "pfhedge", "__parent__": None, "__cls__": None, "fold_val": self.call_value(init_, list(args), dict(kwargs), node)}
        if not isinstance(holder["fold_val"], Term):
            raise Unsupported("a fold of functions whose values are not tensors")

        def body():
            prev = Partial("fold_prev", (holder, tuple(args), dict(kwargs)))
            g = self.call_value(fn_, [prev, seq_.elem], {}, node)
            holder["fold_val"] = self.call_value(g, list(args), dict(kwargs), node)

        self.symbolic_loop(node, holder, seq_.elem, ("symlist", seq_.name), body)
        return holder["fold_val"]

    def decorated_value(self, fi):
        """the value a decorated `def` binds: the decorators of the repository's own applied, innermost first, to the undecorated function"""
        cache = self.prog.__dict__.setdefault("_decorated", {})
        if fi.qualname in cache:
            return cache[fi.qualname]
        v = dataclasses.replace(fi, decorators=[d for d in fi.decorators if d in PASS_DECORATORS])
        v.is_raw = True   # the undecorated function: calling it from the wrapper is part of the one call of the public name
        env = {"__module__": fi.module, "__parent__": None, "__cls__": fi.cls}
        n_ev = len(self.events)
        for d in reversed(fi.node.decorator_list):
            if self.prog._deco(d) in PASS_DECORATORS:
                continue
            v = self.call_value(self.eval(d, env), [v], {}, d)
        del self.events[n_ev:]   # decoration happens at import time, not in the call that is being followed
        cache[fi.qualname] = v
        return v

    @staticmethod
    def same_memo_key(a, b):
        """functools.lru_cache key comparison: objects by identity, plain values by equality; two tensors only when they are the same term"""
        if isinstance(a, (tuple, list)) and isinstance(b, (tuple, list)):
            return len(a) == len(b) and all(Interp.same_memo_key(x, y) for x, y in zip(a, b))
        if isinstance(a, Obj) or isinstance(b, Obj):
            return a is b
        if isinstance(a, Term) or isinstance(b, Term):
            return isinstance(a, Term) and isinstance(b, Term) and a == b
        try:
            return type(a) is type(b) and a == b
        except Exception:
            return a is b

    @staticmethod
    def loop_generator_shape(node):
        """(setup, before, yielded expression, after) of a generator `setup; while True: before; yield value; after`, else None: the k-th
        next() runs (setup; before) for k = 1 and (after; before) afterwards, and returns the value"""
        body = [s_ for s_ in node.body if not (isinstance(s_, ast.Expr) and isinstance(s_.value, ast.Constant))]
        if (body and isinstance(body[-1], ast.For) and not body[-1].orelse and isinstance(body[-1].iter, ast.Call) and ast.unparse(body[-1].iter.func).split(".")[-1] == "repeat"
                and len(body[-1].iter.args) == 1 and not body[-1].iter.keywords):
            # `for x in itertools.repeat(v): ...` is `tmp = v; while True: x = tmp; ...` (v is evaluated once, when the generator starts)
            f_ = body[-1]
            hold = ast.Assign(targets=[ast.Name(id="repeat_value_", ctx=ast.Store())], value=f_.iter.args[0])
            bind = ast.Assign(targets=[f_.target], value=ast.Name(id="repeat_value_", ctx=ast.Load()))
            loop_ = ast.While(test=ast.Constant(value=True), body=[bind] + list(f_.body), orelse=[])
            for n_ in (hold, bind, loop_):
                ast.copy_location(n_, f_)
                ast.fix_missing_locations(n_)
            body = body[:-1] + [hold, loop_]
        if not body or not isinstance(body[-1], ast.While):
            return None
        loop = body[-1]
        if not (isinstance(loop.test, ast.Constant) and loop.test.value is True and not loop.orelse and loop.body):
            return None
        yields = own_yields(node)
        at = [k for k, s_ in enumerate(loop.body) if isinstance(s_, ast.Expr) and yields and s_.value is yields[0]]

        def tail_yields(stmts):
            """every yield of the block is the last thing the block does: the last statement, or the last statement of each branch of a
            trailing if / else"""
            if not stmts:
                return []
            for s_ in stmts[:-1]:
                if any(isinstance(n, (ast.Yield, ast.YieldFrom)) for n in ast.walk(s_)):
                    return None
            last = stmts[-1]
            if isinstance(last, ast.Expr) and isinstance(last.value, ast.Yield):
                return [last.value]
            if isinstance(last, ast.If):
                a_, b_ = tail_yields(last.body), tail_yields(last.orelse)
                if a_ is None or b_ is None or any(isinstance(n, (ast.Yield, ast.YieldFrom)) for n in ast.walk(last.test)):
                    return None
                return a_ + b_
            return None if any(isinstance(n, (ast.Yield, ast.YieldFrom)) for n in ast.walk(last)) else []

        if len(yields) != 1 or not at or not isinstance(yields[0], ast.Yield):
            ty = tail_yields(loop.body)
            if ty is not None and len(ty) == len(yields) and not any(isinstance(n, (ast.Break, ast.Return)) for n in ast.walk(loop)):
                return ("tail", body[:-1], loop.body)   # one next() = one pass over the loop body, up to the yield it ends with
            raise Unsupported("generator with an endless loop whose single yield is not a statement of the loop body")
        if any(isinstance(n, (ast.Break, ast.Return)) for n in ast.walk(loop)):
            raise Unsupported("generator with an endless loop that is left by break/return")
        return body[:-1], loop.body[:at[0]], yields[0].value, loop.body[at[0] + 1:]

    def generator_next(self, g, node):
        """one next() of a generator: of the shape above, or a bounded view of one (itertools.islice)"""
        if g.attrs.get("islice") is not None:
            src, limit = g.attrs["islice"]
            taken = g.attrs["taken"]
            if isinstance(limit, int) and isinstance(taken, int):
                if taken >= limit:
                    raise PathRaises("StopIteration", node)
                g.attrs["taken"] = taken + 1
                return self.generator_next(src, node)
            raise Unsupported("next() on an islice of unknown length")
        env, qual = g.attrs["env"], g.attrs["qual"]
        if g.attrs["shape"][0] == "tail":
            _, setup, loop_body = g.attrs["shape"]
            if setup and not g.attrs["started"] and self.loop_kinds and self.loop_kinds[-1] == "symbolic":
                raise Unsupported("first next() of a generator with set-up statements inside a loop of unknown length")
            self.depth += 1
            self.stack.append(qual)
            self.ev("enter", callee=qual)
            out = [None]
            env["__gen_step__"] = True
            try:
                if not g.attrs["started"]:
                    g.attrs["started"] = True
                    self.exec_block(setup, env)
                for _ in range(2):
                    try:
                        self.exec_block(loop_body, env)
                    except _GenYield as y_:
                        out[0] = y_.value
                        return out[0]
                raise Unsupported("an endless generator that passes through its loop body without reaching a yield")
            finally:
                env.pop("__gen_step__", None)
                self.ev("exit", callee=qual, value=out[0])
                self.stack.pop()
                self.depth -= 1
        setup, before, value, after = g.attrs["shape"]
        if self.depth >= self.max_depth:
            raise Unsupported("inline depth exceeded at " + qual)
        self.depth += 1
        self.stack.append(qual)
        self.ev("enter", callee=qual)
        out = [None]
        try:
            if not g.attrs["started"]:
                g.attrs["started"] = True
                self.exec_block(setup, env)
            else:
                self.exec_block(after, env)
            self.exec_block(before, env)
            out[0] = self.eval(value, env) if value is not None else None
            return out[0]
        finally:
            self.ev("exit", callee=qual, value=out[0])
            self.stack.pop()
            self.depth -= 1

    def for_over_generator(self, st, env, g):
        """`for x in g` / `for x in islice(g, n)` for a generator g of the endless-loop shape: the first next() differs from the later ones
        (setup, nothing to finish from the step before), so the first iteration is run on its own and the remaining ones as one generic
        iteration; the loop ends by break, return or - for a bounded view - after n elements"""
        src, limit = g, None
        if g.attrs.get("islice") is not None:
            (src, limit), taken = g.attrs["islice"], g.attrs["taken"]
            if taken != 0 or src.attrs.get("islice") is not None:
                raise Unsupported("loop over a partly consumed or nested islice")
        has_break = any(isinstance(n, ast.Break) for s_ in st.body for n in ast.walk(s_))
        if limit is None and not has_break and not any(isinstance(n, ast.Return) for s_ in st.body for n in ast.walk(s_)):
            raise Unsupported("loop over an endless generator without break or return")
        if limit is not None:
            enough = limit >= 1 if isinstance(limit, int) else self.truth(mk("ge", limit, 1), st.iter, env)
            if not enough:
                self.exec_block(st.orelse, env)
                return
        first = not src.attrs["started"]
        if first:
            self.loop_kinds.append("concrete")
            try:
                self.assign(st.target, self.generator_next(src, st), env, st)
                try:
                    self.exec_block(st.body, env)
                except _Continue:
                    pass
                except _Break:
                    return
            finally:
                self.loop_kinds.pop()
        if isinstance(limit, int) and limit <= 8:   # a long bounded loop is summarised like one of unknown length
            rest = range(1 if first else 0, limit)
            self.loop_kinds.append("concrete")
            try:
                for _ in rest:
                    self.assign(st.target, self.generator_next(src, st), env, st)
                    try:
                        self.exec_block(st.body, env)
                    except _Continue:
                        continue
                    except _Break:
                        return
            finally:
                self.loop_kinds.pop()
            self.exec_block(st.orelse, env)
            return
        idx = self.fresh("i", ("int", "loopvar"))
        desc = ("range", 1 if first else 0, limit) if limit is not None else ("while", "True")
        self.symbolic_loop(st, env, idx, desc, lambda: (self.assign(st.target, self.generator_next(src, st), env, st), self.exec_block(st.body, env)))
        self.symbolic_orelse(st, env, has_break)

    def symbolic_orelse(self, st, env, has_break):
        """the else clause of a loop whose number of iterations is unknown: it runs when the loop is exhausted without break. Supported: no
        else clause; an else clause on a loop without break (always runs); a raise-only else clause on a loop with break (recorded as a
        guard: the path continues as the one that left by break)"""
        if not st.orelse:
            return
        if not has_break:
            self.exec_block(st.orelse, env)
            return
        if all(isinstance(s_, ast.Raise) for s_ in st.orelse):
            self.ev("guard", cond=Sym("loop exhausted without break", ("bool",)), node=st, raises=ast.unparse(st.orelse[0].exc) if st.orelse[0].exc else "")
            return
        raise Unsupported("else clause (other than a raise) on a loop of unknown length that can also be left by break")

    @staticmethod
    def bind_names(fi, args, kwargs, skip_self):
        """arguments of a call by parameter name, whether they were passed by position or by keyword"""
        try:
            names = [a.arg for a in fi.node.args.args]
        except AttributeError:
            return dict(kwargs)
        if skip_self and names:
            names = names[1:]
        out = dict(kwargs)
        for n_, v_ in zip(names, args):
            out.setdefault(n_, v_)
        return out

    def call_value(self, f, args, kwargs, node=None):
        if isinstance(f, BoundMethod):
            self.ev("call", callee=f.fi.qualname, recv=f.obj, args=args, kwargs=dict(kwargs), node=node, bound=self.bind_names(f.fi, args, kwargs, not f.fi.is_staticmethod))
            return self.call_function(f.fi, args, kwargs, self_obj=f.obj)
        if isinstance(f, FuncInfo) and f.cls is not None and not f.is_staticmethod and not f.is_classmethod and args:
            # a function taken off its class (Class.method, or the undecorated method a decorator was handed): self is the first argument
            if not getattr(f, "is_raw", False):
                self.ev("call", callee=f.qualname, recv=args[0], args=args[1:], kwargs=dict(kwargs), node=node, bound=self.bind_names(f, args[1:], kwargs, True))
            return self.call_function(f, list(args[1:]), kwargs, self_obj=args[0])
        if isinstance(f, FuncInfo):
            if not getattr(f, "is_raw", False):
                self.ev("call", callee=f.qualname, recv=None, args=args, kwargs=dict(kwargs), node=node, bound=self.bind_names(f, args, kwargs, False))
            return self.call_function(f, args, kwargs)
        if isinstance(f, Closure):
            self.ev("call", callee=getattr(f.node, "name", "<lambda>"), recv=None, args=args, kwargs=dict(kwargs), node=node)
            return self.call_function(f.fi, args, kwargs, self_obj=f.self_obj, closure=f)
        if isinstance(f, ClassRef):
            return self.instantiate(f, args, kwargs, node)
        if isinstance(f, Partial):
            if f.kind == "partial":
                return self.call_value(f.target, list(f.args) + list(args), dict(f.kwargs, **kwargs), node)
            if f.kind == "methodcaller":
                m_ = self.getattr_value(args[0], f.target, node, call=True)
                if isinstance(m_, tuple) and m_ and isinstance(m_[0], str) and m_[0].endswith("_method"):
                    return self.call_builtin_method(m_, list(f.args), dict(f.kwargs), node, None)
                return self.call_value(m_, list(f.args), dict(f.kwargs), node)
            if f.kind == "itemgetter":
                base_ = args[0]
                if isinstance(base_, Obj) and "namedtuple" in base_.tags:
                    base_ = tuple(self.nt_values(base_))
                if len(f.args) == 1:
                    k_ = f.args[0]
                    return base_[k_] if isinstance(base_, (list, tuple, dict)) else Op("getitem", (base_, k_))
                return tuple(base_[k_] if isinstance(base_, (list, tuple, dict)) else Op("getitem", (base_, k_)) for k_ in f.args)
            if f.kind == "attrgetter":
                return self.getattr_value(args[0], f.args[0], node)
            if f.kind == "fold":
                return self.call_folded(f, args, kwargs, node)
            if f.kind == "fold_prev":
                holder_, a0_, k0_ = f.target
                if len(args) != len(a0_) or any(x_ is not y_ and x_ != y_ for x_, y_ in zip(args, a0_)) or kwargs != k0_:
                    raise Unsupported("a composed function calls the function composed so far with other arguments than its own")
                return holder_["fold_val"]
            if f.kind == "sig_bind":
                # inspect.signature(fn).bind(*a, **k).arguments: the arguments that were GIVEN, by parameter name
                fi_ = f.target.attrs["fi"]
                a_ = fi_.node.args
                names_ = [p_.arg for p_ in a_.posonlyargs + a_.args][(1 if f.target.attrs.get("skip_self") else 0):]
                if len(args) > len(names_) and a_.vararg is None:
                    raise PathRaises("TypeError: too many positional arguments", node)
                given = dict(zip(names_, args))
                if a_.vararg is not None and len(args) > len(names_):
                    given[a_.vararg.arg] = tuple(args[len(names_):])
                known_ = set(names_) | {p_.arg for p_ in a_.kwonlyargs}
                for k_, v_ in kwargs.items():
                    if k_ in given:
                        raise PathRaises(f"TypeError: multiple values for argument '{k_}'", node)
                    if k_ not in known_ and a_.kwarg is None:
                        raise PathRaises(f"TypeError: got an unexpected keyword argument '{k_}'", node)
                    given[k_] = v_
                return Obj("inspect.BoundArguments", "bound", {"arguments": given})
            if f.kind == "memo_clear":
                self.memo.pop(f.target, None)
                return None
            if f.kind == "identity":
                return args[0]
        if isinstance(f, ExtRef) and f.name.startswith("builtins.") and f.name[9:] in BUILTINS:
            return self.call_builtin(f.name[9:], args, kwargs, node, None)   # a builtin reached as a value (partial(next, it), map(len, xs))
        if isinstance(f, ExtRef):
            return self.call_ext(f.name, args, kwargs, node)
        if isinstance(f, Obj):
            # Module.__call__ -> forward (+ forward hooks)
            fwd = self.prog.lookup_method(f.cls, "forward") or self.prog.lookup_method(f.cls, "__call__")
            self.ev("module_call", recv=f, args=args, kwargs=dict(kwargs), node=node)
            if fwd is None:
                return Op("call", (Sym(f.name),) + tuple(args), kwargs)
            out = self.call_function(fwd, args, kwargs, self_obj=f)
            for hook in f.attrs.get("__forward_hooks__", []):
                self.call_value(hook, [f, tuple(args), out], {}, node)
            return out
        if isinstance(f, Op) and f.op.startswith("attr_") and len(f.args) == 1 and isinstance(f.args[0], Term) and f.op[5:] not in TENSOR_ATTRS and not f.kw:
            # a bound tensor method taken as a value (`reduce = input.max if largest else input.min`) and called later
            return self.tensor_method(f.args[0], f.op[5:], args, kwargs, node)
        if isinstance(f, Term):
            self.ev("opaque_call", callee=f, args=args, kwargs=dict(kwargs), node=node)
            return Op("call", (f,) + tuple(args), kwargs)
        raise Unsupported(f"cannot call {f!r}")

    def instantiate(self, cref, args, kwargs, node):
        q = cref.qualname
        if q not in self.prog.classes:
            return self.call_ext(q, args, kwargs, node)
        obj = Obj(q, f"{q.rsplit('.', 1)[-1].lower()}#{self.fresh_id}")
        self.fresh_id += 1
        fields = self.namedtuple_fields(q)
        if fields is not None:
            names_, defaults_ = fields
            for f_, v_ in zip(names_, args):
                obj.attrs[f_] = v_
            for f_ in names_:
                if f_ in kwargs:
                    obj.attrs[f_] = kwargs[f_]
                elif f_ not in obj.attrs and f_ in defaults_:
                    ci_ = self.prog.classes[q]
                    obj.attrs[f_] = self.eval(defaults_[f_], {"__module__": ci_.module, "__parent__": None, "__cls__": q})
            missing_ = [f_ for f_ in names_ if f_ not in obj.attrs]
            if missing_:
                raise PathRaises(f"TypeError: missing field {missing_[0]}", node)
            obj.attrs["__fields__"] = list(names_)
            obj.tags.add("namedtuple")
            return obj
        init = self.prog.lookup_method(q, "__init__")
        if init is not None:
            self.call_function(init, args, kwargs, self_obj=obj)
            return obj
        dc = self.dataclass_fields(q)
        if dc is not None:
            names_, defaults_ = dc
            for f_, v_ in zip(names_, args):
                obj.attrs[f_] = v_
            for f_ in names_:
                if f_ in kwargs:
                    obj.attrs[f_] = kwargs[f_]
                elif f_ not in obj.attrs and f_ in defaults_:
                    ci_ = self.prog.classes[q]
                    obj.attrs[f_] = self.eval(defaults_[f_], {"__module__": ci_.module, "__parent__": None, "__cls__": q})
            missing_ = [f_ for f_ in names_ if f_ not in obj.attrs]
            if missing_:
                raise PathRaises(f"TypeError: missing field {missing_[0]}", node)
            post = self.prog.lookup_method(q, "__post_init__")
            if post is not None:
                self.call_function(post, [], {}, self_obj=obj)
        return obj

    def dataclass_fields(self, q):
        """(field names in definition order over the MRO, defaults) if class q is a @dataclass"""
        names, defaults, any_dc = [], {}, False
        for c in reversed(self.prog.mro(q)):
            ci = self.prog.classes.get(c)
            if ci is None:
                continue
            if any(ast.unparse(d).split("(")[0].split(".")[-1] == "dataclass" for d in ci.node.decorator_list):
                any_dc = True
                for st in ci.node.body:
                    if isinstance(st, ast.AnnAssign) and isinstance(st.target, ast.Name) and "ClassVar" not in ast.unparse(st.annotation):
                        if st.target.id not in names:
                            names.append(st.target.id)
                        if st.value is not None:
                            defaults[st.target.id] = st.value
        return (names, defaults) if any_dc else None

    def namedtuple_fields(self, q):
        """(field names in order, {name: default expr}) if class q is a named tuple: `class X(NamedTuple): a: T; b: T = d` (own or inherited
        through a mixin) or `class X(namedtuple("X", [...]))`"""
        for c in self.prog.mro(q):
            ci = self.prog.classes.get(c)
            if ci is None:
                continue
            for rb in ci.node.bases:
                if isinstance(rb, ast.Call) and ast.unparse(rb.func).endswith("namedtuple") and len(rb.args) > 1 and isinstance(rb.args[1], (ast.List, ast.Tuple)):
                    return [e.value for e in rb.args[1].elts], {}
                if ast.unparse(rb).split(".")[-1] == "NamedTuple":
                    names, defaults = [], {}
                    for st in ci.node.body:
                        if isinstance(st, ast.AnnAssign) and isinstance(st.target, ast.Name):
                            names.append(st.target.id)
                            if st.value is not None:
                                defaults[st.target.id] = st.value
                    return names, defaults
        return None

    @staticmethod
    def nt_values(o):
        return [o.attrs[f_] for f_ in o.attrs.get("__fields__", [k for k in o.attrs if not k.startswith("__")])]

    # ------------------------------------------------------------------ externals
    def call_ext(self, name, args, kwargs, node):
        short = name.split(".")[-1]
        if name.startswith(("torch.Tensor.", "Tensor.")) and args and isinstance(args[0], Term):
            # the method taken off the class and called with the tensor first (a table of `Tensor.cummax` / `Tensor.cummin`)
            return self.tensor_method(args[0], short, list(args[1:]), kwargs, node)
        if name in ("math.ceil", "math.floor", "math.sqrt", "math.log", "math.exp", "math.log10"):
            if all(is_num(a) for a in args):
                return getattr(math, short)(*args)
            return Op("py_" + short, args)
        if name == "torch._C._nn._parse_to" and self.faithful_registry:
            # (device, dtype, non_blocking, memory_format) of Module.to's arguments: keywords, or positional dtype / device / tensor
            dev, dt = kwargs.get("device"), kwargs.get("dtype")
            for a_ in args:
                if isinstance(a_, Sym) and "dtype" in a_.tags or isinstance(a_, ExtRef) and a_.name.startswith("torch.") and a_.name.split(".")[-1] in TORCH_DTYPES:
                    dt = a_
                elif isinstance(a_, Sym) and "device" in a_.tags or isinstance(a_, str):
                    dev = a_
                elif isinstance(a_, Term):
                    dev, dt = Op("attr_device", (a_,)), Op("attr_dtype", (a_,))
                elif a_ is not None:
                    raise Unsupported(f"_parse_to argument {a_!r}")
            return (dev, dt, False, None)
        if name == "functools.wraps":
            return Partial("identity", None)   # copies name and docstring onto the wrapper: the wrapper itself is returned
        if name == "functools.partial":
            return Partial("partial", args[0], args[1:], kwargs)
        if name == "functools.reduce":
            fn_, seq_ = args[0], self.strip_iter(args[1])
            if not isinstance(seq_, (list, tuple)):
                # a fold over a sequence of unknown length: the loop `acc = init; for x in seq: acc = fn(acc, x)`
                if len(args) < 3:
                    raise Unsupported("functools.reduce over a symbolic sequence without initial value")
                if isinstance(args[2], (Closure, FuncInfo, Partial, BoundMethod)) and isinstance(seq_, SymList):
                    # a fold of FUNCTIONS (reduce(compose, clauses, identity)): the result is a function; what it returns for given arguments is
                    # the fold of the values - worked out when it is called
                    return Partial("fold", (fn_, seq_, args[2]))
                holder = {"__module__": "pfhedge", "__parent__": None, "__cls__": None, "reduce_acc_": args[2], "reduce_fn_": fn_, "reduce_seq_": args[1]}
                loop = ast.parse("for reduce_x_ in reduce_seq_:\n    reduce_acc_ = reduce_fn_(reduce_acc_, reduce_x_)\n").body[0]
                self.exec_stmt(loop, holder)
                return holder["reduce_acc_"]
            it_ = list(seq_)
            acc_ = args[2] if len(args) > 2 else it_.pop(0)
            for x_ in it_:
                acc_ = self.call_value(fn_, [acc_, x_], {}, node)
            return acc_
        if name == "operator.methodcaller":
            return Partial("methodcaller", args[0], args[1:], kwargs)
        if name == "operator.itemgetter":
            return Partial("itemgetter", None, args)
        if name == "operator.attrgetter" and len(args) == 1 and isinstance(args[0], str) and "." not in args[0]:
            return Partial("attrgetter", None, args)
        if name.startswith("operator.") and short in OPERATOR_FUNCS and len(args) == OPERATOR_FUNCS[short][1]:
            kind_, _ = OPERATOR_FUNCS[short]
            if kind_[0] == "bin":
                node_ = {v_: k_ for k_, v_ in self.BIN.items()}[kind_[1]]()
                return self.binop(node_, args[0], args[1])
            if kind_[0] == "cmp":
                return self.compare(kind_[1](), args[0], args[1])
            if kind_[0] == "neg":
                return self.binop("sub", 0, args[0]) if is_num(args[0]) else Op("neg", (args[0],))
            if kind_[0] == "not":
                return (not args[0]) if not isinstance(args[0], Term) else Op("not", (args[0],))
            if kind_[0] == "getitem":
                base_ = args[0]
                return base_[args[1]] if isinstance(base_, (list, tuple, dict)) else Op("getitem", (base_, args[1]))
        if name == "itertools.count":
            start_ = args[0] if args else kwargs.get("start", 0)
            return Op("range", (start_, Sym("unbounded", ("int",))))
        if name == "itertools.chain":
            if all(isinstance(self.strip_iter(x_), (list, tuple)) for x_ in args):
                return [y_ for x_ in args for y_ in self.strip_iter(x_)]
        if name == "itertools.islice" and isinstance(self.strip_iter(args[0]), (list, tuple)) and all(x_ is None or isinstance(x_, int) for x_ in args[1:]):
            import itertools as _it
            return list(_it.islice(self.strip_iter(args[0]), *args[1:]))
        if name == "itertools.islice" and isinstance(args[0], Obj) and args[0].cls == "generator" and len(args) == 2 and not kwargs:
            return Obj("generator", "islice", {"islice": (args[0], args[1]), "taken": 0, "env": {}}, {"generator"})
        if name in ("copy.copy",):
            o = args[0]
            if isinstance(o, Obj):
                c = Obj(o.cls, o.name + "'", o.attrs, o.tags)
                self.ev("copy", src=o, dst=c)
                return c
            return o
        if name in ("copy.deepcopy",):
            memo = {}

            def dc(v):
                if isinstance(v, Obj):
                    if id(v) in memo:
                        return memo[id(v)]
                    c = Obj(v.cls, v.name + "#copy", {}, set(getattr(v, "tags", ()) or ()))
                    memo[id(v)] = c
                    for k_, x in v.attrs.items():
                        c.attrs[k_] = dc(x)
                    return c
                if isinstance(v, Sym) and (("callable" in v.tags) or ("tensor" in v.tags) or ("module" in v.tags) or ("buffer" in v.tags)):
                    # a module / tensor held by the object: the copy owns separate parameters and storage
                    return Sym(v.name + "#copy", tuple(v.tags) + ("deepcopy",))
                if isinstance(v, list):
                    return [dc(x) for x in v]
                if isinstance(v, tuple) and not hasattr(v, "_fields"):
                    return tuple(dc(x) for x in v)
                if isinstance(v, dict):
                    return {k_: dc(x) for k_, x in v.items()}
                return v
            out_ = dc(args[0])
            if out_ is not args[0]:
                self.ev("deepcopy", src=args[0], dst=out_, node=node)
            return out_
        if name == "inspect.signature":
            f = args[0]
            fi = f.fi if isinstance(f, (BoundMethod, Closure)) else f if isinstance(f, FuncInfo) else None
            if fi is None:
                return Op("signature", args)
            ps = [p.arg for p in fi.node.args.args + fi.node.args.kwonlyargs]
            if isinstance(f, BoundMethod):
                ps = ps[1:]
            return Obj("inspect.Signature", "sig", {"parameters": {p: p for p in ps}, "fi": fi, "skip_self": isinstance(f, BoundMethod)})
        if name == "torch.distributions.utils.broadcast_all":
            return tuple(args)
        if name.startswith("torch.distributions") or name.startswith("torch.quasirandom"):
            return Obj(name, short.lower(), {"args": tuple(args), "kwargs": dict(kwargs)})
        if name == "collections.OrderedDict":
            return {}
        if name == "collections.namedtuple":
            return ClassRef("namedtuple:" + ",".join(args[1]))
        if name.startswith("torch.") or name.startswith("torch"):
            opname = name[len("torch."):]
            opname = opname.replace("nn.functional.", "").replace("autograd.", "autograd_")
            if opname in ("as_tensor", "tensor") and args and "dtype" not in kwargs and isinstance(args[0], float) and not _f32_exact(args[0]):
                # a Python float constant that float32 cannot represent, packed into a default-dtype tensor (math.pi, 0.1, ...)
                self.ev("lossy_scalar", value=repr(args[0]), how=f"torch.{opname}(<python float constant>) without dtype", node=node)
            if opname in ("as_tensor",) and args and isinstance(args[0], Term) and "dtype" not in kwargs:
                if isinstance(args[0], Sym) and "float" in args[0].tags:
                    # a Python float turned into a 0-dim tensor of the DEFAULT dtype: same value for the algebra, but the value is rounded to
                    # float32 before it meets float64 data - kept visible for the precision rule (C07.R7)
                    self.ev("lossy_scalar", value=args[0], how="torch.as_tensor(<python float>) without dtype", node=node)
                if not kwargs:
                    return args[0]
            if opname == "Size":
                return tuple(args[0])
            if opname == "broadcast_tensors":
                return tuple(args)  # shape-only: every operand keeps its values (the like of torch.distributions.utils.broadcast_all)
            if opname == "tensor" and args and isinstance(args[0], Sym) and ("float" in args[0].tags or "list" in args[0].tags) and "dtype" not in kwargs:
                self.ev("lossy_scalar", value=args[0], how="torch.tensor(<python float>) without dtype", node=node)
            if opname in ("tensor", "as_tensor") and args and isinstance(args[0], Op) and "dtype" not in kwargs and (args[0].op == "py_float" or (
                    args[0].op in ("div", "mul", "add", "sub", "py_sqrt", "py_log", "py_exp") and not any("tensor" in getattr(x_, "tags", ()) or "buffer" in getattr(x_, "tags", ()) for x_ in walk(args[0]))
                    and any(isinstance(x_, Sym) and "float" in x_.tags for x_ in walk(args[0])))):
                # a Python-level float expression (float(n), a / b of numbers) packed into a default-dtype tensor
                self.ev("lossy_scalar", value=args[0], how=f"torch.{opname}(<python float expression>) without dtype", node=node)
            if opname in ("set_grad_enabled", "enable_grad", "no_grad"):
                return Obj("torch.gradmode", opname, {"mode": opname, "arg": args[0] if args else None})
            if opname == "is_grad_enabled" and not args:
                return Sym(f"grad_mode_before#{len(self.events)}", ("bool", "grad_state"))
            return Op(opname, args, kwargs)
        self.ev("ext_call", callee=name, args=args, kwargs=dict(kwargs), node=node)
        return Op("ext:" + name, args, kwargs)

    # ------------------------------------------------------------------ statements
    def exec_block(self, body, env):
        for st in body:
            self.exec_stmt(st, env)

    def exec_stmt(self, st, env):
        if isinstance(st, ast.Expr):
            if isinstance(st.value, ast.Constant):
                return
            v = self.eval(st.value, env)
            c = st.value
            if isinstance(v, Obj) and v.cls == "torch.gradmode" and v.attrs.get("mode") == "set_grad_enabled":
                # torch.set_grad_enabled(x) as a statement switches the mode from here on: a region that lasts until the mode saved by
                # torch.is_grad_enabled() is put back (or the path ends)
                arg_ = v.attrs.get("arg")
                if isinstance(arg_, Sym) and "grad_state" in arg_.tags:
                    if not self.imperative_grad:
                        raise Unsupported("torch.set_grad_enabled(<saved mode>) without a switch before it")
                    self.ev("with_exit", ctx=[self.imperative_grad.pop()], node=st)
                else:
                    self.imperative_grad.append(v)
                    self.ev("with_enter", ctx=[v], node=st)
                return
            if isinstance(v, Op):
                self.ev("discard", value=v, node=st)
            if (isinstance(c, ast.Call) and isinstance(c.func, ast.Attribute) and c.func.attr.endswith("_")
                    and not c.func.attr.startswith("__") and isinstance(v, Op) and v.op == c.func.attr):
                # x.log_()  ==>  x = log(x)   (functional update; the effect is in the event log)
                self.rebind(c.func.value, Op(v.op[:-1], v.args, v.kw), env, st)
        elif isinstance(st, ast.Assign):
            v = self.eval(st.value, env)
            if isinstance(v, EagerGen) and v.effects:
                raise Unsupported(f"a generator whose body has effects ({', '.join(sorted(set(v.effects)))}) is stored before it is consumed")
            for t in st.targets:
                self.assign(t, v, env, st)
        elif isinstance(st, ast.AnnAssign):
            if st.value is not None:
                self.assign(st.target, self.eval(st.value, env), env, st)
        elif isinstance(st, ast.AugAssign):
            cur = self.eval(st.target, env)
            rhs = self.eval(st.value, env)
            new = self.binop(st.op, cur, rhs)
            if isinstance(cur, Term) and not isinstance(st.target, ast.Subscript):
                self.ev("inplace", how="augassign", target=cur, value=rhs, node=st)
            self.assign(st.target, new, env, st, aug=True)
        elif isinstance(st, ast.Return):
            raise _Return(self.eval(st.value, env) if st.value is not None else None)
        elif isinstance(st, ast.If):
            if self.loop_kinds and not st.orelse and len(st.body) == 1 and isinstance(st.body[0], ast.Break):
                # `if c: break` in a loop over a sequence of unknown length is the loop condition `not c` tested at this point (the generic
                # iteration continues with the condition false); in a concrete loop the break is taken when c holds
                cv = self.eval(st.test, env)
                if isinstance(cv, Term):
                    if self.loop_kinds[-1] != "symbolic":
                        # an iteration that is run on its own (concrete sequence, first element of a generator): both outcomes are followed
                        if self.truth(cv, st.test, env):
                            raise _Break()
                        return
                    self.ev("while_test", cond=cv.args[0] if isinstance(cv, Op) and cv.op == "not" else Op("not", (cv,)), node=st)
                    return
                if cv:
                    raise _Break()
                return
            c = self.truth(self.eval(st.test, env), st, env)
            self.exec_block(st.body if c else st.orelse, env)
        elif isinstance(st, ast.Break):
            raise _Break()
        elif isinstance(st, ast.Continue):
            raise _Continue()
        elif isinstance(st, ast.Raise):
            exc = ast.unparse(st.exc) if st.exc is not None else "re-raise"
            if isinstance(st.exc, ast.Name):
                try:
                    v_ = self.lookup(st.exc.id, env)
                except Unsupported:
                    v_ = None
                if isinstance(v_, Obj) and "exception" in v_.tags:
                    exc = f"{v_.cls.rsplit('.', 1)[-1]}({', '.join(str(x_)[:80] for x_ in v_.attrs.get('args', ()))})"   # `raise error` of an exception built earlier
            self.ev("raise", exc=exc, node=st)
            raise PathRaises(exc, st)
        elif isinstance(st, ast.Assert):
            c = self.eval(st.test, env)
            if c is False:
                raise PathRaises("AssertionError", st)
            if c is not True:
                self.ev("guard", cond=c, node=st, raises="AssertionError")
        elif isinstance(st, ast.For):
            self.exec_for(st, env)
        elif isinstance(st, ast.While):
            self.exec_while(st, env)
        elif isinstance(st, ast.With):
            ctxs = [self.eval(i.context_expr, env) for i in st.items]
            own = [c for c in ctxs if isinstance(c, Obj) and c.cls == "contextmanager"]
            if own and len(ctxs) != 1:
                raise Unsupported("a generator-based context manager next to another context in one with statement")
            if own:
                # the manager's body is run here, and its `yield` runs the body of the with statement (once): whatever encloses the yield -
                # another with, try/finally - encloses the block, and an exception or return from the block unwinds through it
                cm = own[0]
                cenv = cm.attrs["env"]
                cenv["__cm_body__"] = [st.body, env, st.items[0].optional_vars, st, 0]
                self.depth += 1
                self.stack.append(cm.attrs["qual"])
                try:
                    try:
                        self.exec_block(cm.attrs["body"], cenv)
                    except _Return as r_:
                        if cenv["__cm_body__"][4] != 1:
                            raise Unsupported("a context manager that returns before it yields")
                    except _BlockReturn as b_:
                        raise _Return(b_.value)
                finally:
                    self.stack.pop()
                    self.depth -= 1
                if cenv["__cm_body__"][4] != 1:
                    raise Unsupported("a context manager that does not yield exactly once")
                return
            for i, c in zip(st.items, ctxs):
                if i.optional_vars is not None:
                    self.assign(i.optional_vars, c, env, st)
            self.ev("with_enter", ctx=ctxs, node=st)
            try:
                self.exec_block(st.body, env)
            finally:
                self.ev("with_exit", ctx=ctxs, node=st)
        elif isinstance(st, ast.FunctionDef):
            env[st.name] = Closure(st, env, env["__module__"], fi=None, self_obj=env.get("__self__"), cls_ctx=env.get("__cls__"))
        elif isinstance(st, ast.Pass):
            pass
        elif isinstance(st, ast.Delete):
            for t in st.targets:
                if isinstance(t, ast.Subscript):
                    d = self.eval(t.value, env)
                    k = self.eval(t.slice, env)
                    if isinstance(d, dict) and k in d:
                        del d[k]
                    else:
                        self.ev("delete", target=d, key=k, node=st)
                elif isinstance(t, ast.Name):
                    env.pop(t.id, None)
        elif isinstance(st, (ast.Import, ast.ImportFrom)):
            pass
        elif isinstance(st, ast.Try):
            self.exec_try(st, env)
        else:
            raise Unsupported("statement " + type(st).__name__)

    EXC_PARENTS = {"KeyError": "LookupError", "IndexError": "LookupError", "LookupError": "Exception", "ValueError": "Exception", "TypeError": "Exception",
                   "AttributeError": "Exception", "RuntimeError": "Exception", "NotImplementedError": "RuntimeError", "AssertionError": "Exception",
                   "StopIteration": "Exception", "ZeroDivisionError": "ArithmeticError", "ArithmeticError": "Exception", "Exception": "BaseException"}

    def exec_try(self, st, env):
        """try/except/else/finally over the exceptions the interpreter itself models (a raise statement, a missing key or index, a missing
        attribute): the handler whose class is the raised class or one of its bases runs; anything else propagates."""
        try:
            try:
                self.exec_block(st.body, env)
            except PathRaises as pr:
                m = re.match(r"[A-Za-z_][A-Za-z_0-9.]*", str(pr.exc))
                raised = m.group(0).rsplit(".", 1)[-1] if m else ""
                chain = [raised]
                while chain[-1] in self.EXC_PARENTS:
                    chain.append(self.EXC_PARENTS[chain[-1]])
                if raised not in self.EXC_PARENTS:
                    raise Unsupported(f"try/except around an exception of unknown class: {pr.exc}")
                for h in st.handlers:
                    names = []
                    if h.type is not None:
                        for t in (h.type.elts if isinstance(h.type, ast.Tuple) else [h.type]):
                            names.append(ast.unparse(t).rsplit(".", 1)[-1])
                    if h.type is None or any(n in chain for n in names):
                        if h.name:
                            env[h.name] = Obj("builtins." + raised, "exc", {"args": (str(pr.exc),)})
                        self.ev("except", exc=str(pr.exc), node=h)
                        try:
                            self.exec_block(h.body, env)
                        except PathRaises as pr2:
                            if pr2.exc == "re-raise":
                                raise pr
                            raise
                        break
                else:
                    raise
            else:
                self.exec_block(st.orelse, env)
        finally:
            if st.finalbody:
                self.exec_block(st.finalbody, env)

    def truth(self, c, node, env):
        """Decide a branch condition; symbolic -> guard (raise-only body) or decision."""
        if isinstance(c, Op) and c.op == "all" and False:
            pass
        if c is None or isinstance(c, (bool, int, float, str, tuple, list, dict)):
            return bool(c)
        if isinstance(c, (Obj, Closure, BoundMethod, ClassRef, FuncInfo, ExtRef)):
            return True
        # symbolic
        if isinstance(node, ast.If):
            body_raises = all(isinstance(s, ast.Raise) for s in node.body)
            else_raises = bool(node.orelse) and all(isinstance(s, ast.Raise) for s in node.orelse)
            if body_raises and not else_raises:
                self.ev("guard", cond=c, node=node, raises=ast.unparse(node.body[0].exc) if node.body[0].exc else "")
                return False
            if else_raises and not body_raises:
                self.ev("guard", cond=Op("not", (c,)), node=node, raises="")
                return True
        for pc, pd, _ in self.path_cond:
            if pc == c:
                return pd
            if isinstance(pc, Op) and pc.op == "not" and pc.args[0] == c:
                return not pd
            if isinstance(c, Op) and c.op == "not" and c.args[0] == pc:
                return not pd
        if self.dec_idx < len(self.decisions):
            d = self.decisions[self.dec_idx]
            self.dec_idx += 1
            self.path_cond.append((c, d, node))
            self.ev("decision", cond=c, taken=d, node=node)
            return d
        raise NeedDecision(c, node)

    def exec_for(self, st, env):
        if (isinstance(st.iter, ast.Call) and isinstance(st.iter.func, ast.Name) and st.iter.func.id == "zip" and len(st.iter.args) == 2 and not st.iter.keywords
                and isinstance(self.lookup("zip", env), ExtRef)):
            second = self.eval(st.iter.args[1], env)
            if isinstance(second, Obj) and second.cls == "generator":
                # for a, b in zip(xs, gen): zip asks xs first and stops when it is exhausted, so gen is advanced once per element of xs
                env["zip_gen_"] = second
                pair = ast.Assign(targets=[st.target], value=ast.Tuple(elts=[ast.Name(id="zip_first_", ctx=ast.Load()), ast.Call(
                    func=ast.Name(id="next", ctx=ast.Load()), args=[ast.Name(id="zip_gen_", ctx=ast.Load())], keywords=[])], ctx=ast.Load()))
                loop = ast.For(target=ast.Name(id="zip_first_", ctx=ast.Store()), iter=st.iter.args[0], body=[pair] + list(st.body), orelse=list(st.orelse))
                ast.copy_location(loop, st)
                ast.fix_missing_locations(loop)
                return self.exec_for(loop, env)
        it = self.eval(st.iter, env)
        it = self.strip_iter(it)
        if isinstance(it, (list, tuple, range, dict)):
            self.loop_kinds.append("concrete")
            try:
                broke = False
                for x in list(it):
                    self.assign(st.target, x, env, st)
                    try:
                        self.exec_block(st.body, env)
                    except _Continue:
                        continue
                    except _Break:
                        broke = True
                        break
            finally:
                self.loop_kinds.pop()
            if not broke and st.orelse:
                self.exec_block(st.orelse, env)
            return
        if isinstance(it, Obj) and it.cls == "generator":
            return self.for_over_generator(st, env, it)
        # symbolic iteration: two passes over the body for a generic element / index
        if isinstance(it, Op) and it.op == "range":
            idx = self.fresh("i", ("int", "loopvar"))
            elem = idx
            desc = ("range",) + tuple(it.args)
        elif isinstance(it, SymList):
            elem = it.elem
            desc = ("symlist", it.name)
        elif isinstance(it, MapList):
            elem = it.body
            desc = ("maplist", it)
        else:
            elem = self.fresh("elem")
            desc = ("iter", it)
        self.symbolic_loop(st, env, elem, desc, lambda: (self.assign(st.target, elem, env, st), self.exec_block(st.body, env)))
        self.symbolic_orelse(st, env, any(isinstance(n, ast.Break) for s_ in st.body for n in ast.walk(s_)))

    # -- loop machinery ------------------------------------------------------
    def _state_cells(self, env):
        """All mutable cells reachable: env dicts of the chain, object attribute dicts, and lists in them."""
        cells = []
        e = env
        while e is not None:
            cells.append(e)
            e = e.get("__parent__")
        for o in Obj.REGISTRY:
            cells.append(o.attrs)
            if o.cls == "generator":
                cells.append(o.attrs["env"])
        lists = []
        for c in cells:
            for v in c.values():
                if isinstance(v, list):
                    lists.append(v)
        return cells, lists

    def symbolic_loop(self, st, env, elem, desc, body):
        cells, lists = self._state_cells(env)
        snap_cells = [(c, dict(c)) for c in cells]
        snap_lists = [(l, list(l)) for l in lists]
        n_events, n_objs = len(self.events), len(Obj.REGISTRY)
        fid = self.fresh_id
        ctx = {"elem": elem, "desc": desc, "pass": 1}
        self.loop_stack.append(ctx)
        self.loop_kinds.append("symbolic")
        try:
            body()
        finally:
            self.loop_stack.pop()
            self.loop_kinds.pop()
        # which tensor-valued cells changed?
        changed = []
        changed_nt = []
        for c, before in snap_cells:
            for k, v in c.items():
                if isinstance(k, str) and k.startswith("__") and not k.startswith("__buf_"):
                    continue
                b = before.get(k, None)
                if b is not v and (isinstance(v, Term) or isinstance(b, Term)) and k in before:
                    changed.append((c, k, b))
                elif (b is not v and k in before and isinstance(b, Obj) and isinstance(v, Obj) and "namedtuple" in b.tags and "namedtuple" in v.tags and b.cls == v.cls
                      and any(isinstance(x_, Term) for x_ in list(b.attrs.values()) + list(v.attrs.values()))):
                    changed_nt.append((c, k, b))  # a named tuple of tensors re-bound in the body: carried field by field
                elif b is not v and k in before and isinstance(v, (Closure, Partial)) and isinstance(b, (Closure, Partial, FuncInfo, BoundMethod)):
                    # a function built from the function of the iteration before (a chain of closures): no summary of that exists here
                    raise Unsupported(f"the function-valued variable {k} is re-bound in every iteration of a loop of unknown length")
        # restore
        for c, before in snap_cells:
            c.clear()
            c.update(before)
        for l, before in snap_lists:
            l[:] = before
        del self.events[n_events:]
        del Obj.REGISTRY[n_objs:]
        self.fresh_id = fid
        # pass 2 with loop-carried symbols
        carried = []
        for c, k, b in changed:
            sym = Sym(f"carried:{k}@{elem!r}", ("carried",))
            c[k] = sym
            carried.append((c, k, sym, b))
        carried_nt = []
        for c, k, b in changed_nt:
            fields_ = b.attrs.get("__fields__", [f_ for f_ in b.attrs if not f_.startswith("__")])
            fresh_ = Obj(b.cls, b.name + "~", {"__fields__": list(fields_)}, set(b.tags))
            for f_ in fields_:
                sym = Sym(f"carried:{k}.{f_}@{elem!r}", ("carried",))
                fresh_.attrs[f_] = sym
                carried_nt.append((c, k, f_, sym, b.attrs[f_]))
            c[k] = fresh_
        self.ev("loop_begin", var=elem, over=desc, node=st, carried=[(k, b) for _, k, _, b in carried] + [(f"{k}.{f_}", b_) for _, k, f_, _, b_ in carried_nt])
        ctx = {"elem": elem, "desc": desc, "pass": 2}
        self.loop_stack.append(ctx)
        self.loop_kinds.append("symbolic")
        try:
            body()
        finally:
            self.loop_stack.pop()
            self.loop_kinds.pop()
        updates = []
        for c, k, sym, b in carried:
            upd = c.get(k)
            updates.append((k, sym, b, upd))
            c[k] = Op("loop", (elem, desc, b, sym, upd))
        done_ = {}
        for c, k, f_, sym, b_ in carried_nt:
            res_ = c.get(k)
            upd = res_.attrs.get(f_) if isinstance(res_, Obj) else None
            updates.append((f"{k}.{f_}", sym, b_, upd))
            done_.setdefault((id(c), k), (c, k, res_, {}))[3][f_] = Op("loop", (elem, desc, b_, sym, upd))
        for c, k, res_, fields_ in done_.values():
            if isinstance(res_, Obj):
                final_ = Obj(res_.cls, res_.name + "*", dict(res_.attrs), set(res_.tags))
                final_.attrs.update(fields_)
                c[k] = final_
        self.ev("loop_end", var=elem, over=desc, node=st, updates=updates)

    def exec_while(self, st, env):
        elem = self.fresh("w", ("int", "loopvar"))
        desc = ("while", ast.unparse(st.test))

        def body():
            c = self.eval(st.test, env)
            self.ev("while_test", cond=c, node=st)
            self.exec_block(st.body, env)

        self.symbolic_loop(st, env, elem, desc, body)

    @staticmethod
    def strip_iter(it):
        # transparent iterator wrappers
        while isinstance(it, Op) and it.op in ("ext:tqdm.tqdm", "ext:tqdm"):
            it = it.args[0]
        if isinstance(it, Obj) and "namedtuple" in it.tags:
            return Interp.nt_values(it)
        return it

    # ------------------------------------------------------------------ assignment
    def assign(self, t, v, env, node, aug=False):
        if isinstance(t, ast.Name):
            env[t.id] = v
        elif isinstance(t, (ast.Tuple, ast.List)):
            vals = self.unpack(v, len(t.elts), t)
            star = [i for i, e in enumerate(t.elts) if isinstance(e, ast.Starred)]
            if star:
                i = star[0]
                n_after = len(t.elts) - i - 1
                vals = list(v) if isinstance(v, (tuple, list)) else vals
                head, mid, tail = vals[:i], vals[i:len(vals) - n_after], vals[len(vals) - n_after:]
                for e, x in zip(t.elts[:i], head):
                    self.assign(e, x, env, node)
                self.assign(t.elts[i].value, list(mid), env, node)
                for e, x in zip(t.elts[i + 1:], tail):
                    self.assign(e, x, env, node)
            else:
                for e, x in zip(t.elts, vals):
                    self.assign(e, x, env, node)
        elif isinstance(t, ast.Attribute):
            o = self.eval(t.value, env)
            if isinstance(o, Obj):
                self.setattr_obj(o, t.attr, v, node)
            elif isinstance(o, ClassRef):
                self.ev("class_setattr", cls=o.qualname, attr=t.attr, value=v, node=node)
            else:
                self.ev("setattr", target=o, attr=t.attr, value=v, node=node)
        elif isinstance(t, ast.Subscript):
            base = self.eval(t.value, env)
            idx = self.eval_index(t.slice, env)
            if isinstance(base, dict):
                base[idx] = v
                self.ev("dict_store", target=base, key=idx, value=v, node=node, owner=ast.unparse(t.value))
            elif isinstance(base, list) and isinstance(idx, int):
                base[idx] = v
            elif isinstance(base, Term):
                self.ev("inplace", how="setitem", target=base, index=idx, value=v, node=node)
                new = Op("setitem", (base, idx, v))
                self.rebind(t.value, new, env, node)
            else:
                self.ev("store", target=base, key=idx, value=v, node=node)
        else:
            raise Unsupported("assign target " + type(t).__name__)

    def rebind(self, target_expr, new, env, node):
        """After a functional update of a mutable tensor, rebind the variable that held it."""
        if isinstance(target_expr, ast.Name):
            env[target_expr.id] = new
        elif isinstance(target_expr, ast.Attribute):
            o = self.eval(target_expr.value, env)
            if isinstance(o, Obj):
                o.attrs[target_expr.attr] = new

    def setattr_obj(self, o, attr, v, node):
        hook = self.prog.lookup_method(o.cls, "__setattr__")
        if hook is not None and hook.qualname in self.intrinsics:
            self.intrinsics[hook.qualname](self, o, [attr, v], {})
        elif hook is not None and self.faithful_registry:
            # the class's own __setattr__ decides what is stored (object.__setattr__ is reached through super())
            self.ev("call", callee=hook.qualname, recv=o, args=[attr, v], kwargs={}, node=node)
            self.call_function(hook, [attr, v], {}, self_obj=o)
            return
        o.attrs[attr] = v
        self.ev("obj_setattr", obj=o, attr=attr, value=v, node=node)

    def unpack(self, v, n, node):
        if isinstance(v, (tuple, list)):
            return list(v)
        if isinstance(v, Obj) and "namedtuple" in v.tags:
            return self.nt_values(v)
        if isinstance(v, Term):
            return [Op("getitem", (v, i)) for i in range(n)]
        if isinstance(v, dict):
            return list(v)
        raise Unsupported(f"cannot unpack {v!r}")

    # ------------------------------------------------------------------ expressions
    def lookup(self, name, env):
        e = env
        while e is not None:
            if name in e:
                return e[name]
            e = e.get("__parent__")
        module = env["__module__"]
        mod = self.prog.modules[module]
        if name in mod.globals and name not in mod.imports:
            g_ = mod.globals[name]
            if isinstance(g_, ast.Call) and isinstance(g_.func, ast.Name) and g_.func.id == "object" and not g_.args:
                # a module-level sentinel `X = object()`: one object per program, compared by identity
                cache_ = self.prog.__dict__.setdefault("_sentinels", {})
                if (module, name) not in cache_:
                    cache_[(module, name)] = Obj("builtins.object", f"{module.rsplit('.', 1)[-1]}.{name}")
                return cache_[(module, name)]
            return self.eval(g_, {"__module__": module, "__parent__": None, "__cls__": None})
        q = self.prog.resolve_name(module, name)
        if q is not None:
            return self.ref(q)
        if name in BUILTINS:
            return ExtRef("builtins." + name)
        raise Unsupported(f"unresolved name {name} in {module}")

    def ref(self, q):
        if q in self.prog.functions:
            return self.prog.functions[q]
        if q in self.prog.classes:
            return ClassRef(q)
        if q in self.prog.modules:
            return ExtRef(q)
        c = self.prog.canonical(q)
        if c and c != q:
            return self.ref(c)
        if q in ("math.pi", "math.e", "math.inf"):
            return getattr(math, q[5:])
        return ExtRef(q)

    def eval(self, e, env):
        m = getattr(self, "eval_" + type(e).__name__, None)
        if m is None:
            raise Unsupported("expression " + type(e).__name__)
        return m(e, env)

    def eval_Constant(self, e, env):
        return e.value

    def eval_Name(self, e, env):
        return self.lookup(e.id, env)

    def eval_Tuple(self, e, env):
        out = []
        for x in e.elts:
            if isinstance(x, ast.Starred):
                v_ = self.strip_iter(self.eval(x.value, env))
                if not isinstance(v_, (list, tuple)):
                    raise Unsupported("a sequence of unknown length unpacked into a tuple / list display")
                out.extend(v_)
            else:
                out.append(self.eval(x, env))
        return tuple(out)

    def eval_List(self, e, env):
        return list(self.eval_Tuple(e, env))

    def eval_Dict(self, e, env):
        d = {}
        for k, v in zip(e.keys, e.values):
            if k is None:
                d.update(self.eval(v, env))
            else:
                d[self.eval(k, env)] = self.eval(v, env)
        return d

    def eval_JoinedStr(self, e, env):
        return "<fstring>"

    def eval_Yield(self, e, env):
        v = self.eval(e.value, env) if e.value is not None else None
        cm_ = env
        while cm_ is not None and "__cm_body__" not in cm_ and "__yield__" not in cm_ and "__gen_step__" not in cm_:
            cm_ = cm_.get("__parent__")
        if cm_ is not None and "__gen_step__" in cm_:
            raise _GenYield(v)
        if cm_ is not None and "__cm_body__" in cm_:
            slot = cm_["__cm_body__"]
            slot[4] += 1
            if slot[4] > 1:
                raise Unsupported("a context manager that yields more than once")
            body_, caller_env, target_, st_ = slot[:4]
            if target_ is not None:
                self.assign(target_, v, caller_env, st_)
            try:
                self.exec_block(body_, caller_env)
            except _Return as r_:
                raise _BlockReturn(r_.value)
            return None
        if self.loop_stack:
            lc = self.loop_stack[-1]
            v = Op("forall", (lc["elem"], lc["desc"], v))
        tgt = env
        while tgt is not None and "__yield__" not in tgt:
            tgt = tgt.get("__parent__")
        tgt["__yield__"].append(v)
        return None

    def eval_YieldFrom(self, e, env):
        v = self.eval(e.value, env)
        if isinstance(v, Obj) and v.cls == "dictview":
            v = list(v.attrs.get("values", v.attrs.get("keys", [])))
        if not isinstance(v, (list, tuple)):
            raise Unsupported("yield from a symbolic sequence")
        tgt = env
        while tgt is not None and "__yield__" not in tgt:
            tgt = tgt.get("__parent__")
        tgt["__yield__"].extend(v)
        return None

    def eval_Lambda(self, e, env):
        return Closure(e, env, env["__module__"], self_obj=env.get("__self__"), cls_ctx=env.get("__cls__"))

    def eval_IfExp(self, e, env):
        c = self.truth(self.eval(e.test, env), e, env)
        return self.eval(e.body if c else e.orelse, env)

    def eval_UnaryOp(self, e, env):
        v = self.eval(e.operand, env)
        if isinstance(e.op, ast.Not):
            if isinstance(v, Term):
                return Op("not", (v,))
            return not v
        if isinstance(e.op, ast.USub):
            return mk("neg", v) if isinstance(v, Term) else -v
        if isinstance(e.op, ast.UAdd):
            return v
        if isinstance(e.op, ast.Invert):
            return Op("not", (v,)) if isinstance(v, Term) else ~v
        raise Unsupported("unary " + type(e.op).__name__)

    BIN = {ast.Add: "add", ast.Sub: "sub", ast.Mult: "mul", ast.Div: "div", ast.Pow: "pow", ast.FloorDiv: "floordiv",
           ast.Mod: "mod", ast.MatMult: "matmul", ast.BitAnd: "and", ast.BitOr: "or"}

    def binop(self, op, a, b):
        name = self.BIN[type(op)]
        if isinstance(a, Term) or isinstance(b, Term):
            return Op(name, (a, b))
        if isinstance(a, str) or isinstance(b, str):
            return "<str>"
        if isinstance(a, (tuple, list)) and name == "add":
            return type(a)(list(a) + list(b))
        if isinstance(a, (tuple, list)) and name == "mul":
            return type(a)(list(a) * b)
        if name == "div" and isinstance(a, int) and isinstance(b, int) and b != 0:
            return Fraction(a, b)
        import operator
        f = {"add": operator.add, "sub": operator.sub, "mul": operator.mul, "div": operator.truediv, "pow": operator.pow,
             "floordiv": operator.floordiv, "mod": operator.mod}[name]
        return f(a, b)

    def eval_BinOp(self, e, env):
        return self.binop(e.op, self.eval(e.left, env), self.eval(e.right, env))

    def eval_BoolOp(self, e, env):
        is_and = isinstance(e.op, ast.And)
        sym = []
        for k_, x in enumerate(e.values):
            v = self.eval(x, env)
            if isinstance(v, Term):
                if not sym and k_ + 1 < len(e.values) and isinstance(v, Sym) and ("float" in v.tags or "int" in v.tags or "optional" in v.tags):
                    # value selection (`x or default`, `x and f(x)`): the truthiness of a number / optional value picks the operand
                    t_ = self.truth(v if "optional" not in v.tags else Op("not", (Op("is_none", (v,)),)), e, env)
                    if t_ != is_and:
                        return v
                    continue
                sym.append(v)
                continue
            if is_and and not v:
                return v
            if not is_and and v:
                return v
            last = v
        if sym:
            return sym[0] if len(sym) == 1 else Op("and" if is_and else "or", tuple(sym))
        return last

    CMP = {ast.Lt: "lt", ast.LtE: "le", ast.Gt: "gt", ast.GtE: "ge", ast.Eq: "eq", ast.NotEq: "ne"}

    def eval_Compare(self, e, env):
        left = self.eval(e.left, env)
        out = None
        for op, r in zip(e.ops, e.comparators):
            right = self.eval(r, env)
            res = self.compare(op, left, right)
            out = res if out is None else (Op("and", (out, res)) if isinstance(out, Term) or isinstance(res, Term) else (out and res))
            left = right
        return out

    def compare(self, op, a, b):
        if isinstance(op, (ast.Is, ast.IsNot)):
            other = b if a is None else a if b is None else None
            if other is not None and may_be_none(other):
                t = Op("is_none", (other,))
                return t if isinstance(op, ast.Is) else Op("not", (t,))
            if a is None or b is None:
                r = a is b
            elif isinstance(a, Term) or isinstance(b, Term):
                r = a == b if (isinstance(a, Term) and isinstance(b, Term)) else False
            else:
                r = a is b
            return r if isinstance(op, ast.Is) else not r
        if isinstance(op, (ast.In, ast.NotIn)):
            if isinstance(b, (dict, list, tuple, set, str)) and not isinstance(a, Term):
                def plain(x_):
                    return isinstance(x_, (str, int, float, bool, type(None))) or (isinstance(x_, tuple) and all(plain(y_) for y_ in x_))
                if isinstance(b, dict) and not plain(a):
                    r = any(a is k for k in b)  # objects are keyed by identity
                else:
                    r = a in b
                return r if isinstance(op, ast.In) else not r
            if isinstance(b, Obj) and b.cls == "dictview":
                r = a in b.attrs["keys"]
                return r if isinstance(op, ast.In) else not r
            return Op("in" if isinstance(op, ast.In) else "notin", (a, b))
        name = self.CMP[type(op)]
        if isinstance(a, Term) or isinstance(b, Term):
            return Op(name, (a, b))
        if isinstance(a, (Obj, ClassRef)) or isinstance(b, (Obj, ClassRef)):
            r = a is b
            return r if name == "eq" else (not r if name == "ne" else Op(name, (Sym(repr(a)), Sym(repr(b)))))
        import operator
        return getattr(operator, name)(a, b)

    def eval_index(self, s, env):
        if isinstance(s, ast.Tuple):
            return tuple(self.eval_index(x, env) for x in s.elts)
        if isinstance(s, ast.Slice):
            return slice(*(self.eval(x, env) if x is not None else None for x in (s.lower, s.upper, s.step)))
        return self.eval(s, env)

    def eval_Subscript(self, e, env):
        base = self.eval(e.value, env)
        idx = self.eval_index(e.slice, env)
        if isinstance(base, Obj) and "namedtuple" in base.tags and (isinstance(idx, (int, slice)) and not isinstance(idx, bool)):
            base = tuple(self.nt_values(base))
        if isinstance(base, (list, tuple)) and not hasattr(base, "_fields") and isinstance(idx, int) and not isinstance(idx, bool) and not (-len(base) <= idx < len(base)):
            raise PathRaises(f"IndexError: index {idx} of a sequence of {len(base)}", e)
        if isinstance(base, (list, tuple)) and isinstance(idx, int) and base and isinstance(base[idx], Op) and base[idx].op == "forall":
            elem, desc, body = base[idx].args
            if desc[0] == "range" and idx == -1:
                stop = desc[-1] if len(desc) <= 3 else desc[2]
                return subst(body, {elem: mk("sub", stop, 1)})
            if desc[0] == "range" and idx == 0:
                start = 0 if len(desc) == 2 else desc[1]
                return subst(body, {elem: start})
            return Op("elem", (body, elem, idx))
        if isinstance(base, (list, tuple)):
            if isinstance(idx, (int, slice)) and not (isinstance(idx, slice) and any(isinstance(x, Term) for x in (idx.start, idx.stop, idx.step))):
                return base[idx]
            return Op("getitem", (tuple(base), idx))
        if isinstance(base, dict):
            if isinstance(idx, Term):
                return Op("getitem", (Sym("dict"), idx))
            try:
                missing = idx not in base
            except TypeError:
                missing = True
            if missing:
                if isinstance(idx, (str, int, bool, float)) or idx is None:
                    raise PathRaises(f"KeyError: {idx!r}", e)
                return Op("getitem", (Sym("dict"), idx))
            return base[idx]
        if isinstance(base, Term):
            return Op("index", (base, idx))
        if isinstance(base, ExtRef):  # typing generics etc.
            return base
        if isinstance(base, (SymList, MapList)):
            if isinstance(base, MapList):
                return Op("elem", (base.body, base.elem, idx))
            return Op("elem", (base.elem, base.elem, idx)) if not isinstance(base.elem, Obj) else base.elem
        if isinstance(base, Obj) and base.cls.startswith("namedtuple:"):
            return list(base.attrs.values())[idx]
        raise Unsupported(f"subscript of {base!r}")

    def eval_Attribute(self, e, env):
        o = self.eval(e.value, env)
        return self.getattr_value(o, e.attr, e)

    def getattr_value(self, o, attr, node=None, call=False):
        if isinstance(o, Obj) and o.cls == "inspect.Signature" and attr in ("bind", "bind_partial"):
            return Partial("sig_bind", o)
        if isinstance(o, Obj) and o.cls == "inspect.BoundArguments" and attr == "arguments":
            return o.attrs["arguments"]
        if isinstance(o, (BoundMethod, FuncInfo)) and attr in ("cache_clear", "__wrapped__", "__name__"):
            fi_ = o.fi if isinstance(o, BoundMethod) else o
            if attr == "__name__":
                return fi_.node.name
            if attr == "cache_clear" and ("lru_cache" in fi_.decorators or "cache" in fi_.decorators):
                return Partial("memo_clear", fi_.qualname)
            raise Unsupported(f"{attr} of {fi_.qualname}")
        if isinstance(o, Obj):
            return self.getattr_obj(o, attr, node)
        if isinstance(o, Term):
            if attr in TENSOR_ATTRS or not call:
                return Op("attr_" + attr, (o,))
            return ("tensor_method", o, attr)
        if isinstance(o, ExtRef):
            q = o.name + "." + attr
            if q in ("math.pi", "math.e", "math.inf"):
                return getattr(math, attr)
            if o.name in self.prog.modules:
                r = self.prog.resolve_name(o.name, attr)
                if r:
                    return self.ref(r)
            return ExtRef(q)
        if isinstance(o, ClassRef):
            fi = self.prog.lookup_method(o.qualname, attr) if o.qualname in self.prog.classes else None
            if fi is not None:
                if fi.is_classmethod:
                    return BoundMethod(o, fi)
                return fi
            ci, val = self.prog.lookup_class_attr(o.qualname, attr) if o.qualname in self.prog.classes else (None, None)
            if val is not None:
                return self.eval(val, {"__module__": ci.module, "__parent__": None, "__cls__": ci.qualname})
            if attr == "__name__":
                return o.qualname.rsplit(".", 1)[-1]
            return ExtRef(o.qualname + "." + attr)
        if isinstance(o, SuperRef):
            fi = self.prog.lookup_method(o.obj.cls if isinstance(o.obj, Obj) else o.obj.qualname, attr, after=o.after_cls)
            if fi is None:
                if attr == "__setattr__" and isinstance(o.obj, Obj):
                    return ("object_setattr_method", o.obj, attr)
                return ExtRef("super." + attr)
            return BoundMethod(o.obj, fi)
        if isinstance(o, dict):
            return ("dict_method", o, attr)
        if isinstance(o, list):
            return ("list_method", o, attr)
        if isinstance(o, (SymList, MapList)):
            return ("symlist_method", o, attr)
        if isinstance(o, (Closure, FuncInfo, BoundMethod)):
            if attr == "__name__":
                return "<name>"
            return ExtRef("func." + attr)
        if isinstance(o, str):
            return ("str_method", o, attr)
        if isinstance(o, tuple) and hasattr(o, "_fields"):
            return getattr(o, attr)
        if o is None:
            raise PathRaises("AttributeError: None." + attr, node)
        raise Unsupported(f"getattr {attr} of {type(o).__name__}")

    def getattr_obj(self, o, attr, node):
        if "namedtuple" in o.tags and attr in ("_asdict", "_replace", "_fields", "count", "index") and attr not in o.attrs:
            if attr == "_fields":
                return tuple(o.attrs.get("__fields__", []))
            return ("namedtuple_method", o, attr)
        if attr == "_buffers" and "_buffers" not in o.attrs and any(k.startswith("__buf_") for k in o.attrs):
            return {k[6:]: v for k, v in o.attrs.items() if k.startswith("__buf_")}
        if attr in o.attrs:
            return o.attrs[attr]
        if attr == "underlier" and not self.faithful_registry and o.cls in self.prog.classes and any(
                c in ("pfhedge.instruments.derivative.base.BaseDerivative", "pfhedge.instruments.derivative.base.OptionMixin")
                for c in self.prog.mro(o.cls)):
            return i_ul(self, o, [0], {})
        if attr == "__class__":
            return ClassRef(o.cls)
        if attr == "__dict__":
            return o.attrs
        if o.cls in self.prog.classes:
            fi = self.prog.lookup_method(o.cls, attr)
            if fi is not None:
                if fi.is_property:
                    self.ev("call", callee=fi.qualname, recv=o, args=[], kwargs={}, node=node, prop=True)
                    v_ = self.call_function(fi, [], {}, self_obj=o)
                    if fi.is_cached_property:
                        # functools.cached_property: the first value is stored in the instance dict and answers every later read
                        o.attrs[attr] = v_
                        self.ev("obj_setattr", obj=o, attr=attr, value=v_, node=node)
                    return v_
                if fi.is_staticmethod:
                    return fi
                return BoundMethod(o, fi)
            ci, val = self.prog.lookup_class_attr(o.cls, attr)
            if val is not None:
                return self.eval(val, {"__module__": ci.module, "__parent__": None, "__cls__": ci.qualname})
            if self.faithful_registry:
                ga = self.prog.lookup_method(o.cls, "__getattr__")
                if ga is not None and ga.qualname not in self.intrinsics:
                    self.ev("call", callee=ga.qualname, recv=o, args=[attr], kwargs={}, node=node, prop=True)
                    return self.call_function(ga, [attr], {}, self_obj=o)
            ci, ann = self.prog.lookup_annotation(o.cls, attr)
            if ann is not None:
                return self.materialize(o, attr, ann, ci.module)
            if attr in self.prog.instance_attrs(o.cls):
                v = Sym(f"{o.name}.{attr}", ("optional",) if attr in self.prog.memo_attrs(o.cls) else ())
                o.attrs[attr] = v
                return v
            ga = self.prog.lookup_method(o.cls, "__getattr__")
            if ga is not None and "declared" not in o.tags:
                self.ev("call", callee=ga.qualname, recv=o, args=[attr], kwargs={}, node=node, prop=True)
                return self.call_function(ga, [attr], {}, self_obj=o)
            ci, ann = self.prog.lookup_annotation(o.cls, attr)
            if ann is not None:
                return self.materialize(o, attr, ann, ci.module)
        elif o.cls.startswith("namedtuple:") or o.cls in ("inspect.Signature",):
            pass
        if o.cls.startswith("torch.distributions") or o.cls.startswith("torch.quasirandom"):
            return ("dist_method", o, attr)
        if attr in MODULE_METHODS and self.is_torch_module(o):
            return ("module_method", o, attr)
        # lazily materialise an unknown attribute
        v = Sym(f"{o.name}.{attr}")
        o.attrs[attr] = v
        return v

    def is_torch_module(self, o):
        return o.cls in self.prog.classes and any(m.endswith("nn.Module") or m.endswith("module.Module") for m in self.prog.mro(o.cls))

    def materialize(self, o, attr, ann, module):
        s = ast.unparse(ann)
        opt = False
        if s.startswith("Optional["):
            s = s[len("Optional["):-1]
            opt = attr.startswith("_")  # a private Optional attribute is typically a memo: `is None` on it is a live decision (hit / miss)
        q = self.prog.resolve_name(module, s.strip("'\""))
        if q in self.prog.classes:
            v = Obj(q, f"{o.name}.{attr}")
        else:
            tags = ("tensor",) if s == "Tensor" else ("float",) if s == "float" else ()
            v = Sym(f"{o.name}.{attr}", tags + (("optional",) if opt else ()))
        o.attrs[attr] = v
        return v

    def eval_Call(self, e, env):
        # super()
        if isinstance(e.func, ast.Name) and e.func.id == "super":
            self_obj = env.get("__self__")
            e2 = env
            while self_obj is None and e2.get("__parent__") is not None:
                e2 = e2["__parent__"]
                self_obj = e2.get("__self__")
            cls_ctx = env.get("__cls__")
            if e.args:
                c = self.eval(e.args[0], env)
                cls_ctx = c.qualname if isinstance(c, ClassRef) else (c.name if isinstance(c, ExtRef) else cls_ctx)
            return SuperRef(self_obj, cls_ctx)
        if (isinstance(e.func, ast.Name) and e.func.id == "next" and e.args and isinstance(e.args[0], ast.GeneratorExp) and not e.keywords
                and len(e.args[0].generators) == 1 and isinstance(self.lookup("next", env), ExtRef)):
            # next(<elt> for t in <concrete sequence> if <cond>): the generator is consumed lazily, so the conditions after the first
            # hit are never evaluated (no decision is recorded for them)
            ge, g = e.args[0], e.args[0].generators[0]
            it = self.strip_iter(self.eval(g.iter, env))
            if isinstance(it, Obj) and it.cls == "generator" and len(e.args) == 1:
                # next(<elt> for t in <generator> if <cond>): the loop `for t in gen: if cond: break` (else: StopIteration), then <elt> for the
                # element it stopped at
                sub = {"__module__": env["__module__"], "__parent__": env, "__cls__": env.get("__cls__"), "__self__": env.get("__self__"), "next_iter_": it}
                test = g.ifs[0] if len(g.ifs) == 1 else (ast.BoolOp(op=ast.And(), values=list(g.ifs)) if g.ifs else ast.Constant(value=True))
                loop = ast.For(target=g.target, iter=ast.Name(id="next_iter_", ctx=ast.Load()), body=[ast.If(test=test, body=[ast.Break()], orelse=[])],
                               orelse=[ast.Raise(exc=ast.Call(func=ast.Name(id="StopIteration", ctx=ast.Load()), args=[], keywords=[]), cause=None)])
                ast.copy_location(loop, e)
                ast.fix_missing_locations(loop)
                self.exec_stmt(loop, sub)
                return self.eval(ge.elt, sub)
            if isinstance(it, (list, tuple, range, dict)):
                sub = {"__module__": env["__module__"], "__parent__": env, "__cls__": env.get("__cls__"), "__self__": env.get("__self__")}
                for x in it:
                    self.assign(g.target, x, sub, e)
                    if all(self.truth(self.eval(c, sub), e, sub) for c in g.ifs):
                        return self.eval(ge.elt, sub)
                if len(e.args) > 1:
                    return self.eval(e.args[1], env)
                raise PathRaises("StopIteration", e)
        args = []
        for a in e.args:
            if isinstance(a, ast.Starred):
                v = self.eval(a.value, env)
                if isinstance(v, (list, tuple)):
                    args.extend(v)
                else:
                    args.append(Op("star", (v,)))
            else:
                args.append(self.eval(a, env))
        kwargs = {}
        for k in e.keywords:
            v = self.eval(k.value, env)
            if k.arg is None:
                if isinstance(v, dict):
                    kwargs.update(v)
                else:
                    kwargs["**"] = v
            else:
                kwargs[k.arg] = v
        if isinstance(e.func, ast.Attribute):
            f = self.getattr_value(self.eval(e.func.value, env), e.func.attr, e.func, call=True)
        else:
            f = self.eval(e.func, env)
        if isinstance(f, tuple) and f and isinstance(f[0], str) and f[0].endswith("_method"):
            return self.call_builtin_method(f, args, kwargs, e, env)
        if isinstance(f, ExtRef) and f.name.startswith("builtins."):
            return self.call_builtin(f.name[9:], args, kwargs, e, env)
        if any(isinstance(a_, Op) and a_.op == "star" for a_ in args) and isinstance(f, (FuncInfo, BoundMethod)):
            # f(*t) with a symbolic sequence t (rand.unbind(dim=1)): it fills the positional parameters that are still open
            fi_ = f.fi if isinstance(f, BoundMethod) else f
            if fi_.node.args.vararg is None:
                names_ = [a_.arg for a_ in fi_.node.args.args][(1 if isinstance(f, BoundMethod) and not fi_.is_staticmethod else 0):]
                need = len([n_ for n_ in names_[:len(names_) - len(fi_.node.args.defaults)] if n_ not in kwargs]) - len([a_ for a_ in args if not (isinstance(a_, Op) and a_.op == "star")])
                stars = [a_ for a_ in args if isinstance(a_, Op) and a_.op == "star"]
                if len(stars) == 1 and need >= 0:
                    out_ = []
                    for a_ in args:
                        if isinstance(a_, Op) and a_.op == "star":
                            out_.extend(Op("getitem", (a_.args[0], k_)) for k_ in range(need))
                        else:
                            out_.append(a_)
                    args = out_
        if any(isinstance(a_, Op) and a_.op == "star" for a_ in args) and isinstance(f, ClassRef) and f.qualname in self.prog.classes:
            # Record(*t, field=v) with a symbolic sequence t: the sequence fills the fields that are still open (those without a default)
            spec = self.namedtuple_fields(f.qualname) or self.dataclass_fields(f.qualname)
            stars = [a_ for a_ in args if isinstance(a_, Op) and a_.op == "star"]
            if spec is not None and len(stars) == 1:
                names_, defaults_ = spec
                need = len([n_ for n_ in names_ if n_ not in kwargs and n_ not in defaults_]) - (len(args) - 1)
                if need >= 0:
                    out_ = []
                    for a_ in args:
                        if isinstance(a_, Op) and a_.op == "star":
                            out_.extend(Op("getitem", (a_.args[0], k_)) for k_ in range(need))
                        else:
                            out_.append(a_)
                    args = out_
        return self.call_value(f, args, kwargs, e)

    # generator expressions / comprehensions
    def eval_ListComp(self, e, env):
        return self.comprehension(e, env)

    def eval_GeneratorExp(self, e, env):
        return self.comprehension(e, env)

    def eval_SetComp(self, e, env):
        v = self.comprehension(e, env)
        if not isinstance(v, list):
            raise Unsupported("set comprehension over a symbolic sequence")
        out = []
        for x in v:
            if not any(x is y or x == y for y in out):
                out.append(x)
        return out

    def eval_DictComp(self, e, env):
        """{k: v for ... in <concrete sequence> if ...}: built like the list comprehension of its (key, value) pairs"""
        pair = ast.ListComp(elt=ast.Tuple(elts=[e.key, e.value], ctx=ast.Load()), generators=e.generators)
        ast.copy_location(pair, e)
        ast.fix_missing_locations(pair)
        items = self.comprehension(pair, env)
        if not isinstance(items, list):
            raise Unsupported("dict comprehension over a symbolic sequence")
        return {k: v for k, v in items}

    def comprehension(self, e, env):
        if len(e.generators) != 1:
            # several `for` clauses: supported when every iterable is a concrete Python sequence
            base = {"__module__": env["__module__"], "__parent__": env, "__cls__": env.get("__cls__"), "__self__": env.get("__self__")}
            out = []

            def rec(k, sub):
                if k == len(e.generators):
                    out.append(self.eval(e.elt, sub))
                    return
                g_ = e.generators[k]
                it_ = self.strip_iter(self.eval(g_.iter, sub))
                if not isinstance(it_, (list, tuple, range, dict)):
                    raise Unsupported("nested comprehension over a symbolic sequence")
                for x_ in it_:
                    sub2 = dict(sub)
                    self.assign(g_.target, x_, sub2, e)
                    if all(self.truth(self.eval(c, sub2), e, sub2) for c in g_.ifs):
                        rec(k + 1, sub2)
            rec(0, base)
            return out
        g = e.generators[0]
        it = self.strip_iter(self.eval(g.iter, env))
        sub = {"__module__": env["__module__"], "__parent__": env, "__cls__": env.get("__cls__"), "__self__": env.get("__self__")}
        if isinstance(it, (list, tuple, range, dict)):
            out = []
            for x in it:
                self.assign(g.target, x, sub, e)
                if all(self.truth(self.eval(c, sub), e, sub) for c in g.ifs):
                    out.append(self.eval(e.elt, sub))
            return out
        if isinstance(it, Obj) and it.cls == "generator":
            if not isinstance(e, ast.ListComp):
                raise Unsupported("a generator object consumed by a generator expression / set / dict comprehension")
            # [elt for t in gen if c]: the loop that steps the generator
            sub["__comp_out__"] = []
            sub["comp_iter_"] = it
            app = ast.Expr(value=ast.Call(func=ast.Attribute(value=ast.Name(id="__comp_out__", ctx=ast.Load()), attr="append", ctx=ast.Load()), args=[e.elt], keywords=[]))
            inner = [app]
            for c_ in reversed(g.ifs):
                inner = [ast.If(test=c_, body=inner, orelse=[])]
            loop = ast.For(target=g.target, iter=ast.Name(id="comp_iter_", ctx=ast.Load()), orelse=[], body=inner)
            ast.copy_location(loop, e)
            ast.fix_missing_locations(loop)
            self.exec_stmt(loop, sub)
            return sub["__comp_out__"]
        if isinstance(it, Op) and it.op == "range" and isinstance(e, ast.ListComp) and not g.ifs:
            # a list comprehension over a range of unknown length is the loop `out = []; for t in range(..): out.append(elt)`: run it through
            # the loop machinery, so that state carried from one element to the next (a forward hook storing the previous output) is carried
            sub["__comp_out__"] = []
            loop = ast.For(target=g.target, iter=g.iter, orelse=[], body=[ast.Expr(value=ast.Call(
                func=ast.Attribute(value=ast.Name(id="__comp_out__", ctx=ast.Load()), attr="append", ctx=ast.Load()), args=[e.elt], keywords=[]))])
            ast.copy_location(loop, e)
            ast.fix_missing_locations(loop)
            self.exec_stmt(loop, sub)
            return sub["__comp_out__"]
        if isinstance(it, SymList):
            elem = it.elem
        elif isinstance(it, MapList):
            elem = it.body
        elif isinstance(it, Op) and it.op == "range":
            elem = self.fresh("k", ("int", "loopvar"))
        else:
            elem = self.fresh("elem")
        self.assign(g.target, elem, sub, e)
        if g.ifs:
            raise Unsupported("filtered symbolic comprehension")
        body = self.eval(e.elt, sub)
        return MapList(it, elem, body)

    # ------------------------------------------------------------------ builtins
    def call_builtin(self, name, args, kwargs, node, env):
        a = args
        if name == "len":
            if isinstance(a[0], (list, tuple, dict, str)):
                return len(a[0])
            if isinstance(a[0], SymList) and a[0].length is not None:
                return a[0].length
            if isinstance(a[0], MapList):
                return self.call_builtin("len", [a[0].src], {}, node, env)
            return Op("len", (Sym(repr(a[0])),))
        if name == "range":
            if all(isinstance(x, int) for x in a):
                return range(*a)
            return Op("range", tuple(a))
        if name in ("list", "tuple"):
            if not a:
                return [] if name == "list" else ()
            v = self.strip_iter(a[0])
            if isinstance(v, (list, tuple, dict, range)):
                return list(v) if name == "list" else tuple(v)
            if isinstance(v, Obj) and v.cls == "dictview":
                return list(v.attrs["keys"]) if name == "list" else tuple(v.attrs["keys"])
            return v
        if name == "map":
            f, seq = a[0], a[1]
            if isinstance(seq, (list, tuple)):
                out_ = []
                for x in seq:
                    if isinstance(f, ExtRef) and f.name == "torch.as_tensor" and isinstance(x, Term):
                        if isinstance(x, Sym) and "float" in x.tags:
                            self.ev("lossy_scalar", value=x, how="torch.as_tensor(<python float>) without dtype", node=node)
                        out_.append(x)
                    else:
                        out_.append(self.call_value(f, [x], {}, node))
                return out_
            if isinstance(seq, (SymList, MapList)):
                elem = seq.elem if isinstance(seq, SymList) else seq.body
                return MapList(seq, elem, self.call_value(f, [elem], {}, node))
            if isinstance(seq, Term):
                return Op("map", (Sym(repr(f)), seq))
            raise Unsupported("map over " + repr(seq))
        if name == "zip":
            if all(isinstance(x, (list, tuple)) for x in a):
                return list(zip(*a))
            conc = [len(x) for x in a if isinstance(x, (list, tuple))]
            if conc and all(isinstance(x, (list, tuple, Term)) for x in a):
                # a symbolic sequence zipped with concrete ones: as many elements as the shortest concrete operand
                n_ = min(conc)
                cols = [list(x)[:n_] if isinstance(x, (list, tuple)) else [Op("getitem", (x, k_)) for k_ in range(n_)] for x in a]
                return list(zip(*cols))
            raise Unsupported("zip symbolic")
        if name in ("any", "all"):
            v = a[0]
            if isinstance(v, (list, tuple)):
                if any(isinstance(x, Term) for x in v):
                    return Op(name, (tuple(v),))
                return (any if name == "any" else all)(v)
            return Op(name, (Sym(repr(v)) if not isinstance(v, Term) else v,))
        if name == "isinstance":
            return self.isinstance_(a[0], a[1])
        if name == "issubclass":
            return Op("issubclass", (Sym(repr(a[0])), Sym(repr(a[1]))))
        if name == "callable":
            o = a[0]
            if isinstance(o, (FuncInfo, Closure, BoundMethod, ClassRef, ExtRef)):
                return True
            if isinstance(o, Obj):
                return bool(self.prog.lookup_method(o.cls, "forward") or self.prog.lookup_method(o.cls, "__call__")) if o.cls in self.prog.classes else True
            if isinstance(o, Sym) and "callable" in o.tags:
                return True
            if o is None or isinstance(o, (int, float, str, tuple, list, dict)):
                return False
            return Op("callable", (o,))
        if name == "hasattr":
            o, attr = a
            if isinstance(o, Obj):
                if attr in o.attrs:
                    return True
                if self.faithful_registry and o.cls in self.prog.classes and isinstance(attr, str):
                    # hasattr() is getattr() without the AttributeError: a property or __getattr__ that raises it answers False
                    fi_ = self.prog.lookup_method(o.cls, attr)
                    ga_ = self.prog.lookup_method(o.cls, "__getattr__")
                    probe = fi_ if (fi_ is not None and fi_.is_property) else (ga_ if fi_ is None and self.prog.lookup_class_attr(o.cls, attr)[1] is None and ga_ is not None and ga_.qualname not in self.intrinsics else None)
                    if probe is not None:
                        n_ev = len(self.events)
                        try:
                            self.call_function(probe, [] if probe is fi_ else [attr], {}, self_obj=o)
                            return True
                        except PathRaises as ex_:
                            del self.events[n_ev:]
                            if "AttributeError" in str(ex_.exc):
                                return False
                            raise
                if o.cls in self.prog.classes and (self.prog.lookup_method(o.cls, attr) or self.prog.lookup_class_attr(o.cls, attr)[1] is not None):
                    return True
                if "declared" in o.tags or "constructing" in o.tags:
                    return False
                return Op("hasattr", (Sym(o.name), attr))
            if isinstance(o, ClassRef):
                return Op("hasattr", (Sym(o.qualname), attr))
            return Op("hasattr", (Sym(repr(o)), attr))
        if name == "getattr":
            o, attr = a[0], a[1]
            try:
                return self.getattr_value(o, attr, node)
            except (Unsupported, PathRaises):
                if len(a) > 2:
                    return a[2]
                raise
        if name == "setattr":
            o, attr, v = a
            if isinstance(o, Obj):
                self.setattr_obj(o, attr, v, node)
            else:
                self.ev("setattr", target=o, attr=attr, value=v, node=node)
            return None
        if name in ("int", "float"):
            if is_num(a[0]):
                return int(a[0]) if name == "int" else float(a[0])
            return Op("py_" + name, tuple(a))
        if name == "object":
            o_ = Obj("builtins.object", f"object#{self.fresh_id}")
            self.fresh_id += 1
            return o_
        if name in ("staticmethod", "classmethod") and len(a) == 1:
            return a[0]  # a wrapped function stored as a class attribute: looked up through an instance it is the function itself
        if name == "bool":
            if not a:
                return False
            return self.truth(a[0], node, env)
        if name in ("str", "repr"):
            return "<str>"
        if name in ("abs", "min", "max", "sum", "round") and all(is_num(x) for x in a):
            return {"abs": abs, "min": min, "max": max, "sum": sum, "round": round}[name](*a)
        if name == "round" and isinstance(a[0], Term):
            return Op("py_round", tuple(a), kwargs)
        if name in ("sum", "min", "max") and len(a) >= 1:
            v = a[0] if len(a) == 1 or name == "sum" else list(a)
            if isinstance(v, (list, tuple)) and v:
                if name == "sum":
                    acc = a[1] if len(a) > 1 else 0
                    for x in v:
                        acc = mk("add", acc, x)
                    return acc
                return Op("py_" + name, (tuple(v),))
            if isinstance(v, MapList):
                return Op("py_" + name, (Op("forall", (v.elem, Sym(repr(v.src)), v.body)),))
            if isinstance(v, Term):
                return Op("py_" + name, (v,))
        if name in ("sorted", "reversed"):
            self.ev("reorder", how=name, target=a[0], node=node)
            return Op(name, (Sym(repr(a[0])),)) if not isinstance(a[0], (list, tuple)) else (sorted(a[0]) if name == "sorted" else list(reversed(a[0])))
        if name == "print":
            return None
        if name in ("KeyError", "TypeError", "ValueError", "AttributeError", "RuntimeError", "IndexError", "NotImplementedError", "AssertionError", "StopIteration", "Exception", "DeprecationWarning"):
            return Obj("builtins." + name, "exc", {"args": tuple(a)}, {"exception"})   # an exception object as a value (raised later, or yielded)
        if name == "iter":
            return a[0]
        if name == "next" and isinstance(a[0], Obj) and a[0].cls == "generator" and len(a) == 1:
            return self.generator_next(a[0], node)
        if name == "next" and isinstance(a[0], EagerGen) and not a[0].effects and len(a) <= 2:
            # a finite generator without effects, drained where it was created: its first element (the conditions of the later ones have
            # been decided as well, which adds paths but changes no value)
            if a[0]:
                return a[0][0]
            if len(a) == 2:
                return a[1]
            raise PathRaises("StopIteration", node)
        if name == "next":
            raise Unsupported("next() on anything but a generator expression over a concrete sequence")
        if name == "dict":
            return dict(*a, **kwargs)
        if name == "id":
            return Op("py_id", (a[0] if isinstance(a[0], Term) else Sym(repr(a[0])),))
        if name == "type":
            o = a[0]
            return ClassRef(o.cls) if isinstance(o, Obj) else ExtRef("type")
        raise Unsupported("builtin " + name)

    def isinstance_(self, v, c):
        cs = c if isinstance(c, tuple) else (c,)
        res = []
        for k in cs:
            kn = k.qualname if isinstance(k, ClassRef) else k.name if isinstance(k, ExtRef) else str(k)
            kn_short = kn.rsplit(".", 1)[-1]
            if isinstance(v, Obj):
                if v.cls in self.prog.classes:
                    mro = self.prog.mro(v.cls)
                    res.append(kn in mro or any(m.rsplit(".", 1)[-1] == kn_short for m in mro))
                else:
                    res.append(v.cls.rsplit(".", 1)[-1] == kn_short)
            elif isinstance(v, Sym) and ({"int", "float", "str"} & v.tags):
                res.append(kn_short in v.tags or (kn_short == "Real" and {"int", "float"} & v.tags))
            elif isinstance(v, Term):
                res.append(kn_short in ("Tensor",))
            elif v is None:
                res.append(False)
            elif isinstance(v, bool):
                res.append(kn_short in ("bool", "int"))
            elif isinstance(v, int):
                res.append(kn_short in ("int", "Real"))
            elif isinstance(v, (float, Fraction)):
                res.append(kn_short in ("float", "Real"))
            elif isinstance(v, str):
                res.append(kn_short in ("str", "bytes") and kn_short == "str")
            elif isinstance(v, (tuple, list, dict)):
                res.append(kn_short == type(v).__name__)
            else:
                res.append(False)
        return any(res)

    def call_builtin_method(self, f, args, kwargs, node, env):
        kind, recv, attr = f
        if kind == "tensor_method":
            return self.tensor_method(recv, attr, args, kwargs, node)
        if kind == "namedtuple_method":
            fields_ = recv.attrs.get("__fields__", [])
            if attr == "_asdict":
                return {f_: recv.attrs[f_] for f_ in fields_}
            if attr == "_replace":
                c_ = Obj(recv.cls, recv.name + "'", dict(recv.attrs), set(recv.tags))
                for k_, v_ in kwargs.items():
                    if k_ not in fields_:
                        raise PathRaises(f"ValueError: unexpected field {k_}", node)
                    c_.attrs[k_] = v_
                return c_
            raise Unsupported("namedtuple." + attr)
        if kind == "object_setattr_method":
            recv.attrs[args[0]] = args[1]
            self.ev("obj_setattr", obj=recv, attr=args[0], value=args[1], node=node)
            return None
        if kind == "dict_method":
            d = recv
            if attr == "keys":
                return Obj("dictview", "keys", {"keys": list(d.keys())})
            if attr == "items":
                return list(d.items())
            if attr == "values":
                return list(d.values())
            if attr == "get":
                return d.get(args[0], args[1] if len(args) > 1 else None)
            if attr == "pop":
                return d.pop(*args)
            if attr == "update":
                new_ = dict(*args, **kwargs)
                d.update(new_)
                for k_, v_ in new_.items():
                    self.ev("dict_store", target=d, key=k_, value=v_, node=node, owner=ast.unparse(node.func.value) if isinstance(getattr(node, "func", None), ast.Attribute) else "dict")
                return None
            if attr == "setdefault":
                k_ = args[0]
                if k_ not in d:
                    d[k_] = args[1] if len(args) > 1 else None
                    self.ev("dict_store", target=d, key=k_, value=d[k_], node=node, owner=ast.unparse(node.func.value) if isinstance(getattr(node, "func", None), ast.Attribute) else "dict")
                return d[k_]
            if attr == "clear":
                d.clear()
                return None
            if attr == "copy":
                return dict(d)
            raise Unsupported("dict." + attr)
        if kind == "list_method":
            if attr == "append":
                v = args[0]
                if self.loop_stack:
                    lc = self.loop_stack[-1]
                    v = Op("forall", (lc["elem"], lc["desc"], v))
                    args = [v]
                recv.append(v)
                self.ev("list_append", target=recv, value=args[0], node=node, owner=ast.unparse(node.func.value))
                return None
            if attr == "extend":
                recv.extend(args[0])
                return None
            raise Unsupported("list." + attr)
        if kind == "str_method":
            return "<str>"
        if kind == "module_method":
            return self.module_method(recv, attr, args, kwargs, node)
        if kind == "dist_method":
            d = Op("dist", (recv.cls.rsplit(".", 1)[-1],) + tuple(recv.attrs["args"]), recv.attrs["kwargs"])
            return Op(attr, (d,) + tuple(args), kwargs)
        if kind == "symlist_method":
            raise Unsupported("symlist." + attr)
        raise Unsupported(kind)

    def module_method(self, o, attr, args, kwargs, node):
        self.ev("module_method", recv=o, method=attr, args=args, kwargs=dict(kwargs), node=node)
        if attr == "register_buffer":
            name, tensor = args[0], args[1]
            self.ev("register_buffer", obj=o, name=name, tensor=tensor, node=node)
            o.attrs["__buf_" + name] = tensor
            return None
        if attr == "get_buffer":
            return o.attrs.get("__buf_" + args[0], Sym(f"{o.name}.{args[0]}", ("tensor", "buffer")))
        if attr == "register_forward_hook":
            o.attrs.setdefault("__forward_hooks__", []).append(args[0])
            return None
        if attr in ("train", "eval", "to", "float", "double", "half", "cpu", "cuda", "requires_grad_", "zero_grad"):
            return o
        if attr == "parameters":
            return Op("parameters", (Sym(o.name),))
        if attr == "add_module":
            o.attrs[args[0]] = args[1]
            return None
        return Op("module_" + attr, (Sym(o.name),) + tuple(args), kwargs)

    def tensor_method(self, recv, attr, args, kwargs, node):
        self.ev("method_call", recv=recv, method=attr, args=args, kwargs=dict(kwargs), node=node)
        if attr == "size" and isinstance(recv, Sym) and recv.name in self.shapes:
            shp = self.shapes[recv.name]
            if args and isinstance(args[0], int):
                return shp[args[0]]
            if not args:
                return tuple(shp)
        if attr == "size" and args and isinstance(args[0], int) and isinstance(recv, Op) and recv.op == "index" and isinstance(recv.args[0], Sym) and recv.args[0].name in self.shapes:
            # x[..., a:b].size(-1) for a symbol of known shape and a concrete slice of the last axis
            shp = self.shapes[recv.args[0].name]
            idx = recv.args[1] if isinstance(recv.args[1], tuple) else (recv.args[1],)
            if len(idx) >= 2 and idx[0] is Ellipsis and isinstance(idx[-1], slice) and args[0] in (-1, len(shp) - 1) and isinstance(shp[-1], int):
                return len(range(*idx[-1].indices(shp[-1])))
        if attr.endswith("_") and not attr.startswith("__"):
            self.ev("inplace", how="method:" + attr, target=recv, args=args, node=node)
        if attr == "item":
            self.ev("item", target=recv, node=node)
        if attr == "backward":
            self.ev("backward", target=recv, node=node)
            return None
        if attr == "where":  # x.where(c, y) == torch.where(c, x, y)
            return Op("where", (args[0], recv) + tuple(args[1:]), kwargs)
        return Op(attr, (recv,) + tuple(args), kwargs)


MODULE_METHODS = {"register_buffer", "get_buffer", "register_forward_hook", "train", "eval", "to", "parameters", "add_module",
                  "named_parameters", "zero_grad", "state_dict", "load_state_dict", "buffers", "named_buffers", "modules",
                  "float", "double", "half", "cpu", "cuda", "apply", "requires_grad_"}

OPERATOR_FUNCS = {"add": (("bin", "add"), 2), "sub": (("bin", "sub"), 2), "mul": (("bin", "mul"), 2), "truediv": (("bin", "div"), 2), "pow": (("bin", "pow"), 2),
                  "floordiv": (("bin", "floordiv"), 2), "mod": (("bin", "mod"), 2), "neg": (("neg",), 1), "not_": (("not",), 1), "getitem": (("getitem",), 2),
                  "lt": (("cmp", ast.Lt), 2), "le": (("cmp", ast.LtE), 2), "gt": (("cmp", ast.Gt), 2), "ge": (("cmp", ast.GtE), 2), "eq": (("cmp", ast.Eq), 2), "ne": (("cmp", ast.NotEq), 2)}
TORCH_DTYPES = {"float16", "float32", "float64", "bfloat16", "half", "float", "double", "int8", "int16", "int32", "int64", "uint8", "long", "int", "short", "bool", "complex64", "complex128"}
BUILTINS = {"id", "callable", "staticmethod", "classmethod", "len", "range", "list", "tuple", "map", "zip", "any", "all", "isinstance", "issubclass", "hasattr", "getattr",
            "setattr", "int", "float", "str", "repr", "abs", "min", "max", "sum", "round", "sorted", "reversed", "print",
            "iter", "dict", "type", "super", "ValueError", "TypeError", "RuntimeError", "KeyError", "AttributeError",
            "DeprecationWarning", "bytes", "bool", "object", "NotImplementedError", "AssertionError", "next", "StopIteration", "IndexError", "Exception"}


# ---------------------------------------------------------------------- plumbing summaries
def _buffer(interp, obj, name):
    key = "__buf_" + name
    if key not in obj.attrs:
        obj.attrs[key] = Sym(f"{obj.name}.{name}", ("tensor", "buffer"))
    return obj.attrs[key]


def i_primary_spot(interp, obj, args, kwargs):
    return _buffer(interp, obj, "spot")


def i_get_buffer(interp, obj, args, kwargs):
    name = args[0] if args else kwargs["name"]
    return _buffer(interp, obj, name)


def i_register_buffer(interp, obj, args, kwargs):
    name = args[0] if args else kwargs["name"]
    tensor = args[1] if len(args) > 1 else kwargs["tensor"]
    interp.ev("register_buffer", obj=obj, name=name, tensor=tensor)
    if isinstance(name, str):
        obj.attrs["__buf_" + name] = tensor
    return None


def i_underliers(interp, obj, args, kwargs):
    ul = obj.attrs.get("__underliers__")
    if ul is None:
        u = obj.attrs.get("underlier")
        if not isinstance(u, Obj):
            u = Obj("pfhedge.instruments.primary.base.BasePrimary", obj.name + ".ul")
        ul = [u]
        obj.attrs["__underliers__"] = ul
        obj.attrs["underlier"] = u
    return list(ul)


def i_ul(interp, obj, args, kwargs):
    ul = i_underliers(interp, obj, [], {})
    idx = args[0] if args else kwargs.get("index", 0)
    return ul[idx]


def i_deriv_getattr(interp, obj, args, kwargs):
    return i_ul(interp, obj, [0], {})


def i_register_underlier(interp, obj, args, kwargs):
    name = args[0] if args else kwargs["name"]
    u = args[1] if len(args) > 1 else kwargs["underlier"]
    obj.attrs.setdefault("__underliers__", []).append(u) if u not in obj.attrs.get("__underliers__", []) else None
    obj.attrs[name] = u
    return None


def i_deriv_setattr(interp, obj, args, kwargs):
    attr, v = args
    if isinstance(v, Obj) and v.cls in interp.prog.classes and "pfhedge.instruments.primary.base.BasePrimary" in interp.prog.mro(v.cls):
        i_register_underlier(interp, obj, [attr, v], {})
    return None


def i_clauses(interp, obj, args, kwargs):
    if "__clauses__" not in obj.attrs:
        obj.attrs["__clauses__"] = SymList(obj.name + ".clauses", Sym(obj.name + ".clause", ("callable",)))
    return obj.attrs["__clauses__"]


def i_module_register_buffer(interp, obj, args, kwargs):
    return i_register_buffer(interp, obj, args, kwargs)


def i_noop(interp, obj, args, kwargs):
    return None


def i_ncdf(interp, obj, args, kwargs):
    return Op("ncdf", (args[0] if args else kwargs["input"],))


def i_npdf(interp, obj, args, kwargs):
    return Op("npdf", (args[0] if args else kwargs["input"],))


DEFAULT_INTRINSICS = {
    "pfhedge.nn.functional.ncdf": i_ncdf,
    "pfhedge.nn.functional.npdf": i_npdf,
    "pfhedge.instruments.primary.base.BasePrimary.spot": i_primary_spot,
    "pfhedge.instruments.primary.base.BasePrimary.get_buffer": i_get_buffer,
    "pfhedge.instruments.primary.base.BasePrimary.__getattr__": i_get_buffer,
    "pfhedge.instruments.primary.base.BasePrimary.register_buffer": i_register_buffer,
    "pfhedge.instruments.derivative.base.BaseDerivative.underliers": i_underliers,
    "pfhedge.instruments.derivative.base.BaseDerivative.ul": i_ul,
    "pfhedge.instruments.derivative.base.BaseDerivative.__getattr__": i_deriv_getattr,
    "pfhedge.instruments.derivative.base.BaseDerivative.__setattr__": i_deriv_setattr,
    "pfhedge.instruments.derivative.base.BaseDerivative.register_underlier": i_register_underlier,
    "pfhedge.instruments.derivative.base.BaseDerivative.clauses": i_clauses,
}
