"""Precision provenance of Python-float parameters (C01.R5, C07.R7, C20.R5).

torch.as_tensor(x) / torch.tensor(x) of a Python float (or list of floats) without dtype= creates a tensor of the global DEFAULT dtype
(float32): the value is rounded to 24 bits *before* a later `.to(float64_tensor)` or float64 arithmetic can use it.  The interpreter logs
such conversions as `lossy_scalar` events; a rule lists the parameters whose exactness its property needs (cost rates, strike, clamp
bounds) and reports every event that touches one of them.  What is decided is the conversion on the way, not the size of the rounding."""


def lossy(results, names):
    out = set()
    for r in results:
        if r.get("raises"):
            continue
        for e in r["events"]:
            if e["kind"] == "lossy_scalar" and str(e["value"]) in names:
                out.add(f"{e['how']} applied to {e['value']}")
    return sorted(out)
