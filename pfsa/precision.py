"""Precision provenance of Python-float parameters (C01.R5, C07.R7, C20.R5).

torch.as_tensor(x) / torch.tensor(x) of a Python float (or list of floats) without dtype= creates a tensor of the global DEFAULT dtype
(float32): the value is rounded to 24 bits *before* a later `.to(float64_tensor)` or float64 arithmetic can use it.  The interpreter logs
such conversions as `lossy_scalar` events; a rule lists the parameters whose exactness its property needs (cost rates, strike, clamp
bounds) and reports every event that touches one of them.  What is decided is the conversion on the way, not the size of the rounding."""


from .interp import Unsupported as _Unsupported
from .report import AnalysisError as _AE, Finding as _Finding


def lossy(results, names):
    out = set()
    for r in results:
        if r.get("raises"):
            continue
        for e in r["events"]:
            if e["kind"] == "lossy_scalar" and (names is None or str(e["value"]) in names):
                out.add(f"{e['how']} applied to {e['value']}")
    return sorted(out)


def closed_form_precision_rule(ctx, run, rule, fnames, what):
    """No Python float (a parameter given as a float, or a constant such as 2*pi) is packed into a default-dtype tensor on the way into these
    closed forms: with float64 inputs such a value is rounded to float32 first and every result built on it is off by ~1e-8 relative."""
    from . import world as W
    prog = ctx.prog
    from .interp import Interp
    interp = Interp(prog, max_depth=20)
    F = "pfhedge.nn.functional."
    for k_ in ("ncdf", "npdf"):  # read the helpers' own bodies (their summaries hide the constants they are built from)
        interp.intrinsics.pop(F + k_, None)
    for fname in fnames:
        fi = prog.functions.get(F + fname)
        if fi is None:
            raise _AE(f"anchor vanished: {F + fname}")
        kw = {}
        for a_ in fi.node.args.args:
            n_ = a_.arg
            if n_ in ("input", "log_moneyness", "max_log_moneyness", "input1", "input2"):
                kw[n_] = W.tensor(n_)
            elif n_ in ("time_to_maturity", "volatility", "strike", "dt"):
                import ast as _ast
                ann = _ast.unparse(a_.annotation) if a_.annotation is not None else ""
                # probe the float form only where the signature admits a float (TensorOrScalar / float / Union[..., float])
                kw[n_] = W.fl(n_) if ("Scalar" in ann or "float" in ann) else W.tensor(n_)
            elif n_ == "call":
                kw[n_] = True
        try:
            res = [r for r in interp.explore(fi, [], kw, max_paths=60) if not r["raises"]]
        except _Unsupported as ex:
            raise _AE(f"{fname}: {ex}")
        if not res:
            raise _AE(f"{fname}: no analysable path with float parameters")
        bad = lossy(res, None)
        # ... and the arithmetic itself runs in the dtype of the tensor inputs: no operand is converted to a literal / the default dtype on
        # the way (ncdf(x.float()), as_tensor(x, dtype=torch.get_default_dtype())), no part is computed in another dtype and converted back
        from .dtypes import DATA, Provenance
        for r in res:
            pv = Provenance()
            got = pv.of(r["value"])
            if any("tensor" in getattr(v_, "tags", ()) for v_ in kw.values()) and got in ("default", "fixed"):
                why = "; ".join(sorted({w_ for _, w_ in pv.leaves})) or "no tensor input determines the dtype"
                bad.append(f"the result is computed in a {got} dtype, not in the dtype of the inputs ({why})"[:200])
            for t_, v_ in pv.narrowed:
                bad.append(f"{str(t_.args[0])[:80]} is computed in a {v_} dtype and converted afterwards")
        bad = sorted(set(bad))
        run.oblige(rule, f"{fname}: {what}", not bad, "; ".join(bad) or "no Python float is rounded to the default dtype")
        if bad:
            run.fail(_Finding(rule, fi.qualname, "; ".join(bad)[:300], "a Python float is rounded to float32 before it enters float64 arithmetic: the result loses half its digits",
                             file=str(prog.modules[fi.module].path), line=fi.node.lineno))
