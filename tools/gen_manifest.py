"""Writes MANIFEST.json from the rule modules' docstrings and the level table."""
import importlib, json, sys
sys.path.insert(0, ".")
from pfsa.cli import LEVELS
TECH = {"C01": "term identity over column algebra + argument wiring", "C02": "time-dependence (window) analysis + ordering", "C03": "sibling agreement of branches + def-use chain",
        "C04": "composition rules for curvature/monotonicity/cash covariance", "C05": "term identities + interval obligation at the bisection site", "C06": "term identities + typestate of Hedger.price",
        "C07": "PDE / terminal / boundary identities by computer algebra on extracted terms", "C08": "symbolic differentiation of the price term + units-of-measure typing + dataflow of autogreek",
        "C09": "term identities + sign analysis of Greeks", "C10": "units-of-measure typing + one-step moment identities + termination rule", "C11": "symbolic shapes + column-0 evaluation + dtype provenance",
        "C12": "column algebra against contractual definitions + wiring + clause order", "C13": "sibling agreement over simulate() + term identity of time_to_maturity", "C14": "gradient-taint over the data-dependence slice",
        "C15": "typestate over interpreted event traces of fit()", "C16": "alias/ownership of in-place targets + single-writer + purity by reachability", "C17": "inductive invariant over to/simulate/register_buffer + dtype provenance",
        "C18": "extended-real abstract evaluation at boundary cases", "C19": "loop-invariant case analysis + termination + wiring", "C20": "enumeration of orderings + option-use rule + term identities"}
NOTE = {
 "C01": "Decided for all shapes/flags over the reals: the pl() term equals the wealth identity (8 flag cases), axis bookkeeping, alias terminal_value, hedger wiring on every path, cost rates not rounded to the default dtype, list()/delist() histories. Not decided: floating-point rounding beyond the provenance of the cost rates.",
 "C02": "Decided: which time columns every built-in feature / container / the model input may read (both modes), loop range 0..T-2 and last column = copy of T-2 on every path, built-in models read their input only, the option mixin methods themselves. Assumed: user models act on the last axis, a listed derivative's pricer is adapted.",
 "C03": "Decided: step branch == column of batch branch for every feature (terms), both hedger branches hold the position of step T-2 in the last column, prev_hedge chain (hook, buffer name, reset shape/order, call through self(...)), shapes (N,H,T), both branches compute in the dtype of the data, nothing survives a re-simulation. Not decided: rounding differences beyond dtype provenance; user features.",
 "C04": "Decided by composition rules: convex / non-increasing / cash-invariant (and positively homogeneous, non-increasing in p for ES), constructor ranges, entropic risk non-decreasing in a (cumulant generating function). The quadratic CVaR certificate is conditional on C05.R6 (known finding KF2). Not decided: rounding.",
 "C05": "Decided: each functional/module equals the formula of the statement as a term (utilities, ERM through logsumexp, ES count ceil(pN), VaR guards and quantile level, QCVaR stationarity), sample count is size(dim) not numel, reductions along the requested axis for dim=0/1/None on every branch, scalar targets/levels not rounded to the default dtype, constructors. Known finding KF2 (bracket). Not decided: borderline p*N, rounding.",
 "C06": "Decided: closed-form cash overrides are certainty equivalents of their forward and subtract the target first; the default search per column (level, bracket ends by value/axis/shape, constant-sample evaluations) and its dependence on bisect; Hedger.price event order, sign, target, grad mode on every path; shift equivariance; price == loss for ERM. Known finding KF4 (constant sample). Assumed: user criteria relying on the default search are monotone.",
 "C07": "Decided over the reals: Black-Scholes PDE residual 0, terminal and barrier/regime conditions (incl. running maximum == strike), units, ncdf/npdf, module wiring and registry keys, strike not rounded to the default dtype. Lemma: Feynman-Kac uniqueness. Not decided: float32 accuracy.",
 "C08": "Decided: every closed-form Greek equals the symbolic derivative of the repo's own price term (calls and puts), units of 20 functions, which Greek each module method computes, autogreek leaf/recompute dataflow, lookback Greeks wiring. Trusted: torch.autograd.",
 "C09": "Decided: put-call parity, binary complement, barrier constant incl. max == strike, lookback continuity, signs of the European Greeks, and the ordering clauses by sign certificates (call between intrinsic and spot, one-touch between European binary and 1, lookback above European call and locked-in payoff, monotone in the running maximum). Relies on C08 for 'Greek = derivative'.",
 "C10": "Decided: units of all generators, exact solutions with caller-supplied normals, one-step conditional moments (Vasicek, CIR both branches, local vol, GBM/Merton/Kou compensators and mark laws), Heston K0..K4, rough-Bergomi covariance/increment/compensator, termination, fresh innovations, Sobol/Box-Muller plumbing. Known findings KF1 (rough-Bergomi kernel), KF5 (Sobol layout along time). Not decided: laws of torch samplers, multi-step laws beyond induction.",
 "C11": "Decided: shapes (paths, steps), column 0 = initial state (rough-Bergomi variance: proportional to it), dtype provenance of every output, positivity of exponential-type prices, volatility = sqrt(clamp(variance)), buffer registration, no uninitialised column, QE variance stays >= 0 (inductive). Not decided: finiteness at extreme parameters, half precision.",
 "C12": "Decided: each payoff functional equals its contractual definition as a term (comparators, direction of extremes, columns), class wiring, clause fold in registration order with no filtering, every call history of at most 2 (thorough 3) registry operations on every class against a reference model, shapes, rounding guard of the forward-start index.",
 "C13": "Decided: registry and re-simulation histories, initial-state forwarding, time-dependent coefficients at i*dt; all 8 simulate() pass ceil(round(h/dt, d) + 1) steps, dt, init state; BaseDerivative.simulate passes maturity to every underlier on every path; time_to_maturity == (T-1-i) dt in both branches and for negative steps with T read from the grid; rounding guards (6 <= d <= 12).",
 "C14": "Decided (necessary structural conditions): no graph-breaking construct on the slice model output -> loss for 6 criteria x 2 branches, hook stores the output itself, in-place stores only on fresh tensors, defaults of enable_grad, simulate..criterion inside the caller's grad-mode region, building-block functionals do not break the graph. Trusted: torch.autograd per operator. Not decided: agreement with finite differences.",
 "C15": "Decided: event order per epoch on every path (train, zero_grad, loss on the training configuration, backward, step; validation under eval with n_times and no grad), optimiser construction on model.parameters() after lazy initialisation, n_times evaluations each with its own simulate, no other writer of parameters reachable.",
 "C16": "Decided: every in-place site targets fresh storage (alias domain; the model is handed fresh storage), single writer of instrument buffers, purity of ~60 entry points by interpretation, features bound through .of before use, no state kept on instruments/features across calls, every call history of at most 2 (thorough 4) registry operations against a reference model, buffer-registry / re-simulation / re-configuration histories. Assumed: user callables do not mutate their arguments.",
 "C17": "Decided: inductive invariant over constructor / to (4 paths) / simulate / register_buffer, alias methods, derivative accessors, dtype provenance of 88 result terms, buffer-registry histories of every primary class. Not decided: real accelerators, half-precision arithmetic.",
 "C18": "Decided: extended-real evaluation of 9 price/delta functions at t=0 / v=0 x moneyness x running maximum (226 cases): no NaN and the certain payoff; guards reached; interior NaN-freedom incl. the Whalley-Wilmott width for negative gamma. Not decided: lookback Greeks (autograd), overflow.",
 "C19": "Decided: bisection loop invariant (midpoint, complementary updates, no extra exit except an exact hit), orientation handling and termination, bounded loop, implied-volatility wiring incl. live orientation decision, vega > 0 for European prices, derivative-bound modules invert their own price(), the inverted function is computed in the dtype of its inputs. Not decided: monotonicity of non-European prices in volatility, per-element mixed orientation.",
 "C20": "Decided: clamps by enumeration of orderings (both modes, defaults), options stored/documented vs used, Whalley-Wilmott band and width (term + units), SVI, bilerp, Box-Muller, realized volatility, float bounds not rounded to the default dtype.",
}
checks = []
for i in range(1, 21):
    pid = f"C{i:02d}"
    mod = importlib.import_module(f"pfsa.rules.{pid.lower()}")
    doc = " ".join((mod.__doc__ or "").split())
    cat = LEVELS.get(pid, "other")
    checks.append({
        "property_id": pid,
        "quick_cmd": f"./check {pid} quick",
        "thorough_cmd": f"./check {pid} thorough",
        "evidence_file": f"/verif/evidence/{pid}.json",
        "replay_cmd_template": "./check --replay {path}",
        "engine": "pfsa",
        "technique": TECH[pid],
        "level_claimed": {"category": cat, "text": "Static analysis of the current sources (ast only, nothing executed): " + doc, "design_ref": f"DESIGN.md section 3, {pid}"},
        "level_note": NOTE[pid] + " Trusted base: operator table (DESIGN.md 2.1), sympy, lemmas of Appendix B. Technique: static analysis of the current sources; nothing is executed.",
    })
manifest = {
    "version": 1,
    "setup_cmd": "/venv/bin/python -W ignore -m pfsa selfcheck",
    "hooks": {"guard": "PFHEDGE_VERIF", "enable": "none: the checks read /repo sources only, no instrumentation is compiled in",
              "baseline_off_cmd": "cd /repo && /venv/bin/python -m pytest -ra -q -p no:cacheprovider --timeout=900 --continue-on-collection-errors", "source_commits": [], "add_only": True},
    "engines": [{"name": "pfsa", "path": "/verif/pfsa", "serves_properties": [c["property_id"] for c in checks], "kind_free_text": "AST-based abstract interpreter and rule engine (units, windows, shapes, aliases, extended reals, term algebra)"}],
    "checks": checks,
    "notes": "Exit codes: 0 held (possibly with KNOWN-FINDING lines), 1 VIOLATION, 2 ANALYSIS-ERROR (the analyser could not decide; nothing is claimed).",
    "not_applicable": [],
}
json.dump(manifest, open(sys.argv[1] if len(sys.argv) > 1 else "MANIFEST.json", "w"), indent=1)
print("written", len(checks), "checks")
