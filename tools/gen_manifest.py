"""Writes MANIFEST.json from the rule modules' docstrings and the level table."""
import importlib, json, sys
sys.path.insert(0, ".")
from pfsa.cli import LEVELS
TECH = {"C01": "term identity over column algebra + argument wiring", "C02": "time-dependence (window) analysis + ordering", "C03": "sibling agreement of branches + def-use chain",
        "C04": "composition rules for curvature/monotonicity/cash covariance", "C05": "term identities + interval obligation at the bisection site", "C06": "term identities + typestate of Hedger.price",
        "C07": "PDE / terminal / boundary identities by computer algebra on extracted terms", "C08": "symbolic differentiation of the price term + units-of-measure typing + dataflow of autogreek",
        "C09": "term identities + sign analysis of Greeks", "C10": "units-of-measure typing + one-step moment identities + termination rule", "C11": "symbolic shapes + column-0 evaluation + dtype provenance",
        "C12": "column algebra against contractual definitions + wiring + clause order", "C13": "sibling agreement over simulate() + term identity of time_to_maturity", "C14": "gradient-taint over the data-dependence slice",
        "C15": "typestate over interpreted event traces of fit()", "C16": "alias/ownership of in-place targets + single-writer + purity by reachability", "C17": "inductive invariant over to/simulate/register_buffer + dtype provenance",
        "C18": "extended-real abstract evaluation at boundary cases", "C19": "loop-invariant case analysis + termination + wiring", "C20": "enumeration of orderings + option-use rule + term identities"}
checks = []
for i in range(1, 21):
    pid = f"C{i:02d}"
    mod = importlib.import_module(f"pfsa.rules.{pid.lower()}")
    doc = " ".join((mod.__doc__ or "").split())
    cat = LEVELS.get(pid, "other")
    checks.append({
        "property_id": pid,
        "quick_cmd": f"./check {pid} quick",
        "thorough_cmd": f"./check {pid} thorough",
        "evidence_file": f"/verif/evidence/{pid}.json",
        "replay_cmd_template": "./check --replay {path}",
        "engine": "pfsa",
        "technique": TECH[pid],
        "level_claimed": {"category": cat, "text": "Static analysis of the current sources (ast only, nothing executed): " + doc, "design_ref": f"DESIGN.md section 3, {pid}"},
        "level_note": "Decides the structural clauses listed in DESIGN.md section 3 for this property over the reals; trusted base: operator table of DESIGN.md 2.1, sympy, the lemmas of Appendix B; "
                      "not decided: floating-point rounding, user-supplied callables, and the clauses listed under 'Does not decide'.",
    })
manifest = {
    "version": 1,
    "setup_cmd": "/venv/bin/python -W ignore -m pfsa selfcheck",
    "hooks": {"guard": "PFHEDGE_VERIF", "enable": "none: the checks read /repo sources only, no instrumentation is compiled in",
              "baseline_off_cmd": "cd /repo && /venv/bin/python -m pytest -ra -q -p no:cacheprovider --timeout=900 --continue-on-collection-errors", "source_commits": [], "add_only": True},
    "engines": [{"name": "pfsa", "path": "/verif/pfsa", "serves_properties": [c["property_id"] for c in checks], "kind_free_text": "AST-based abstract interpreter and rule engine (units, windows, shapes, aliases, extended reals, term algebra)"}],
    "checks": checks,
    "notes": "Exit codes: 0 held (possibly with KNOWN-FINDING lines), 1 VIOLATION, 2 ANALYSIS-ERROR (the analyser could not decide; nothing is claimed).",
    "not_applicable": [],
}
json.dump(manifest, open(sys.argv[1] if len(sys.argv) > 1 else "MANIFEST.json", "w"), indent=1)
print("written", len(checks), "checks")
