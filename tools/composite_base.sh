#!/bin/bash
# usage: tools/composite_base.sh <dir> [refactoring ids...]   build a copy of /repo/pfhedge with several confirmed refactorings applied together
# (default: eight that touch different parts of the package), then:  PFSA_SELFTEST_BASE=<dir> selftest/run.py   runs every scripted variant
# on the REFACTORED tree (detection under restructuring; variants whose pattern the refactorings rewrote report PATTERN-NOT-FOUND).
cd "$(dirname "$0")/.." || exit 2
b="$1"; shift; ids="${*:-R22-2 G04-1 R26-2 G05-2 R25-1 G02-2 R26-4 G08-2}"
rm -rf "$b"; mkdir -p "$b/verif"; cp -r /repo/pfhedge "$b/"; cp known_findings.json "$b/verif/"
for k in $ids; do
  if patch -p1 -s --dry-run -d "$b" -i "$PWD/refactorings/$k/patch.diff" >/dev/null 2>&1; then patch -p1 -s -d "$b" -i "$PWD/refactorings/$k/patch.diff" && echo "applied $k"; else echo "skipped $k (conflicts)"; fi
done
