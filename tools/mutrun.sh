#!/bin/bash
# usage: mutrun.sh <mutant id> <check>
cd /verif
d=$(mktemp -d /var/tmp/pfsa_mr.XXXXXX); cp -r /repo/pfhedge $d/
/venv/bin/python - "$1" "$d" <<'PY'
import sys
sys.path.insert(0,'/verif')
from selftest.mutants import M
mu=[m for m in M if m['id']==sys.argv[1]][0]
p=sys.argv[2]+'/pfhedge/'+mu['file']; s=open(p).read(); assert mu['old'] in s
s=s.replace(mu['old'],mu['new'],1)
if mu.get('extra'): s=s.replace(mu['extra'][0],mu['extra'][1],1)
open(p,'w').write(s)
PY
mkdir -p $d/verif; cp known_findings.json $d/verif/
PFSA_REPO=$d PFSA_VERIF=$d/verif ./check $2 quick 2>&1 | tail -n ${TAIL:-8}
rm -rf $d
