#!/bin/bash
# usage: tools/try_seed.sh <patch.diff | seeded id> <check> [tier]     run one check on a scratch copy of /repo with the patch applied
cd "$(dirname "$0")/.." || exit 2
p="$1"; [ -f "$p" ] || p="seeded/$1/patch.diff"; [ -f "$p" ] || p="/var/tmp/cand/$1/patch.diff"; [ -f "$p" ] || p="/var/tmp/cand2/$1/patch.diff"; [ -f "$p" ] || p="/var/tmp/cand3/$1/patch.diff"; [ -f "$p" ] || p="/var/tmp/cand4/$1/patch.diff"; [ -f "$p" ] || p="/var/tmp/cand5/$1/patch.diff"; [ -f "$p" ] || p="/var/tmp/cand8/$1/patch.diff"; [ -f "$p" ] || { echo "no such seed: $1"; exit 2; }
d=$(mktemp -d /var/tmp/pfsa_try.XXXXXX)
cp -r /repo/pfhedge $d/ && patch -p1 -s -d $d -i "$(realpath $p)" && mkdir -p $d/verif && cp known_findings.json $d/verif/
# REPAIR="relative/file.py::sed expression": undo the seeded defect on the scratch copy, to try the refactoring alone (must then be silent)
if [ -n "$REPAIR" ]; then f="${REPAIR%%::*}"; e="${REPAIR#*::}"; cp $d/$f $d/$f.orig; sed -i -E "$e" $d/$f; diff $d/$f.orig $d/$f | head -6; rm $d/$f.orig; fi
PFSA_REPO=$d PFSA_VERIF=$d/verif ./check "$2" "${3:-quick}" 2>&1 | tail -n "${TAIL:-6}"
rm -rf $d
