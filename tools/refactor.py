"""Behaviour-preserving refactorings written by independent sub-agents: the false-alarm bench.
  tools/refactor.py verify <dir>     confirm a candidate (patch.diff + demo.py): applies to /repo HEAD, pinned suite 933/933 with it, demo
                                     exits 0 and prints the same `DIGEST <hex>` line on the clean and on the refactored tree.
  tools/refactor.py intake <name>    copy /tmp/wt/<name>/_seed/k to /verif/refactorings/<name>-k, verify, keep the confirmed ones
  tools/refactor.py check [ids...]   apply each /verif/refactorings/<id>/patch.diff to a scratch copy of /repo and run EVERY registered check
                                     (quick) on it: any exit code other than 0 is a false alarm (1) or a brittle analysis (2);
                                     rewrites /verif/refactorings/RESULTS.md when run without ids.
Nothing here is a registered check."""
import concurrent.futures as cf, json, os, pathlib, shutil, subprocess, sys, tempfile

VERIF = pathlib.Path(__file__).resolve().parent.parent
ROOT = pathlib.Path(os.environ.get("REF_ROOT", str(VERIF / "refactorings")))
PY = "/venv/bin/python"
PROPS = [f"C{i:02d}" for i in range(1, 21)]


def sh(cmd, **kw):
    return subprocess.run(cmd, capture_output=True, text=True, **kw)


def digest(out):
    lines = [l for l in out.strip().splitlines() if l.startswith("DIGEST ")]
    return lines[-1].split()[1] if lines else None


def verify(d):
    d = pathlib.Path(d).resolve()
    wt = pathlib.Path(tempfile.mkdtemp(prefix="pfsa_refwt_", dir="/var/tmp")) / "wt"
    res = {}
    try:
        r = sh(["git", "-C", "/repo", "worktree", "add", "--detach", str(wt), "HEAD", "-q"])
        assert r.returncode == 0, r.stderr
        env = dict(os.environ, PYTHONPATH=str(wt))
        demo = d / "demo.py"
        r0 = sh([PY, "-W", "ignore", str(demo)], cwd=str(wt), env=env, timeout=900)
        res["demo_clean_exit"], res["digest_clean"] = r0.returncode, digest(r0.stdout)
        r = sh(["git", "-C", str(wt), "apply", str(d / "patch.diff")])
        res["applies"] = r.returncode == 0
        if r.returncode:
            res["apply_error"] = r.stderr[-300:]
            return res
        r1 = sh([PY, "-W", "ignore", str(demo)], cwd=str(wt), env=env, timeout=900)
        res["demo_patched_exit"], res["digest_patched"] = r1.returncode, digest(r1.stdout)
        rs = sh([PY, str(VERIF / "tools" / "baseline.py"), str(wt), "-n", os.environ.get("SEED_JOBS", "8")], timeout=3600)
        res["suite"] = rs.stdout.strip().splitlines()[0] if rs.stdout.strip() else rs.stderr[-200:]
        res["suite_ok"] = rs.returncode == 0
        res["confirmed"] = bool(res["applies"] and res["suite_ok"] and r0.returncode == 0 and r1.returncode == 0
                                and res["digest_clean"] is not None and res["digest_clean"] == res["digest_patched"])
        return res
    finally:
        sh(["git", "-C", "/repo", "worktree", "remove", "--force", str(wt)])
        shutil.rmtree(wt.parent, ignore_errors=True)


def intake(name):
    ROOT.mkdir(exist_ok=True)
    for k in range(1, 7):
        src = pathlib.Path(f"/tmp/wt/{name}/_seed/{k}")
        if not (src / "patch.diff").exists():
            continue
        dst = ROOT / f"{name}-{k}"
        shutil.rmtree(dst, ignore_errors=True)
        dst.mkdir(parents=True)
        for f in ("patch.diff", "demo.py", "meta.json"):
            if (src / f).exists():
                shutil.copy(src / f, dst / f)
        res = verify(dst)
        (dst / "verified.json").write_text(json.dumps(res, indent=1))
        if res.get("confirmed"):
            print(f"{dst} confirmed")
        else:
            print(f"{dst} NOT confirmed: {json.dumps(res)[:400]}")
            rej = ROOT / "_rejected"
            rej.mkdir(exist_ok=True)
            shutil.rmtree(rej / dst.name, ignore_errors=True)
            shutil.move(str(dst), str(rej / dst.name))


def check_one(rid):
    d = ROOT / rid
    tmp = pathlib.Path(tempfile.mkdtemp(prefix="pfsa_ref_", dir="/var/tmp"))
    try:
        shutil.copytree("/repo/pfhedge", tmp / "pfhedge")
        r = sh(["patch", "-p1", "-s", "-d", str(tmp), "-i", str(d / "patch.diff")])
        if r.returncode:
            return rid, None, "patch does not apply: " + (r.stdout + r.stderr)[-200:]
        (tmp / "verif").mkdir()
        shutil.copy(VERIF / "known_findings.json", tmp / "verif" / "known_findings.json")
        env = dict(os.environ, PFSA_REPO=str(tmp), PFSA_VERIF=str(tmp / "verif"))

        def one(pid):
            r = sh([PY, "-W", "ignore", "-m", "pfsa", pid, "quick"], cwd=str(VERIF), env=env, timeout=1800)
            diag = [l.strip() for l in r.stdout.splitlines() if l.startswith("  ") or l.startswith("ANALYSIS")]
            return pid, r.returncode, diag[:2]

        with cf.ThreadPoolExecutor(max_workers=5) as ex:
            return rid, list(ex.map(one, PROPS)), ""
    finally:
        shutil.rmtree(tmp, ignore_errors=True)


def check(ids):
    all_ids = sorted(p.name for p in ROOT.iterdir() if (p / "patch.diff").exists() and not p.name.startswith("_"))
    rows, bad = [], 0
    with cf.ThreadPoolExecutor(max_workers=4) as ex:
        for rid, out, err in ex.map(check_one, ids or all_ids):
            meta = json.loads((ROOT / rid / "meta.json").read_text()) if (ROOT / rid / "meta.json").exists() else {}
            if out is None:
                print(f"{rid}: {err}")
                rows.append((rid, "ERROR", "", err, meta.get("title", "")))
                bad += 1
                continue
            alarms = [p for p, c, _ in out if c == 1]
            brittle = [p for p, c, _ in out if c not in (0, 1)]
            verdict = "silent" if not alarms and not brittle else ("FALSE-ALARM" if alarms else "BRITTLE")
            diag = next((dg[0] for p, c, dg in out if c != 0 and dg), "")
            print(f"{rid:10s} {verdict:12s} alarms={','.join(alarms) or '-'} analysis-errors={','.join(brittle) or '-'}")
            if diag:
                print("      ", diag[:240])
            bad += verdict != "silent"
            rows.append((rid, verdict, ",".join(alarms + brittle), diag, meta.get("title", "")))
    if not ids:
        with open(ROOT / "RESULTS.md", "w") as f:
            f.write("# Behaviour-preserving refactorings vs. the registered checks (quick tier)\n\nGenerated by `tools/refactor.py check`. One row per confirmed refactoring "
                    "(pinned suite 933/933, same behaviour digest on the clean and the refactored tree). Every check must stay silent.\n\n"
                    "| refactoring | verdict | checks that do not exit 0 | what the change is | first diagnosis line |\n|---|---|---|---|---|\n")
            for rid, verdict, which, diag, title in rows:
                f.write(f"| {rid} | {verdict} | {which or '-'} | {title.replace('|', '/')} | `{diag[:200].replace('|', '/')}` |\n")
    print(f"{len(rows)} refactorings, {bad} not silent")
    return 1 if bad else 0


if __name__ == "__main__":
    if sys.argv[1] == "verify":
        r = verify(sys.argv[2])
        print(json.dumps(r, indent=1))
        sys.exit(0 if r.get("confirmed") else 1)
    if sys.argv[1] == "intake":
        intake(sys.argv[2])
        sys.exit(0)
    sys.exit(check(sys.argv[2:]))
